#!/usr/bin/env python3
"""Run the pinned suite on a glue tree (default /repo) and compare with BASELINE.json stable_pass.
usage: tools/baseline_check.py [repo_path] [-n JOBS]   -> exit 0 iff every stable test passes."""
import json
import os
import subprocess
import sys
import tempfile
import xml.etree.ElementTree as ET

repo = sys.argv[1] if len(sys.argv) > 1 and not sys.argv[1].startswith("-") else "/repo"
jobs = sys.argv[sys.argv.index("-n") + 1] if "-n" in sys.argv else "12"
stable = set(json.load(open("/root/.vp/BASELINE.json"))["stable_pass"])
with tempfile.TemporaryDirectory() as td:
    xml = os.path.join(td, "j.xml")
    env = dict(os.environ)
    env.pop("GLUE_VERIF_HOOKS", None)
    env["PYTHONPATH"] = repo
    cmd = ["/venv/bin/python", "-m", "pytest", "-q", "-p", "no:cacheprovider", "--timeout=900",
           "--continue-on-collection-errors", "--junitxml=" + xml] + (["-n", jobs] if jobs != "0" else [])
    p = subprocess.run(cmd, cwd=repo, env=env, capture_output=True, text=True)
    print(p.stdout[-600:])
    passed = set()
    for tc in ET.parse(xml).getroot().iter("testcase"):
        if not any(ch.tag in ("failure", "error", "skipped") for ch in tc):
            passed.add(tc.get("classname") + "::" + tc.get("name"))
missing = sorted(stable - passed)
print("stable tests: %d, passed now: %d, stable-but-not-passing: %d" % (len(stable), len(stable & passed), len(missing)))
for m in missing[:40]:
    print("  NOT PASSING:", m)
sys.exit(1 if missing else 0)
