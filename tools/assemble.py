#!/usr/bin/env python3
"""Assemble MANIFEST.json and KNOWN_FINDINGS.json from the per-property fragments in props.d/."""
import glob
import json
import os

ROOT = os.path.dirname(os.path.dirname(os.path.abspath(__file__)))
ALL = ["C%02d" % i for i in range(1, 21)]


def main():
    checks, na, findings = [], [], []
    for pid in ALL:
        d = os.path.join(ROOT, "props.d", pid)
        mf = os.path.join(d, "manifest.json")
        if os.path.exists(mf):
            m = json.load(open(mf))
            if "not_applicable" in m:
                na.append({"property_id": pid, "reason": m["not_applicable"]})
            else:
                checks.append({
                    "property_id": pid,
                    "quick_cmd": "./check %s quick" % pid,
                    "thorough_cmd": "./check %s thorough" % pid,
                    "evidence_file": "evidence/%s.json" % pid,
                    "replay_cmd_template": "./check %s --replay {path}" % pid,
                    "engine": "lean-correspondence",
                    "level_claimed": m["level_claimed"],
                    "level_note": m["level_note"],
                    "technique": m.get("technique", "Lean 4 proof + differential correspondence"),
                })
        else:
            na.append({"property_id": pid, "reason": "not built yet in this round (planned: DESIGN.md §5 %s); no check is claimed" % pid})
        ff = os.path.join(d, "findings.json")
        if os.path.exists(ff):
            findings.extend(json.load(open(ff)))
    hooks_file = os.path.join(ROOT, "props.d", "hooks.json")
    hooks = json.load(open(hooks_file))
    manifest = {
        "version": 1,
        "setup_cmd": "./setup.sh",
        "hooks": hooks,
        "engines": [{
            "name": "lean-correspondence",
            "path": "check",
            "serves_properties": [c["property_id"] for c in checks],
            "kind_free_text": "Lean 4 models + theorems (lean/GlueVerif), per-property line-protocol drivers (lean/Drivers), Python differential harness (harness/) running real glue objects from /repo in-process",
        }],
        "checks": checks,
        "not_applicable": na,
        "notes": "Every check: (1) lake build of Props.Cxx + driver, forbidden-token scan, #print axioms audit; (2) differential correspondence real glue <-> Lean Impl model, property oracle = Lean Spec on the implementation's output; (3) findings matched against KNOWN_FINDINGS.json. Exit 2 = internal error/time-out.",
    }
    json.dump(manifest, open(os.path.join(ROOT, "MANIFEST.json"), "w"), indent=1)
    json.dump({"comment": "assembled from props.d/*/findings.json by tools/assemble.py; never written at check time",
               "findings": findings}, open(os.path.join(ROOT, "KNOWN_FINDINGS.json"), "w"), indent=1)
    print("checks:", [c["property_id"] for c in checks])
    print("not_applicable:", [n["property_id"] for n in na])
    print("findings:", [(f["property"], f["id"], f["status"]) for f in findings])


if __name__ == "__main__":
    main()
