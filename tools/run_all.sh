#!/bin/bash
# Run every claimed check (quick by default) on /repo and print one summary line per property.
cd "$(dirname "$0")/.."
TIER="${1:-quick}"
for p in $(python3 -c "import json;print(' '.join(c['property_id'] for c in json.load(open('MANIFEST.json'))['checks']))"); do
  out=$(./check $p $TIER 2>&1); rc=$?
  echo "$p exit=$rc $(echo "$out" | tail -1)"
  echo "$out" | grep "^VIOLATION" | head -3
done
