#!/usr/bin/env python3
"""Source anchors: which glue functions each property's model transcribes, and a fingerprint of each.

    tools/anchors.py --derive    map the `where` line ranges of properties.jsonl (given against the
                                 pinned commit) to enclosing functions/classes -> props.d/Cxx/anchors.json
                                 (keeps fingerprints empty)
    tools/anchors.py --update    recompute the fingerprints from /repo's current working tree
    tools/anchors.py [--check]   print the anchored functions whose fingerprint differs from the baseline

The fingerprint is a hash of the function's AST (comments/formatting ignored). At check time
harness/core.py recomputes it on the tree under test: a changed or vanished anchored function is NOT a
violation by itself (a harmless rewrite changes it too); it makes the check run its thorough generators
inside the quick budget (a deeper failing-input search exactly when the transcribed code has changed)
and is recorded in the evidence (`anchored_changed`)."""
import ast
import hashlib
import json
import os
import re
import subprocess
import sys

ROOT = os.path.dirname(os.path.dirname(os.path.abspath(__file__)))
PINNED = "56f48f0"
PY = os.environ.get("VERIF_PYTHON", "/venv/bin/python")
if __name__ == "__main__" and os.path.realpath(sys.executable) != os.path.realpath(PY) and os.path.exists(PY):
    # fingerprints depend on the interpreter's `ast`: always use the interpreter the checks run under
    os.execv(PY, [PY] + sys.argv)


def qualnames_in_range(src, lo, hi):
    """Qualified names of the innermost function / class definitions overlapping [lo, hi]."""
    tree = ast.parse(src)
    out = []

    def visit(node, prefix):
        for ch in ast.iter_child_nodes(node):
            if isinstance(ch, (ast.FunctionDef, ast.AsyncFunctionDef, ast.ClassDef)):
                q = prefix + ch.name
                end = getattr(ch, "end_lineno", ch.lineno)
                first = min([ch.lineno] + [d.lineno for d in ch.decorator_list])
                if first <= hi and end >= lo:
                    if isinstance(ch, ast.ClassDef):
                        before = len(out)
                        visit(ch, q + ".")
                        if len(out) == before:
                            out.append(q)
                    else:
                        out.append(q)
            else:
                visit(ch, prefix)
    visit(tree, "")
    return out


def fingerprint(src, qual):
    try:
        tree = ast.parse(src)
    except SyntaxError:
        return "syntax-error"
    node = tree
    for part in qual.split("."):
        nxt = None
        for ch in ast.walk(node) if node is tree else ast.iter_child_nodes(node):
            if isinstance(ch, (ast.FunctionDef, ast.AsyncFunctionDef, ast.ClassDef)) and ch.name == part:
                nxt = ch
                break
        if nxt is None:
            return "missing"
        node = nxt
    # drop docstrings: they are documentation, not behaviour
    for n in ast.walk(node):
        if isinstance(n, (ast.FunctionDef, ast.AsyncFunctionDef, ast.ClassDef)) and n.body and isinstance(n.body[0], ast.Expr) \
                and isinstance(getattr(n.body[0], "value", None), ast.Constant) and isinstance(n.body[0].value.value, str):
            n.body = n.body[1:] or [ast.Pass()]
    return hashlib.blake2b(ast.dump(node, include_attributes=False).encode(), digest_size=8).hexdigest()


def current_fingerprints(repo, anchors):
    out = {}
    cache = {}
    for a in anchors:
        path, qual = a.split("::")
        if path not in cache:
            try:
                cache[path] = open(os.path.join(repo, path)).read()
            except OSError:
                cache[path] = None
        out[a] = "missing-file" if cache[path] is None else fingerprint(cache[path], qual)
    return out


def drift(prop_id, repo):
    """-> (n_anchors, [changed anchors]) for the tree `repo`; ([], 0) if no baseline exists."""
    p = os.path.join(ROOT, "props.d", prop_id, "anchors.json")
    if not os.path.exists(p):
        return 0, []
    base = json.load(open(p))["fingerprints"]
    cur = current_fingerprints(repo, list(base))
    return len(base), sorted(a for a in base if base[a] and cur[a] != base[a])


def derive():
    for l in open(os.path.join(ROOT, "properties.jsonl")):
        p = json.loads(l)
        anchors = []
        for m in p["anchors"].get("mechanism", []) + p["anchors"].get("state", []):
            where = m.get("where", "")
            cur_file = None
            for piece in re.split(r",\s*", where):
                mm = re.match(r"(?:(glue/[\w/\.]+\.py):)?\s*(\d+)(?:-(\d+))?$", piece.strip())
                if not mm:
                    f2 = re.match(r"(glue/[\w/\.]+\.py)$", piece.strip())
                    if f2:
                        cur_file = f2.group(1)
                    continue
                if mm.group(1):
                    cur_file = mm.group(1)
                if not cur_file:
                    continue
                lo = int(mm.group(2))
                hi = int(mm.group(3) or lo)
                r = subprocess.run(["git", "-C", "/repo", "show", "%s:%s" % (PINNED, cur_file)], capture_output=True, text=True)
                if r.returncode:
                    continue
                for q in qualnames_in_range(r.stdout, lo, hi):
                    a = "%s::%s" % (cur_file, q)
                    if a not in anchors:
                        anchors.append(a)
        d = os.path.join(ROOT, "props.d", p["id"])
        if not os.path.isdir(d):
            continue
        path = os.path.join(d, "anchors.json")
        old = json.load(open(path)) if os.path.exists(path) else {"extra": []}
        for a in old.get("extra", []):
            if a not in anchors:
                anchors.append(a)
        json.dump({"comment": "functions this property's model transcribes (derived from properties.jsonl anchors at the pinned commit by tools/anchors.py --derive; `extra` is hand-added); fingerprints = AST hashes on /repo at the time of tools/anchors.py --update",
                   "extra": old.get("extra", []), "fingerprints": {a: "" for a in anchors}}, open(path, "w"), indent=1)
        print(p["id"], len(anchors), "anchors")


def update():
    for pid in sorted(os.listdir(os.path.join(ROOT, "props.d"))):
        path = os.path.join(ROOT, "props.d", pid, "anchors.json")
        if os.path.exists(path):
            d = json.load(open(path))
            d["fingerprints"] = current_fingerprints("/repo", list(d["fingerprints"]))
            d["repo_head"] = subprocess.run(["git", "-C", "/repo", "rev-parse", "--short", "HEAD"], capture_output=True, text=True).stdout.strip()
            json.dump(d, open(path, "w"), indent=1)
            bad = [a for a, h in d["fingerprints"].items() if h in ("missing", "missing-file", "syntax-error")]
            print(pid, len(d["fingerprints"]), "fingerprints", ("UNRESOLVED: %s" % bad) if bad else "")


if __name__ == "__main__":
    if "--derive" in sys.argv:
        derive()
    if "--update" in sys.argv:
        update()
    if len(sys.argv) == 1 or "--check" in sys.argv:
        repo = os.environ.get("GLUE_REPO", "/repo")
        for pid in sorted(os.listdir(os.path.join(ROOT, "props.d"))):
            n, ch = drift(pid, repo)
            if n:
                print(pid, "%d anchored functions, %d changed" % (n, len(ch)), ch[:6])
