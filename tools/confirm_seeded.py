#!/usr/bin/env python3
"""Confirm a seeded breaking change produced by an independent sub-agent and keep it under seeded/<id>/.

usage: tools/confirm_seeded.py <src_dir_with patch.diff demo.py meta.json> <id> [--no-suite]

In a scratch worktree of /repo's HEAD (under /tmp/sc/<id>, removed afterwards):
  1. demo.py exits 0 on the unchanged tree;
  2. patch.diff applies; glue still imports; demo.py exits != 0 with it;
  3. the pinned suite still passes test-by-test against BASELINE.json stable_pass (tools/baseline_check.py).
Only if all three hold is the change copied to seeded/<id>/ with the confirmation recorded in meta.json.
/repo itself is never modified."""
import json
import os
import shutil
import subprocess
import sys

ROOT = os.path.dirname(os.path.dirname(os.path.abspath(__file__)))


def sh(cmd, **kw):
    return subprocess.run(cmd, capture_output=True, text=True, **kw)


def main():
    src, sid = sys.argv[1], sys.argv[2]
    suite = "--no-suite" not in sys.argv
    wt = "/tmp/sc/" + sid
    os.makedirs("/tmp/sc", exist_ok=True)
    sh(["git", "-C", "/repo", "worktree", "remove", "--force", wt])
    r = sh(["git", "-C", "/repo", "worktree", "add", "-q", wt, "HEAD"])
    if r.returncode:
        print("worktree failed", r.stderr)
        return 2
    conf = {}
    try:
        env = dict(os.environ, PYTHONPATH=wt, MPLBACKEND="Agg")
        env.pop("GLUE_VERIF_HOOKS", None)
        # run the demo from <worktree>/_seeded/demo.py: demos put their own worktree root on sys.path
        os.makedirs(os.path.join(wt, "_seeded"), exist_ok=True)
        demo = os.path.join(wt, "_seeded", "demo.py")
        shutil.copy(os.path.join(src, "demo.py"), demo)
        r0 = sh(["/venv/bin/python", demo], cwd=wt, env=env)
        conf["demo_exit_clean"] = r0.returncode
        ra = sh(["git", "-C", wt, "apply", os.path.join(src, "patch.diff")])
        conf["patch_applies"] = ra.returncode == 0
        if ra.returncode:
            print("patch does not apply:", ra.stderr[-400:])
            return 1
        ri = sh(["/venv/bin/python", "-c", "import glue, glue.core, glue.viewers.image.state; print(glue.__file__)"], cwd=wt, env=env)
        conf["imports_with_patch"] = ri.returncode == 0 and wt in ri.stdout
        r1 = sh(["/venv/bin/python", demo], cwd=wt, env=env)
        conf["demo_exit_patched"] = r1.returncode
        conf["demo_patched_tail"] = (r1.stdout + r1.stderr)[-400:]
        ok = r0.returncode == 0 and r1.returncode != 0 and conf["imports_with_patch"]
        if ok and suite:
            rs = sh(["python3", os.path.join(ROOT, "tools", "baseline_check.py"), wt, "-n", "6"])
            conf["suite_exit"] = rs.returncode
            conf["suite_tail"] = rs.stdout[-300:]
            ok = ok and rs.returncode == 0
        conf["confirmed"] = bool(ok)
        conf["repo_head"] = sh(["git", "-C", "/repo", "rev-parse", "--short", "HEAD"]).stdout.strip()
    finally:
        sh(["git", "-C", "/repo", "worktree", "remove", "--force", wt])
    print(json.dumps(conf, indent=1))
    if not conf.get("confirmed"):
        return 1
    dst = os.path.join(ROOT, "seeded", sid)
    os.makedirs(dst, exist_ok=True)
    for f in ("patch.diff", "demo.py"):
        shutil.copy(os.path.join(src, f), os.path.join(dst, f))
    meta = json.load(open(os.path.join(src, "meta.json")))
    meta["confirmation"] = conf
    meta["confirmed_by"] = "tools/confirm_seeded.py in a scratch worktree of /repo HEAD (demo clean=0, demo patched!=0, pinned suite vs BASELINE stable_pass)"
    json.dump(meta, open(os.path.join(dst, "meta.json"), "w"), indent=1)
    print("kept as", dst)
    return 0


if __name__ == "__main__":
    sys.exit(main())
