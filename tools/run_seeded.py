#!/usr/bin/env python3
"""Run the registered checks against the confirmed seeded changes in seeded/<id>/.

For each seeded/<id>/ (patch.diff, demo.py, meta.json) a scratch worktree of /repo's HEAD is made
under /tmp/sw/<id>, the patch is applied there, the demo is run (must exit !=0 with the patch), and
`GLUE_REPO=<worktree> ./check <property> <tier>` must exit 1 with a VIOLATION line. The worktree is
removed afterwards. /repo itself is never modified.
usage: tools/run_seeded.py [--tier quick|thorough] [id ...]"""
import json
import os
import subprocess
import sys

ROOT = os.path.dirname(os.path.dirname(os.path.abspath(__file__)))


def sh(cmd, **kw):
    return subprocess.run(cmd, capture_output=True, text=True, **kw)


def main():
    args = sys.argv[1:]
    tier = "quick"
    if "--tier" in args:
        i = args.index("--tier")
        tier = args[i + 1]
        del args[i:i + 2]
    ids = args or sorted(os.listdir(os.path.join(ROOT, "seeded")))
    results = {}
    for sid in ids:
        d = os.path.join(ROOT, "seeded", sid)
        if not os.path.exists(os.path.join(d, "patch.diff")):
            continue
        meta = json.load(open(os.path.join(d, "meta.json")))
        prop = meta["property"]
        wt = "/tmp/sw/" + sid
        sh(["git", "-C", "/repo", "worktree", "remove", "--force", wt])
        os.makedirs("/tmp/sw", exist_ok=True)
        r = sh(["git", "-C", "/repo", "worktree", "add", "-q", wt, "HEAD"])
        try:
            r = sh(["git", "-C", wt, "apply", "--3way", os.path.join(d, "patch.diff")])
            if r.returncode != 0:
                results[sid] = {"property": prop, "status": "patch-does-not-apply", "detail": r.stderr[-300:]}
                continue
            env = dict(os.environ, PYTHONPATH=wt, MPLBACKEND="Agg")
            os.makedirs(os.path.join(wt, "_seeded"), exist_ok=True)
            import shutil
            shutil.copy(os.path.join(d, "demo.py"), os.path.join(wt, "_seeded", "demo.py"))
            demo = sh(["/venv/bin/python", os.path.join(wt, "_seeded", "demo.py")], cwd=wt, env=env)
            env2 = dict(os.environ, GLUE_REPO=wt)
            c = sh([os.path.join(ROOT, "check"), prop, tier], cwd=ROOT, env=env2)
            viol = [l for l in c.stdout.split("\n") if l.startswith("VIOLATION")]
            results[sid] = {"property": prop, "demo_exit_with_patch": demo.returncode, "check_exit": c.returncode,
                            "violation_lines": viol[:3], "caught": c.returncode == 1 and bool(viol)}
        finally:
            sh(["git", "-C", "/repo", "worktree", "remove", "--force", wt])
        print(sid, json.dumps(results[sid]))
        sys.stdout.flush()
    caught = sum(1 for r in results.values() if r.get("caught"))
    print("caught %d / %d" % (caught, len(results)))
    rp = os.path.join(ROOT, "seeded", "RESULTS_%s.json" % tier)
    allres = json.load(open(rp)) if os.path.exists(rp) else {}
    allres.update(results)
    json.dump(allres, open(rp, "w"), indent=1, sort_keys=True)


if __name__ == "__main__":
    main()
