#!/usr/bin/env python3
"""Apply the proposed fix diffs of the given properties to /repo, one `fix:` commit per diff, and
record the commit in props.d/Cxx/findings.json.   usage: tools/integrate_fixes.py C01 C06 ...
A diff that is already applied (reverse-applies cleanly) is skipped. Run the pinned suite afterwards
(tools/baseline_check.py /repo)."""
import glob
import json
import os
import re
import subprocess
import sys

ROOT = os.path.dirname(os.path.dirname(os.path.abspath(__file__)))
EXTRA = {  # finding id -> diff stem, where the names do not line up
    ("C15", "C15b-1d-array-view"): "C15a-world-view-edge-cases",
    ("C15", "C15a-empty-view"): "C15a-world-view-edge-cases",
    ("C17", "F13-refresh-changes-ndim"): "F13-refresh-coordinate-components",
    ("C17", "F17-update-components-partial"): "F17-update-components-atomic",
}


def sh(*cmd, **kw):
    return subprocess.run(list(cmd), capture_output=True, text=True, **kw)


def tok(s):
    parts = s.split("-")
    return parts[0] if parts[0] != "F" or len(parts) < 2 else "-".join(parts[:2])


def main():
    for pid in sys.argv[1:]:
        d = os.path.join(ROOT, "props.d", pid)
        ff = os.path.join(d, "findings.json")
        findings = json.load(open(ff)) if os.path.exists(ff) else []
        diffs = sorted(glob.glob(os.path.join(d, "fixes", "*.diff")), key=lambda p: (len(tok(os.path.basename(p))), p))
        commits = {}
        for diff in diffs:
            stem = os.path.basename(diff)[:-5]
            prev = sh("git", "-C", "/repo", "log", "--format=%h", "--fixed-strings", "--grep", "[%s %s]" % (pid, stem)).stdout.split()
            if prev:  # already integrated (never re-apply: a hunk may land elsewhere with an offset)
                print(pid, stem, "already integrated as", prev[0])
                commits[stem] = prev[0]
                continue
            if sh("git", "-C", "/repo", "apply", "--check", diff).returncode != 0:
                if sh("git", "-C", "/repo", "apply", "--check", "-R", diff).returncode == 0:
                    print(pid, stem, "already applied")
                    sha = sh("git", "-C", "/repo", "log", "--format=%h", "--grep", "\\[%s %s\\]" % (pid, stem)).stdout.split()
                    if sha:
                        commits[stem] = sha[0]
                    continue
                r = sh("git", "-C", "/repo", "apply", "--3way", diff)
                if r.returncode != 0:
                    print(pid, stem, "DOES NOT APPLY:", r.stderr[-300:])
                    # leave /repo clean: a half-applied patch must never reach the next commit
                    sh("git", "-C", "/repo", "reset", "-q", "--hard")
                    continue
            else:
                sh("git", "-C", "/repo", "apply", diff)
            whats = [f["what"] for f in findings if EXTRA.get((pid, f["id"]), None) == stem or f["id"] == stem
                     or (tok(f["id"]) == tok(stem)) or (re.sub(r"[a-z]$", "", tok(f["id"])) == tok(stem) and not any(tok(os.path.basename(x)) == tok(f["id"]) for x in diffs))]
            title = stem.split("-", 1)[1].replace("-", " ") if "-" in stem else stem
            body = "\n\n".join(whats) if whats else ""
            msg = "fix: %s\n\n%s\n\n[%s %s]" % (title, body, pid, stem)
            sh("git", "-C", "/repo", "add", "-A")
            r = sh("git", "-C", "/repo", "commit", "-q", "-m", msg)
            if r.returncode != 0:
                print(pid, stem, "commit failed", r.stdout, r.stderr)
                continue
            sha = sh("git", "-C", "/repo", "rev-parse", "--short", "HEAD").stdout.strip()
            commits[stem] = sha
            print(pid, stem, "->", sha)
        for f in findings:
            if f.get("status") != "fixed" or f.get("commit"):
                continue
            stem = EXTRA.get((pid, f["id"]))
            if stem is None:
                cands = [s for s in commits if s == f["id"]] or [s for s in commits if tok(s) == tok(f["id"])] \
                    or [s for s in commits if re.sub(r"[a-z]$", "", tok(f["id"])) == tok(s)]
                stem = cands[0] if cands else None
            if stem in commits:
                f["commit"] = commits[stem]
            else:
                print("  no commit found for", pid, f["id"])
        if findings:
            json.dump(findings, open(ff, "w"), indent=1)


if __name__ == "__main__":
    main()
