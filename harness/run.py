import importlib
import sys

from harness import core


def main():
    pid = sys.argv[1].upper()
    mod = importlib.import_module("harness.props." + pid.lower())
    return core.main(mod.PROP, sys.argv[2:])


if __name__ == "__main__":
    sys.exit(main())
