"""C05 — results always reflect the current data, regions and links: never a stale cache.

Histories `construct* ; eval* ; mutate ; eval* …` on real glue objects (every elementary selection class,
nestings to depth 3, the edit subset of a real DataCollection): attribute setters, in-place edits of the
shared parameter objects (ROI moved / resized, lists, dicts, arrays), `update_components`,
`update_values_from_data` (same / new shape), link add / remove, `compute_statistic` /
`compute_histogram`.  After every data-side mutation the leaf environment is measured again on *fresh
copies* of never-evaluated probe objects (undecorated `to_mask`), so the Lean Spec compares every result
with what a freshly constructed, never-evaluated copy returns with cleared memo tables.

Keyed caches outside `@memoize` (`FloodFillSubsetState._mask_cache`, `HistogramLayerState._histogram_cache`,
`StateAttributeCacheHelper._cache`): every input perturbed in turn, compared with a freshly constructed
object; the key is the one the code built (read back from the object).
"""
import gc
import itertools
import warnings

from harness.core import Family, Property, use_repo, sx

use_repo()
import numpy as np  # noqa: E402

warnings.filterwarnings("ignore")

from harness.props import c01 as B  # noqa: E402  (datasets, leaf constructors, memo-table access of C01)
from glue.core import Data, DataCollection  # noqa: E402
from glue.core import subset as S  # noqa: E402
from glue.core import roi as R  # noqa: E402
from glue.core.link_helpers import LinkSame  # noqa: E402
from glue.core.registry import Registry  # noqa: E402
from glue.core import edit_subset_mode as EM  # noqa: E402
from glue.core import message as M  # noqa: E402
from glue.core import decorators as DECO  # noqa: E402
from glue.core.hub import HubListener  # noqa: E402
from glue.core.component import CoordinateComponent  # noqa: E402
from glue.core.component_id import ComponentID  # noqa: E402
from glue.core.coordinates import AffineCoordinates  # noqa: E402

# ------------------------------------------------------------------------------------------
# leaves: C01's constructors plus variants >= 100 that differ from a base variant only in the
# primary parameter object (targets of in-place edits)
# ------------------------------------------------------------------------------------------

NDIM = {"A6": 1, "A34": 2, "A232": 3, "B4": 1, "T16": 1}


def make_leaf(spec, datas):
    kind, var, di = spec
    d = datas[di]
    att = B.att
    if var < 100:
        return B.make_leaf(spec, datas)
    if kind == "roiNd":
        return S.RoiSubsetStateNd([att(d, "x"), att(d, "y")], R.RectangularROI(2.5, 9.5, 1.5, 5.5))
    if kind == "roi2d":
        roi = [R.RectangularROI(0.5, 3.5, 1.5, 6.5), R.CircularROI(2.0, 4.0, 2.1),
               R.PolygonalROI([1.5, 7.5, 7.5, 1.5], [1.5, 1.5, 4.5, 5.5])][var % 3 - 1] if var % 3 else None
        if var == 100:
            roi = R.RectangularROI(0.5, 3.5, 1.5, 6.5)
        elif var == 101:
            roi = R.CircularROI(2.0, 4.0, 2.1)
        elif var == 102:
            roi = R.PolygonalROI([1.5, 7.5, 7.5, 1.5], [1.5, 1.5, 4.5, 5.5])
        elif var == 103:   # rotated rectangle
            roi = R.RectangularROI(1.5, 8.5, -0.5, 4.5, theta=0.5)
        return S.RoiSubsetState(att(d, "x"), att(d, "y"), roi)
    if kind == "roi3d":
        proj = np.array([[1.0, 0, 0, 0], [0, 1.0, 0, 0], [0, 0, 1.0, 0], [0, 0, 0, 1.0]])
        return S.RoiSubsetState3d(att(d, "x"), att(d, "y"), att(d, "z"),
                                  R.Projected3dROI(R.RectangularROI(2.5, 9.5, 0.5, 3.5), proj))
    if kind == "catRoi2d":
        return S.CategoricalROISubsetState2D({"a": {"v"}, "c": {"u"}}, att(d, "c"), att(d, "c2"))
    if kind == "catMultiRange":
        return S.CategoricalMultiRangeSubsetState({"b": [(0.0, 9.0)], "a": [(3.5, 6.5)]}, att(d, "c"), att(d, "y"))
    if kind == "category":
        return S.CategorySubsetState(att(d, "c"), [1, 2])
    if kind == "element":
        return S.ElementSubsetState(indices=[1, 3], data=d if var == 100 else None)
    raise KeyError(spec)


# setter attributes (public properties with a setter) assigned by `setattr`
SETTERS = {
    "roiNd": ["roi"], "roi2d": ["xatt", "yatt", "roi"], "roi3d": ["xatt", "yatt", "zatt", "roi"],
    "catRoi": ["att", "roi"], "range": ["lo", "hi", "att"], "multiRange": ["pairs", "att"],
    "catRoi2d": ["categories", "att1", "att2"], "catMultiRange": ["ranges", "cat_att", "num_att"],
    "mask": ["mask", "cids"], "floodFill": ["att", "start_coords", "threshold"], "slice": ["slices"],
    "pixel": ["slices"], "category": ["att", "categories"], "element": ["indices"],
    "inequality": ["left", "right", "operator"],
}

# setattr targets: variants of the same kind (same dataset) an object can be turned into by its setters
SET_TARGETS = {
    "roiNd": [0, 100], "roi2d": [0, 1, 2, 100, 101, 102, 103], "roi3d": [0, 100], "catRoi": [0, 1],
    "range": [0, 1, 2, 3, 4], "multiRange": [0, 1], "catRoi2d": [0, 100], "catMultiRange": [0, 100],
    "mask": [0, 1], "floodFill": [0, 1], "slice": [0, 1], "pixel": [0, 1], "category": [0, 1, 100],
    "element": [0, 1, 100], "inequality": [0, 1, 2, 3, 4],
}
# (ElementSubsetState: `data` has no working setter, so the variants without a dataset form their own family)
SET_TARGETS_BY_VAR = {("element", 2): [2, 102], ("element", 102): [2, 102]}


def set_targets(kind, var):
    return SET_TARGETS_BY_VAR.get((kind, var), SET_TARGETS.get(kind, [var]))


# classes whose mask keeps the shape the object was built for: after a shape change numpy may *broadcast* their
# masks against new-shape ones (not a cache matter; the model's Boolean operators demand equal shapes)
OLD_SHAPE_KINDS = {"mask", "floodFill", "slice", "pixel", "element"}

# in-place families: variants whose primary parameter objects can be edited into each other in place
INPLACE_FAMILIES = {
    "roiNd": [[0, 100]], "roi2d": [[0, 100, 103], [1, 101], [2, 102]], "roi3d": [[0, 100]], "catRoi": [[0, 1]],
    "multiRange": [[0, 1]], "catRoi2d": [[0, 100]], "catMultiRange": [[0, 100]], "mask": [[0, 1]],
    "slice": [[0, 1]], "pixel": [[0, 1]], "category": [[0, 100]], "element": [[0, 1, 100], [2, 102]],
}

LEAF_MEMO = {"catRoi", "catRoi2d", "catMultiRange", "category", "element", "inequality"}


def inplace_family(kind, var):
    for fam in INPLACE_FAMILIES.get(kind, []):
        if var in fam:
            return fam
    return None


def apply_setters(st, fresh, kind):
    for name in SETTERS[kind]:
        setattr(st, name, getattr(fresh, name))


def edit_roi_inplace(roi, new):
    """Edit a ROI object in place through its public API so that it equals `new` (same class)."""
    if type(roi) is not type(new):
        raise TypeError("in-place ROI edit across classes")
    if isinstance(roi, R.RectangularROI):
        roi.update_limits(new.xmin, new.ymin, new.xmax, new.ymax)
        roi.rotate_to(new.theta)
    elif isinstance(roi, R.CircularROI):
        roi.set_center(new.xc, new.yc)
        roi.set_radius(new.radius)
    elif isinstance(roi, R.PolygonalROI):
        roi.reset()
        for x, y in zip(new.vx, new.vy):
            roi.add_point(x, y)
    elif isinstance(roi, R.Projected3dROI):
        edit_roi_inplace(roi.roi_2d, new.roi_2d)
    elif isinstance(roi, R.CategoricalROI):
        roi.update_categories(new.categories)
    else:
        raise TypeError(type(roi).__name__)


def edit_inplace(st, fresh, kind):
    """In-place edit of the primary parameter *object* of `st` so that it says what `fresh`'s says."""
    po, pn = B.param_obj(st), B.param_obj(fresh)
    if kind in ("roiNd", "roi2d", "roi3d", "catRoi"):
        if kind == "roi2d" and isinstance(po, R.RectangularROI) and po.theta == pn.theta and \
                abs(po.width() - pn.width()) < 1e-12 and abs(po.height() - pn.height()) < 1e-12:
            st.move_to(*pn.center())      # the state-level API (`RoiSubsetStateNd.move_to` -> `roi.move_to`)
        else:
            edit_roi_inplace(po, pn)
    elif isinstance(po, list):
        po[:] = list(pn)
    elif isinstance(po, dict):
        po.clear()
        po.update({k: (set(v) if isinstance(v, set) else list(v)) for k, v in pn.items()})
    elif isinstance(po, np.ndarray):
        po[...] = pn
    else:
        raise TypeError(type(po).__name__)


# ------------------------------------------------------------------------------------------
# data-side mutations
# ------------------------------------------------------------------------------------------

STAT_ATT = {"A6": "y", "A34": "y", "A232": "y", "B4": "u", "T16": "y"}
ROLL_ATTS = {"A6": ["x", "y", "z"], "A34": ["x", "y", "z"], "A232": ["x", "y", "z"], "B4": ["u", "w"], "T16": ["x", "y", "z"]}


def rolled(d, name, k):
    a = np.asarray(d[name])
    return np.roll(a.ravel(), k).reshape(a.shape)


def main_labels(d):
    return [c.label for c in d.main_components]


def other_data(d, key, new_shape, drop=(), add=(), label=None, coords="same"):
    """The dataset `update_values_from_data` refreshes from: the labels of the main components `d` has now (minus
    `drop`, plus `add`), rolled values; optionally a new shape / label / coordinates."""
    kw = {}
    have = main_labels(d)

    def cut(a):
        # (never a size-1 axis: numpy would broadcast old-shape masks against new-shape ones)
        return a[:-2] if a.ndim == 1 else (a[:-1] if a.shape[0] > 2 else a[:, :-1])
    for i, name in enumerate(ROLL_ATTS[key]):
        if name not in have or name in drop:
            continue
        a = rolled(d, name, i + 1)
        kw[name] = (cut(a) if new_shape else a).copy()
    for name in ("c", "c2"):
        if name in have and name not in drop:
            a = np.array(d[name])
            kw[name] = cut(a) if new_shape else a
    for i, name in enumerate(add):
        a = rolled(d, STAT_ATT[key], i + 2) + 1.0
        kw[name] = (cut(a) if new_shape else a).copy()
    if coords == "same":
        co = d.coords if not new_shape else None
    elif coords == "new":
        co = AffineCoordinates(np.array([[3.0, 0, 1], [0, 2.0, 0], [0, 0, 1.0]])) if d.ndim == 2 else None
    else:
        co = None
    return Data(label=d.label if label is None else label, coords=co, **kw)


# ---- re-entrant mutations: what is done, and the structure the code iterates over (the model's descriptor) ----

MSG_ATOMS = {"NumericalDataChangedMessage": "numerical", "DataRemoveComponentMessage": "remove",
             "ComponentsChangedMessage": "compsChanged", "DataAddComponentMessage": "add",
             "ExternallyDerivableComponentsChangedMessage": "extDerivable", "DataUpdateMessage": "update",
             "ComponentReplacedMessage": "replaced", "PixelAlignedDataChangedMessage": "pixelAligned"}
MSG_ORDER = ["remove", "compsChanged", "extDerivable", "add", "numerical", "update", "replaced", "pixelAligned"]
NOOP = ["removeComponent", []]      # the empty script


def dep_tree(d, cid, gone):
    """`_remove_component(cid)`: the internal derived components that go with it (recursively), as the node of a
    forest: the list of its dependents."""
    gone.add(cid)
    out = []
    for c2 in d.derived_components:
        if c2 in gone:
            continue
        if cid in d.get_component(c2).link.get_from_ids():
            out.append(dep_tree(d, c2, gone))
    return out


def non_coord(d):
    return [c for c in d.components if not isinstance(d.get_component(c), CoordinateComponent)]


def desc_update_values(d, o):
    old, new = non_coord(d), non_coord(o)
    newl, oldl = {c.label for c in new}, {c.label for c in old}
    gone, forest = set(), []
    for c in old:
        if c.label not in newl and c not in gone:
            forest.append(dep_tree(d, c, gone))
    ndim_changed = o.ndim != d.ndim
    nworld = len(d.world_component_ids) if d.coords is not None else 0
    ndim = None
    if ndim_changed:
        ndim = [nworld, [dep_tree(d, c, gone) for c in d.pixel_component_ids if c not in gone], o.ndim]
    added = len([c for c in new if c.label not in oldl])
    cur = None if ndim_changed else d.coords
    coords = None
    if (cur is not None or o.coords is not None) and cur != o.coords:
        coords = [0 if ndim_changed else nworld, o.ndim if o.coords is not None else 0]
    return ["updateValues", forest, ndim, added, d.label != o.label, coords]


def do_mutate(w, kind, di, arg):
    """Runs the mutation; returns the descriptor of what the code iterates over (computed from the data-side
    structure *before* the call: which components exist / depend on which, dimensions, label, coordinates)."""
    d = w.datas[di]
    key = w.dkeys[di]
    have = main_labels(d)
    if kind == "updateComponents":
        d.update_components({d.id[n]: rolled(d, n, i + 1) for i, n in enumerate(ROLL_ATTS[key]) if n in have})
        return ["updateComponents"]
    if kind == "updateValues":
        w.nadd = getattr(w, "nadd", 0) + 1
        q = "q%d" % w.nadd
        o = {"same": lambda: other_data(d, key, False),
             "shape": lambda: other_data(d, key, True),
             "drop": lambda: other_data(d, key, False, drop=("z",), add=(q,)),
             "dropx": lambda: other_data(d, key, False, drop=("x",)),
             "add": lambda: other_data(d, key, False, add=(q,)),
             "label": lambda: other_data(d, key, False, label=d.label + "'"),
             "coords": lambda: other_data(d, key, False, coords="new"),
             "shapedrop": lambda: other_data(d, key, True, drop=("z",), add=(q,))}[arg]()
        w.keep.append(o)
        desc = desc_update_values(d, o)
        d.update_values_from_data(o)
        return desc
    if kind == "addComponent":
        w.nadd = getattr(w, "nadd", 0) + 1
        d.add_component(rolled(d, STAT_ATT[key], 1) + 1.0, "n%d" % w.nadd)
        return ["addComponent"]
    if kind == "replaceComponent":
        if arg not in have:
            return NOOP
        d.add_component(rolled(d, arg, 1), d.id[arg])
        return ["replaceComponent"]
    if kind == "removeComponent":
        if arg not in have:
            return NOOP
        cid = d.id[arg]
        desc = ["removeComponent", [dep_tree(d, cid, set())]]
        d.remove_component(cid)
        return desc
    if kind == "updateId":
        if arg not in have:
            return NOOP
        new = ComponentID(arg + "'")
        w.keep.append(new)
        d.update_id(d.id[arg], new)
        return ["updateId"]
    if kind == "setCoords":
        co = None
        if arg != "none" and d.ndim == 2:
            w.ncoord = getattr(w, "ncoord", 0) + 1
            co = AffineCoordinates(np.array([[2.0 + w.ncoord, 0, 1], [0, 1.0, 0], [0, 0, 1.0]]))
        if d.coords is None and co is None:
            return NOOP
        desc = ["setCoords", len(d.world_component_ids) if d.coords is not None else 0, d.ndim if co is not None else 0]
        d.coords = co
        return desc
    if kind == "addLink":
        lk = LinkSame(w.datas[0].id[STAT_ATT[w.dkeys[0]]], w.datas[1].id["u"])
        w.links.append(lk)
        w.dc.add_link(lk)
        return ["linkChange"]
    if kind == "removeLink":
        lk = w.links.pop()
        w.dc.remove_link(lk)
        return ["linkChange"]
    raise KeyError(kind)


def do_datamut(w, kind, di):
    """The atomic ops of round 1 (old corpus / replay cases)."""
    if kind == "updateValuesShape":
        do_mutate(w, "updateValues", di, "shape")
    elif kind == "updateValues":
        do_mutate(w, "updateValues", di, "same")
    else:
        do_mutate(w, kind, di, None)


def stat_vals(w):
    out = []
    for key, d in zip(w.dkeys, w.datas):
        try:
            a = np.asarray(d[STAT_ATT[key]], dtype=float).ravel()
            if np.all(np.isfinite(a)) and np.all(a == np.round(a)):
                out.append([int(x) for x in a])
            else:
                out.append(None)
        except Exception:  # noqa
            out.append(None)
    return out


# ------------------------------------------------------------------------------------------
# running a history on real glue objects
# ------------------------------------------------------------------------------------------

class World(B.World):
    def __init__(self, case):
        super().__init__(case[:4])
        self.listeners = case[4] if len(case) > 4 else []
        self.links = []


class Reentrant(HubListener):
    """A hub client as every viewer / layer artist is one: subscribed to the data messages, it evaluates
    selections **inside its handler** (the evaluations the case lists for that message class).  It also records
    what it is told and when: the message class, the number of `clear_all_caches()` calls since the previous
    message (the cache generation), and the leaf environment *at that moment* (fresh copies of never-evaluated
    probes through the undecorated `to_mask`: nothing is cached by measuring)."""

    def __init__(self, hub, w, probes, run_eval):
        self.w, self.probes, self.run_eval = w, probes, run_eval
        self.by_msg = {}
        for m, evs in w.listeners:
            self.by_msg.setdefault(m, []).extend(evs)
        self.active = False
        self.muted = False
        self.outside = 0
        self.reset()
        hub.subscribe(self, M.DataMessage, handler=self.notify)

    @staticmethod
    def generation():
        f = getattr(DECO, "cache_generation", None)
        return f() if f is not None else 0

    def reset(self):
        self.trace, self.points, self.evals = [], [], []
        self.gen = self.generation()

    def tick(self, name):
        g = self.generation()
        self.trace.append([g - self.gen, name])
        self.gen = g
        # the leaf environment is measured where something is evaluated: at the messages a listener of the case
        # reacts to, and after the mutation
        if name == "END" or self.by_msg.get(name):
            self.points.append((measure_all(self.probes, self.w.datas, self.w.views), stat_vals(self.w)))
        else:
            self.points.append(("=", "="))

    def notify(self, msg):
        name = MSG_ATOMS.get(type(msg).__name__, "other-" + type(msg).__name__)
        if self.muted:
            return
        if not self.active:
            self.outside += 1
            return
        self.tick(name)
        for ev in self.by_msg.get(name, []):
            self.evals.append(self.run_eval(ev))


def measure_all(probes, datas, views):
    """The leaf environment *now*: every probe's fresh copy through the undecorated to_mask."""
    rows = []
    for p in probes:
        try:
            c = p.copy()
        except Exception:  # noqa
            c = p
        rows.append(B.measure(c, datas, views))
    return rows


def memo_dump(w):
    entries = []
    datamap = {id(d): i for i, d in enumerate(w.datas)}
    view_objs = [B.view_obj(v) if B.view_hashable(v) else None for v in w.views]

    def view_index(v):
        for i, vo in enumerate(view_objs):
            if B.view_hashable(w.views[i]) and type(vo) is type(v) and vo == v:
                return i
        return 999999

    for tname, cache in B.memo_tables().items():
        for (args, kw), val in list(cache.items()):
            kwd = dict(kw)
            if len(args) == 3:
                form, v = "pos", args[2]
            elif "view" in kwd:
                form, v = "kw", kwd["view"]
            else:
                form, v = "bare", None
            mo = B.mask_out(val)
            if mo[0] != "ok":
                mo = ["ok", [], "b"]
            entries.append([tname, datamap.get(id(args[1]), 999999), view_index(v), form, mo[1], mo[2]])
    entries.sort(key=lambda e: sx(e))
    return entries


def run_history(case):
    w = World(case)
    datas, views = w.datas, w.views
    probes = [make_leaf(ls, datas) for ls in w.leaves]
    # every object a `leaf` / `setattr` / `editparam` op needs is constructed now (component ids may disappear
    # from the dataset later: update_values_from_data drops the derived component)
    pool = {}
    for op in w.prog:
        if op[0] == "leaf":
            pool.setdefault(op[1], []).append(make_leaf(w.leaves[op[1]], datas))
        elif op[0] in ("setattr", "editparam"):
            pool.setdefault(op[2], []).append(make_leaf(w.leaves[op[2]], datas))
    w.keep.append([list(v) for v in pool.values()])
    epochs = [measure_all(probes, datas, views)]
    vals = [stat_vals(w)]
    descs = []
    B.clear_memo()
    vars_, obs = [], []
    w.keep.extend([probes, vars_])

    def run_eval(op):
        """One evaluation (top level or inside a listener): the observable."""
        t = op[0]
        if t in ("eval", "stat", "hist") and op[1] >= len(vars_):
            return "bad"          # the variable is not bound (yet)
        try:
            if t == "eval":
                st, d, v, form = vars_[op[1]], datas[op[2]], B.view_obj(views[op[3]]), op[4]
                if form == "kw":
                    arr = d.get_mask(st, view=v)
                elif form == "pos":
                    arr = st.to_mask(d, v)
                else:
                    arr = st.to_mask(d)
                return B.mask_out(arr)
            if t == "evalcur":
                grp = w.mode.edit_subset[0]
                sub = [s for s in grp.subsets if s.data is datas[op[1]]][0]
                return B.mask_out(sub.to_mask(B.view_obj(views[op[2]])))
            if t == "stat":
                d = datas[op[2]]
                r = d.compute_statistic("sum", d.id[STAT_ATT[w.dkeys[op[2]]]], subset_state=vars_[op[1]])
                r = float(r)
                return "nan" if r != r else (["int", int(r)] if r == int(r) else ["float"])
            if t == "hist":
                d = datas[op[2]]
                nb = op[3]
                r = d.compute_histogram([d.id[STAT_ATT[w.dkeys[op[2]]]]], range=[[-0.5, nb - 0.5]], bins=[nb],
                                        subset_state=vars_[op[1]])
                return ["cnt"] + [int(x) for x in np.asarray(r).ravel()]
            raise KeyError(t)
        except Exception as e:  # noqa
            a_ = B.exc_atom(e)
            # statistics / histograms of a mask that does not fit the data fail in numpy in various ways
            return ["err", a_ if (t in ("eval", "evalcur") or a_ == "incompatible") else "stat-error"]

    lst = Reentrant(w.dc.hub, w, probes, run_eval)
    w.keep.append(lst)
    for op in w.prog:
        t = op[0]
        try:
            if t == "leaf":
                vars_.append(pool[op[1]].pop(0))
                obs.append(None)
            elif t == "bin":
                vars_.append(B.BINOPS[op[1]](vars_[op[2]], vars_[op[3]]))
                obs.append(None)
            elif t == "inv":
                vars_.append(~vars_[op[1]])
                obs.append(None)
            elif t == "mor":
                try:
                    vars_.append(S.MultiOrState([vars_[a] for a in op[1:]]))
                    obs.append(None)
                except ValueError:
                    obs.append("bad")
            elif t == "copy":
                vars_.append(vars_[op[1]].copy())
                obs.append(None)
            elif t == "usecur":
                vars_.append(w.mode.edit_subset[0].subset_state)
                obs.append(None)
            elif t == "child":
                st, i = vars_[op[1]], op[2]
                if isinstance(st, S.MultiOrState):
                    ch = st.states[i] if i < len(st.states) else None
                elif isinstance(st, S.InvertState):
                    ch = st.state1 if i == 0 else None
                elif isinstance(st, S.CompositeSubsetState):
                    ch = st.state1 if i == 0 else (st.state2 if i == 1 else None)
                else:
                    ch = None
                if ch is None:
                    obs.append("bad")
                else:
                    vars_.append(ch)
                    obs.append(None)
            elif t == "edit":
                w.mode.mode = B.MODES[op[1]]
                w.mode.update(w.dc, vars_[op[2]])
                w.keep.append(w.mode.edit_subset[0])
                w.keep.append(w.mode.edit_subset[0].subset_state)
                obs.append(None)
            elif t in ("setattr", "editparam"):
                st = vars_[op[1]]
                kind = B.LEAF_KINDS.get(type(st).__name__)
                spec = w.leaves[op[2]]
                if kind is None or kind != spec[0]:      # refused: the object is of another class
                    pool[op[2]].pop(0)
                    obs.append("bad")
                elif kind not in SETTERS:                 # SubsetState / ParsedSubsetState: nothing to set
                    pool[op[2]].pop(0)
                    obs.append(None)
                else:
                    fresh = pool[op[2]].pop(0)
                    if t == "setattr":
                        apply_setters(st, fresh, kind)
                    else:
                        edit_inplace(st, fresh, kind)
                    obs.append(None)
            elif t == "datamut":        # atomic form (round-1 corpus): no listener evaluates, nothing is traced
                lst.muted = True
                try:
                    do_datamut(w, op[1], op[2])
                finally:
                    lst.muted = False
                epochs.append(measure_all(probes, datas, views))
                vals.append(stat_vals(w))
                obs.append(None)
            elif t == "mutate":
                lst.reset()
                lst.active = True
                try:
                    descs.append(do_mutate(w, op[1], op[2], op[3]))
                finally:
                    lst.active = False
                lst.tick("END")
                for e_, v_ in lst.points:
                    epochs.append(e_)
                    vals.append(v_)
                descs[-1] = [descs[-1], [m for _, m in lst.trace[:-1]]]
                obs.append(["m", ["tr"] + lst.trace, ["ev"] + lst.evals])
            elif t in ("eval", "evalcur", "stat", "hist"):
                obs.append(run_eval(op))
            else:
                raise KeyError(t)
        except IndexError:
            obs.append("bad")
    if lst.outside:
        obs.append(["data-messages-outside-mutations", lst.outside])
    out = [["obs"] + obs, ["memo"] + memo_dump(w)]
    return out, epochs, vals, descs, w


class HistFamily(Family):
    """Shared execution / line protocol of all history families."""
    name = "hist"
    batch = 150
    case_timeout = 20.0
    known_findings_uncounted = True

    def setup(self):
        B.scan_subset_classes()
        B.memo_tables()

    def reset(self):
        B.clear_memo()
        Registry().clear()
        self._n = getattr(self, "_n", 0) + 1
        if self._n % 300 == 0:
            gc.collect()

    def run_impl(self, case):
        self._last = None
        gc.disable()
        try:
            out, epochs, vals, descs, w = run_history(case)
            self._last = (epochs, vals, descs)
            self._world = w
            return out
        finally:
            gc.enable()

    def line(self, case, pyout):
        dkeys, views, leaves, prog = case[:4]
        listeners = case[4] if len(case) > 4 else []
        if getattr(self, "_last", None):
            epochs, vals, descs = self._last
        else:
            epochs, vals, descs = [[[] for _ in leaves]], [[None for _ in dkeys]], []
        descs = list(descs)
        ops = []
        for op in prog:
            if op[0] == "mutate":
                d, seen = descs.pop(0) if descs else (NOOP, [])
                ops.append(["mutate", d, ["seen"] + seen])
            else:
                ops.append(list(op))
        c = [["views"] + [B.view_hashable(v) for v in views],
             ["kinds"] + [ls[0] for ls in leaves],
             ["epochs"] + epochs,
             ["vals"] + vals,
             ["ops"] + ops]
        if listeners:
            c.append(["listeners"] + [[m] + [list(e) for e in evs] for m, evs in listeners])
        return sx(["hist", c, pyout])

    def nontrivial(self, case, po):
        ops = [op[0] for op in case[3]]
        return any(o in ("eval", "evalcur", "stat", "hist") for o in ops) and \
            any(o in ("setattr", "editparam", "datamut", "mutate") for o in ops)

    def signature(self, case, pyout, res):
        prog = case[3]
        listeners = case[4] if len(case) > 4 else []
        kinds = {case[2][op[2]][0] for op in prog if op[0] in ("setattr", "editparam")}
        memo = {k in LEAF_MEMO for k in kinds}
        return {"setattr": any(op[0] == "setattr" for op in prog),
                "editparam": any(op[0] == "editparam" for op in prog),
                "parammut": any(op[0] in ("setattr", "editparam") for op in prog),
                "datamut": sorted({op[1] for op in prog if op[0] == "datamut"} |
                                  {op[1] + ("-" + op[3] if op[3] else "") for op in prog if op[0] == "mutate"}),
                "listener": sorted({m for m, evs in listeners if evs}),
                "leafmemo": (True in memo) if len(memo) == 1 else ("none" if not memo else "mixed")}

    def describe(self, case):
        return {"data": case[0], "views": case[1], "leaves": case[2], "prog": case[3],
                "listeners": case[4] if len(case) > 4 else []}

    def shrink(self, case):
        dkeys, views, leaves, prog = case[:4]
        listeners = case[4] if len(case) > 4 else []
        binders = ("leaf", "bin", "inv", "mor", "copy", "usecur", "child")
        var_idx = {"bin": [2, 3], "inv": [1], "copy": [1], "eval": [1], "edit": [2], "child": [1], "setattr": [1],
                   "editparam": [1], "stat": [1], "hist": [1]}
        # listeners first: drop an entry, drop one evaluation
        for i in range(len(listeners)):
            yield [dkeys, views, leaves, prog, listeners[:i] + listeners[i + 1:]]
        for i, (m, evs) in enumerate(listeners):
            for j in range(len(evs)):
                if len(evs) > 1:
                    yield [dkeys, views, leaves, prog, listeners[:i] + [[m, evs[:j] + evs[j + 1:]]] + listeners[i + 1:]]
        for i in range(len(prog) - 1, -1, -1):
            op = prog[i]
            if op[0] in binders:
                var = sum(1 for o in prog[:i] if o[0] in binders)
                okc = [True]

                def renum(o):
                    o2 = list(o)
                    idxs = var_idx.get(o[0], [])
                    if o[0] == "mor":
                        idxs = list(range(1, len(o)))
                    for k in idxs:
                        if o2[k] == var:
                            okc[0] = False
                        elif o2[k] > var:
                            o2[k] -= 1
                    return o2
                new = [renum(o) for o in prog[:i] + prog[i + 1:]]
                newl = [[m, [renum(e) for e in evs]] for m, evs in listeners]
                if okc[0]:
                    yield [dkeys, views, leaves, new, newl]
            elif op[0] in ("datamut", "mutate") and op[1] in ("addLink", "removeLink"):
                continue     # link ops come in pairs
            else:
                yield [dkeys, views, leaves, prog[:i] + prog[i + 1:], listeners]


# ------------------------------------------------------------------------------------------
# generators
# ------------------------------------------------------------------------------------------

# nesting contexts: (tree over placeholders 'L' (the selection that will be mutated) and 'M', path to L's object)
CONTEXTS = [
    ("L", []),
    (["inv", "L"], [0]),
    (["and", "L", "M"], [0]),
    (["or", "M", "L"], [1]),
    (["mor", "L", "M"], [0]),
    (["inv", ["and", "L", "M"]], [0, 0]),
    (["xor", ["inv", "L"], "M"], [0, 0]),
    (["mor", ["and", "L", "M"], "M"], [0, 0]),
    (["or", ["inv", ["and", "M", "L"]], "M"], [0, 0, 1]),
    (["and", ["mor", "L", "M"], "M"], [0, 0]),
    (["inv", ["inv", ["inv", "L"]]], [0, 0, 0]),
]


def MU(kind, di=0, arg=None):
    """A data-side mutation, run phase by phase with the hub listeners of the case attached."""
    if kind == "updateValuesShape":
        kind, arg = "updateValues", "shape"
    elif kind == "updateValues" and arg is None:
        arg = "same"
    return ["mutate", kind, di, arg]


# the message classes a mutation broadcasts in the harness worlds (which listener classes are worth attaching)
MUT_MSGS = {
    ("updateComponents", None): ["numerical"],
    ("updateValues", "same"): ["remove", "compsChanged", "extDerivable", "numerical"],
    ("updateValues", "shape"): ["remove", "compsChanged", "numerical"],
    ("updateValues", "drop"): ["remove", "compsChanged", "add", "numerical"],
    ("updateValues", "dropx"): ["remove", "compsChanged", "numerical"],
    ("updateValues", "add"): ["remove", "add", "compsChanged", "numerical"],
    ("updateValues", "label"): ["compsChanged", "update", "numerical"],
    ("updateValues", "coords"): ["remove", "compsChanged", "add", "numerical"],
    ("updateValues", "shapedrop"): ["remove", "compsChanged", "add", "numerical"],
    ("addComponent", None): ["add", "compsChanged"],
    ("replaceComponent", "x"): ["numerical"],
    ("replaceComponent", "y"): ["numerical"],
    ("removeComponent", "z"): ["remove", "compsChanged"],
    ("removeComponent", "x"): ["remove", "extDerivable", "compsChanged"],
    ("updateId", "z"): ["replaced"],
    ("updateId", "x"): ["replaced"],
    ("setCoords", "new"): ["remove", "compsChanged", "add"],
    ("setCoords", "none"): ["remove", "compsChanged"],
    ("addLink", None): ["extDerivable"],
    ("removeLink", None): ["extDerivable"],
}
# leaves whose current value the mutation changes (kind, variant) on the 1-d dataset A6
LEAVES_ON = {
    "values": [("inequality", 0), ("range", 4), ("floodFill", 0), ("catMultiRange", 0), ("roi2d", 0), ("inequality", 3)],
    "z": [("inequality", 5), ("range", 3), ("roiNd", 2)],
    "x": [("inequality", 0), ("range", 1), ("roi2d", 1), ("inequality", 3)],
    "none": [("inequality", 0), ("range", 4)],
}
REENT_MUTS_A6 = [
    (("updateComponents", None), "values"), (("updateValues", "same"), "values"), (("updateValues", "shape"), "values"),
    (("updateValues", "drop"), "values"), (("updateValues", "drop"), "z"), (("updateValues", "dropx"), "x"),
    (("updateValues", "add"), "values"), (("updateValues", "label"), "values"), (("addComponent", None), "none"),
    (("replaceComponent", "x"), "x"), (("removeComponent", "z"), "z"), (("removeComponent", "x"), "x"),
    (("updateId", "z"), "z"),
    # the same in a world without the derived component (refreshed once before): its removal makes the data
    # collection re-sync the links, i.e. clear the caches once more - which hides a missing / misplaced clear
    (("updateValues", "drop"), "values", "nos"), (("updateValues", "drop"), "z", "nos"), (("updateValues", "dropx"), "x", "nos"),
    (("removeComponent", "z"), "z", "nos"),
]


def build(tree, prog, lv, mv):
    """Append the construction ops of `tree` to prog; returns the variable of the root."""
    def nvars():
        return sum(1 for o in prog if o[0] in ("leaf", "bin", "inv", "mor", "copy", "usecur", "child"))
    if tree == "L":
        return lv
    if tree == "M":
        return mv
    if tree[0] in ("and", "or", "xor"):
        a = build(tree[1], prog, lv, mv)
        b = build(tree[2], prog, lv, mv)
        prog.append(["bin", tree[0], a, b])
        return nvars() - 1
    if tree[0] == "inv":
        a = build(tree[1], prog, lv, mv)
        prog.append(["inv", a])
        return nvars() - 1
    if tree[0] == "mor":
        xs = [build(t, prog, lv, mv) for t in tree[1:]]
        prog.append(["mor"] + xs)
        return nvars() - 1
    raise KeyError(tree)


def kind_specs(dkey):
    """(kind, base variant, [setattr target variants], [in-place target variants]) usable on the dataset."""
    out = []
    nd = NDIM[dkey]
    for kind in ["inequality", "range", "element", "category", "catRoi", "roi2d", "roiNd", "roi3d", "multiRange", "mask",
                 "slice", "pixel", "catRoi2d", "catMultiRange", "floodFill"]:
        if kind in ("category", "catRoi", "catRoi2d", "catMultiRange") and dkey != "A6":
            continue
        base = 0
        fam = inplace_family(kind, base)
        out.append((kind, base, [v for v in SET_TARGETS[kind] if v != base], [v for v in (fam or []) if v != base]))
    # a second representative with another ROI class / data=None
    out.append(("roi2d", 2, [0], [102]))
    out.append(("element", 2, [102], [102]))
    return out


class Mutations(HistFamily):
    """Exhaustive small scope: for every elementary selection class, every nesting context (depth <= 3), every
    mutation kind (setter on the nested object, in-place edit through the original / the nested object,
    update_components, update_values_from_data same / new shape): `eval* ; mutate ; eval*` of length <= 6."""
    name = "mut"
    exhaustive = True
    budget_share = 3.0

    def cases(self, tier, rng):
        # the re-entrant stratum first (a family cut short by its deadline must not lose it)
        yield from self.reentrant(tier)
        dkey = "A6"
        views = [["none"], ["sl", 1, 5, None]]
        contexts = CONTEXTS if tier == "thorough" else CONTEXTS[:9]
        pres = [[], ["root"], ["childpos"], ["root", "childkw"], ["childpos", "root"]] if tier == "thorough" else \
            [["root"], ["childpos"], ["root", "childkw"], []]
        posts = [["root"], ["child", "root"], ["root", "rootv1"]] if tier == "thorough" else [["root"], ["child", "root"]]
        for (kind, base, settgts, inptgts) in kind_specs(dkey):
            muts = []
            if settgts:
                muts.append(("setattr", "T", settgts[0]))
                if len(settgts) > 1 and tier == "thorough":
                    muts.append(("setattr", "T", settgts[-1]))
                muts.append(("setattr", "L", settgts[0]))
            if inptgts:
                muts.append(("editparam", "T", inptgts[0]))
                muts.append(("editparam", "L", inptgts[0]))
            muts += [("datamut", "updateComponents", None), ("datamut", "updateValues", "same"), ("datamut", "updateValues", "shape")]
            for (tree, path), mut, pre, post in itertools.product(contexts, muts, pres, posts):
                leaves = [["base", 0, 0], [kind, base, 0], ["inequality", 3, 0]]
                if mut[0] in ("setattr", "editparam"):
                    leaves.append([kind, mut[2], 0])
                prog = [["leaf", 1], ["leaf", 2]]
                root = build(tree, prog, 0, 1)
                cur = root
                nv = sum(1 for o in prog if o[0] in ("leaf", "bin", "inv", "mor"))
                for i in path:
                    prog.append(["child", cur, i])
                    cur = nv
                    nv += 1
                target = cur

                def ev(what):
                    if what == "root":
                        return ["eval", root, 0, 0, "kw"]
                    if what == "rootv1":
                        return ["eval", root, 0, 1, "kw"]
                    if what == "childpos":
                        return ["eval", target, 0, 0, "pos"]
                    if what == "childkw":
                        return ["eval", target, 0, 0, "kw"]
                    return ["eval", target, 0, 0, "pos"]
                prog += [ev(x) for x in pre]
                if mut[0] == "datamut":
                    prog.append(["mutate", mut[1], 0, mut[2]])
                else:
                    prog.append([mut[0], target if mut[1] == "T" else 0, 3])
                prog += [ev(x) for x in post]
                yield [[dkey], views, leaves, prog]

    def reentrant(self, tier):
        """Re-entrant stratum: mutation kind x message class x which selection the listener evaluates x whether the
        tables were filled before x evaluation schedule after, for leaves whose current value the mutation
        changes, in 4 (6) nesting contexts.  The listener is a real HubListener on the hub of the DataCollection."""
        dkey = "A6"
        views = [["none"], ["sl", 1, 5, None]]
        thorough = tier == "thorough"
        ctxs = [CONTEXTS[i] for i in ((0, 1, 2, 4, 5, 7) if thorough else (0, 1, 2, 4))]
        for (mk, affected, *flags) in REENT_MUTS_A6:
            prelude = [MU("updateValues", 0, "same")] if "nos" in flags else []
            lvs = LEAVES_ON[affected]
            if not thorough:
                lvs = lvs[:3]
            for (kind, var), (tree, path) in itertools.product(lvs, ctxs):
                if not thorough and (kind, var) == lvs[-1] and len(lvs) == 3 and tree not in ("L", CONTEXTS[2][0]):
                    continue      # quick: the third leaf (flood fill: its own cache) on its own and under `and`
                leaves = [["base", 0, 0], [kind, var, 0], ["inequality", 1, 0]]
                base = [["leaf", 1], ["leaf", 2]]
                root = build(tree, base, 0, 1)
                cur = root
                nv = sum(1 for o in base if o[0] in ("leaf", "bin", "inv", "mor"))
                for i in path:
                    base.append(["child", cur, i])
                    cur = nv
                    nv += 1
                target = cur
                sels = {"root": ["eval", root, 0, 0, "kw"], "target": ["eval", target, 0, 0, "pos"],
                        "rootv1": ["eval", root, 0, 1, "kw"], "stat": ["stat", root, 0]}
                lsels = ["root", "target", "stat"] if path else ["root", "stat"]
                base = base + prelude
                for msg in MUT_MSGS[mk]:
                    if prelude and msg not in ("remove", "compsChanged"):
                        continue
                    for lsel in lsels:
                        if lsel == "stat" and not thorough and msg not in ("compsChanged", "numerical"):
                            continue
                        for pre in ([], ["root"]):
                            if not pre and lsel != "root" and not thorough:
                                continue
                            for post in (["root"], ["target", "root", "rootv1"]):
                                if post[0] == "target" and not path and not thorough:
                                    continue
                                prog = list(base) + [sels[x] for x in pre] + [MU(mk[0], 0, mk[1])] + [sels[x] for x in post]
                                yield [[dkey], views, leaves, prog, [[msg, [sels[lsel]]]]]
                # a viewer: redraws on every message it is told about; two mutations in a row
                allm = [[m, [sels["root"]]] for m in MSG_ORDER]
                yield [[dkey], views, leaves, list(base) + [sels["root"], MU(mk[0], 0, mk[1]), sels["root"],
                                                          MU("updateComponents"), sels["target"], sels["root"]], allm]


class EditSubset(HistFamily):
    """The selection is the edit subset's state (`GroupedSubset.to_mask` / `Data.get_mask`): the path for which
    the code clears caches.  All top-level classes x data-side mutations x nestings; 2-d / 3-d data."""
    name = "cur"
    exhaustive = True
    budget_share = 1.5

    def cases(self, tier, rng):
        yield from self.reentrant(tier)
        for dkey in (["A6", "A34"] if tier == "quick" else ["A6", "A34", "A232"]):
            nd = NDIM[dkey]
            views = [["none"], B.VIEWS_BY_NDIM[nd][1]]
            for (kind, base, settgts, inptgts) in kind_specs(dkey):
                if kind == "roi3d" and dkey == "T16":
                    continue
                for (tree, path) in CONTEXTS[:8]:
                    for dm in ("updateComponents", "updateValues", "updateValuesShape"):
                        for second in (None, "replace", "or"):
                            leaves = [["base", 0, 0], [kind, base, 0], ["inequality", 3, 0], ["range", 4, 0]]
                            prog = [["leaf", 1], ["leaf", 2]]
                            root = build(tree, prog, 0, 1)
                            prog += [["edit", "replace", root], ["evalcur", 0, 0], ["evalcur", 0, 1], MU(dm), ["evalcur", 0, 0]]
                            if second:
                                prog += [["leaf", 3], ["edit", second, sum(1 for o in prog if o[0] in ("leaf", "bin", "inv", "mor")) - 1],
                                         ["evalcur", 0, 0], MU("updateComponents"), ["evalcur", 0, 0], ["evalcur", 0, 1]]
                            prog += [["eval", root, 0, 0, "kw"], ["hist", root, 0, 8]]
                            if not (tree == "L" and kind in ("slice", "pixel")):    # compute_statistic bypasses to_mask there
                                prog.append(["stat", root, 0])
                            yield [[dkey], views, leaves, prog]

    def reentrant(self, tier):
        """Re-entrant stratum on the edit-subset path (what a viewer does: `subset.to_mask()` in its handler):
        mutation kind x message class x listener evaluation (mask / statistic of the edit subset) x nesting, on
        1-d and 2-d data (world coordinates: the `coords` setter, refreshes that change the coordinates)."""
        thorough = tier == "thorough"
        worlds = [("A6", REENT_MUTS_A6),
                  ("A34", [(("updateValues", "same"), "values"), (("updateValues", "shape"), "values"),
                           (("updateValues", "coords"), "world"), (("updateValues", "shapedrop"), "values"),
                           (("setCoords", "new"), "world"), (("setCoords", "none"), "world"),
                           (("updateComponents", None), "values"), (("removeComponent", "z"), "z")])]
        for dkey, muts in worlds:
            nd = NDIM[dkey]
            views = [["none"], B.VIEWS_BY_NDIM[nd][1]]
            for (mk, affected, *flags) in muts:
                prelude = [MU("updateValues", 0, "same")] if "nos" in flags else []
                if affected == "world":
                    lvs = [("range", 5)]
                elif dkey == "A34":
                    lvs = [("inequality", 5), ("range", 3)] if affected == "z" else [("inequality", 0), ("range", 4), ("floodFill", 0)]
                else:
                    lvs = LEAVES_ON[affected][:2] + ([("floodFill", 0)] if affected == "values" else [])
                for (kind, var), (tree, path) in itertools.product(lvs, [CONTEXTS[i] for i in ((0, 1, 3, 5) if thorough else (0, 1, 3))]):
                    leaves = [["base", 0, 0], [kind, var, 0], ["inequality", 1, 0], ["range", 4, 0]]
                    base = [["leaf", 1], ["leaf", 2]]
                    root = build(tree, base, 0, 1)
                    base += [["edit", "replace", root]] + prelude
                    post = [["evalcur", 0, 0], ["evalcur", 0, 1], ["eval", root, 0, 0, "kw"], ["hist", root, 0, 8]]
                    if not (tree == "L" and kind in ("slice", "pixel")):
                        post.append(["stat", root, 0])
                    for msg in MUT_MSGS[mk]:
                        if prelude and msg not in ("remove", "compsChanged"):
                            continue
                        for lev in (["evalcur", 0, 0], ["stat", root, 0], ["evalcur", 0, 1]):
                            if lev[0] != "evalcur" and not thorough and msg not in ("compsChanged", "numerical"):
                                continue
                            if lev == ["evalcur", 0, 1] and not thorough:
                                continue
                            for pre in ([], [["evalcur", 0, 0]]):
                                yield [[dkey], views, leaves, list(base) + pre + [MU(mk[0], 0, mk[1])] + post, [[msg, [lev]]]]
                    # a second edit mode and a second mutation with the listener still attached
                    allm = [[m, [["evalcur", 0, 0]]] for m in MSG_ORDER]
                    nvar = sum(1 for o in base if o[0] in ("leaf", "bin", "inv", "mor"))
                    yield [[dkey], views, leaves, list(base) + [["evalcur", 0, 0], MU(mk[0], 0, mk[1]), ["evalcur", 0, 0], ["leaf", 3],
                                                              ["edit", "or", nvar], ["evalcur", 0, 0], MU("updateValues", 0, "same"),
                                                              ["evalcur", 0, 0]] + post, allm]


class Links(HistFamily):
    """Selections on attributes of one dataset evaluated on a linked dataset; links added / removed / replaced."""
    name = "link"
    exhaustive = True
    budget_share = 0.7

    def cases(self, tier, rng):
        views = [["none"], ["sl", 1, 3, None]]
        for lk in (["range", 4, 0], ["inequality", 1, 0], ["multiRange", 0, 0], ["roi2d", 0, 0], ["catMultiRange", 0, 0]):
            for (tree, path) in CONTEXTS[:8]:
                for sched in range(4):
                    leaves = [["base", 0, 0], lk, ["element", 2, 1], ["inequality", 3, 0]]
                    prog = [["leaf", 1], ["leaf", 2]]
                    root = build(tree, prog, 0, 1)
                    e1 = [["eval", root, 1, 0, "kw"]]
                    e2 = [["eval", root, 1, 0, "kw"], ["eval", root, 0, 0, "kw"], ["eval", root, 1, 1, "kw"], ["stat", root, 1]]
                    AL, RL = MU("addLink"), MU("removeLink")
                    if sched == 0:
                        prog += [AL] + e2 + [RL] + e2
                    elif sched == 1:
                        prog += e1 + [AL] + e2 + [MU("updateComponents", 0)] + e2 + [RL] + e1
                    elif sched == 2:
                        prog += [AL] + e1 + [MU("updateComponents", 1)] + e2 + [RL, AL] + e2
                    else:
                        prog += [["edit", "replace", root], AL, ["evalcur", 1, 0], RL, ["evalcur", 1, 0], ["evalcur", 0, 0]]
                    yield [["A6", "B4"], views, leaves, prog]
                    # re-entrant: the link manager updates the datasets one after the other, each with its own
                    # message - a listener evaluates on either dataset when either is announced
                    if sched in (0, 2) or tier == "thorough":
                        for lev in (["eval", root, 1, 0, "kw"], ["eval", root, 0, 0, "kw"], ["stat", root, 1]):
                            for msg in ("extDerivable", "numerical"):
                                if msg == "numerical" and sched == 0:
                                    continue
                                yield [["A6", "B4"], views, leaves, prog, [[msg, [lev]]]]
            # component removals / refreshes while linked (the link manager and the data collection react
            # re-entrantly to the messages of the removal)
            for (tree, path) in (CONTEXTS[:4] if lk[0] in ("range", "inequality") or tier == "thorough" else []):
                leaves = [["base", 0, 0], lk, ["element", 2, 1], ["inequality", 3, 0]]
                base = [["leaf", 1], ["leaf", 2]]
                root = build(tree, base, 0, 1)
                e2 = [["eval", root, 1, 0, "kw"], ["eval", root, 0, 0, "kw"], ["stat", root, 1]]
                for mk in (("removeComponent", "z"), ("removeComponent", "x"), ("updateValues", "same"), ("updateValues", "drop"),
                           ("updateId", "z"), ("addComponent", None)):
                    for msg in MUT_MSGS[mk]:
                        for lev in (["eval", root, 1, 0, "kw"], ["eval", root, 0, 0, "kw"]):
                            prog = list(base) + [MU("addLink")] + e2[:1] + [MU(mk[0], 0, mk[1])] + e2 + [MU("removeLink")] + e2[:2]
                            yield [["A6", "B4"], views, leaves, prog, [[msg, [lev]]]]


class Shadow:
    """The generator's picture of the object graph (which variable is which object, what every elementary
    object can currently be edited into)."""

    def __init__(self):
        self.objs = []      # ('leaf', kind, var, paramid, di) | ('comp', [children]) | ('mor', listid)
        self.lists = []
        self.vars = []
        self.cur = None
        self.nparam = 0

    def new(self, o):
        self.objs.append(o)
        return len(self.objs) - 1

    def leaf(self, kind, var, di):
        self.nparam += 1
        return self.new(["leaf", kind, var, self.nparam, di])

    def copy(self, i):
        o = self.objs[i]
        if o[0] == "leaf":
            return self.new(list(o))      # parameter identity is irrelevant for the generator
        if o[0] == "comp":
            return self.new(["comp", [self.copy(c) for c in o[1]]])
        if o[0] == "mor":
            return self.new(["mor", o[1]])
        return self.new(list(o))

    def children(self, i):
        o = self.objs[i]
        if o[0] == "comp":
            return o[1]
        if o[0] == "mor":
            return self.lists[o[1]]
        return []


def random_history(rng, tier):
    dk = rng.choice([["A6"], ["A6"], ["A34"], ["A232"], ["A6", "B4"]])
    nd = NDIM[dk[0]]
    pool = [v for v in B.VIEWS_BY_NDIM[nd] if B.view_hashable(v) or rng.random() < 0.3]
    views = [["none"]] + rng.sample(pool[1:], rng.randint(1, 2))
    ks = kind_specs(dk[0])
    allow_shape = rng.random() < 0.4
    if allow_shape:
        ks = [k for k in ks if k[0] not in OLD_SHAPE_KINDS]
    leaves = [["base", 0, 0]]
    leaf_index = {}

    def content(kind, var, di):
        key = (kind, var, di)
        if key not in leaf_index:
            leaves.append([kind, var, di])
            leaf_index[key] = len(leaves) - 1
        return leaf_index[key]

    sh = Shadow()
    prog = []
    sh.cur = sh.new(["leaf", "base", 0, 0, 0])
    linked = [False]

    def bind(op, obj):
        prog.append(op)
        sh.vars.append(obj)

    def new_leaf():
        kind, base, _, _ = rng.choice(ks)
        var = rng.choice(set_targets(kind, base)) if rng.random() < 0.4 else base
        bind(["leaf", content(kind, var, 0)], sh.leaf(kind, var, 0))

    for _ in range(rng.randint(2, 3)):
        new_leaf()
    shape_changed = False
    n_ops = rng.randint(5, 16 if tier == "quick" else 28)
    evald = []
    for _ in range(n_ops):
        r = rng.random()
        nv = len(sh.vars)
        a = rng.randrange(nv)
        if r < 0.06 and not shape_changed:
            new_leaf()
        elif r < 0.20:
            b_ = rng.randrange(nv)
            bind(["bin", rng.choice(["and", "or", "xor"]), a, b_], sh.new(["comp", [sh.copy(sh.vars[a]), sh.copy(sh.vars[b_])]]))
        elif r < 0.26:
            bind(["inv", a], sh.new(["comp", [sh.copy(sh.vars[a])]]))
        elif r < 0.32:
            xs = [rng.randrange(nv) for _ in range(rng.randint(1, 3))]
            sh.lists.append([sh.vars[x] for x in xs])
            bind(["mor"] + xs, sh.new(["mor", len(sh.lists) - 1]))
        elif r < 0.36:
            bind(["copy", a], sh.copy(sh.vars[a]))
        elif r < 0.44:
            ch = sh.children(sh.vars[a])
            if ch:
                i = rng.randrange(len(ch))
                bind(["child", a, i], ch[i])
        elif r < 0.50:
            mode = rng.choice(list(B.MODES))
            prog.append(["edit", mode, a])
            x = sh.vars[a]
            if mode in ("replace", "new"):
                sh.cur = sh.copy(x)
            elif mode == "andNot":
                sh.cur = sh.new(["comp", [sh.copy(sh.cur), sh.copy(sh.new(["comp", [sh.copy(x)]]))]])
            else:
                sh.cur = sh.new(["comp", [sh.copy(x), sh.copy(sh.cur)]])
        elif r < 0.53:
            bind(["usecur"], sh.cur)
        elif r < 0.60:
            prog.append(["evalcur", rng.randrange(len(dk)), rng.randrange(len(views))])
        elif r < 0.74:
            # mutate an elementary object
            cands = [i for i, o in enumerate(sh.vars) if sh.objs[o][0] == "leaf" and sh.objs[o][1] in SETTERS]
            if cands:
                a = rng.choice(cands)
                o = sh.objs[sh.vars[a]]
                kind, var = o[1], o[2]
                fam = inplace_family(kind, var)
                if fam and rng.random() < 0.5:
                    tgt = rng.choice(fam)
                    prog.append(["editparam", a, content(kind, tgt, 0)])
                    # every object sharing the parameter object changes too; the generator only needs the family,
                    # which in-place edits preserve
                    o[2] = tgt
                else:
                    tgt = rng.choice(set_targets(kind, var))
                    prog.append(["setattr", a, content(kind, tgt, 0)])
                    o[2] = tgt
        elif r < 0.82:
            if len(dk) == 2 and rng.random() < 0.5:
                if linked[0]:
                    prog.append(MU("removeLink"))
                else:
                    prog.append(MU("addLink"))
                linked[0] = not linked[0]
            else:
                m = rng.choice(["updateComponents", "updateComponents", "updateValues", "updateValuesShape", "structure"])
                if m == "updateValuesShape":
                    if shape_changed or not allow_shape:
                        m = "updateValues"
                    else:
                        shape_changed = True
                if m == "structure":
                    # the component set / coordinates change: refreshes that drop and add components, components
                    # added / replaced / removed / re-labelled, new coordinates (never the statistic attribute)
                    mk = rng.choice([("updateValues", "drop"), ("updateValues", "dropx"), ("updateValues", "add"),
                                     ("updateValues", "label"), ("updateValues", "coords"), ("addComponent", None),
                                     ("replaceComponent", "x"), ("removeComponent", "z"), ("removeComponent", "x"),
                                     ("updateId", "z"), ("updateId", "x"), ("setCoords", "new"), ("setCoords", "none")])
                    prog.append(MU(mk[0], 0, mk[1]))
                else:
                    prog.append(MU(m, rng.randrange(len(dk)) if m == "updateComponents" else 0))
        elif r < 0.87:
            o = sh.objs[sh.vars[a]]
            if not (o[0] == "leaf" and o[1] in ("slice", "pixel")):     # compute_statistic bypasses to_mask for these
                prog.append([rng.choice(["stat", "hist"]), a, rng.randrange(len(dk))])
                if prog[-1][0] == "hist":
                    prog[-1].append(8)
        else:
            if evald and rng.random() < 0.5:
                a = rng.choice(evald)
            evald.append(a)
            form = rng.choice(["kw", "kw", "pos", "bare"])
            v = 0 if form == "bare" else rng.randrange(len(views))
            prog.append(["eval", a, rng.randrange(len(dk)), v, form])
    for a in range(len(sh.vars)):
        if rng.random() < 0.5:
            prog.append(["eval", a, 0, rng.randrange(len(views)), rng.choice(["kw", "pos"])])
    prog.append(["evalcur", 0, 0])
    # hub listeners: 0-3 subscriptions, each evaluating 1-2 selections that exist from the start (the first two
    # variables), the edit subset, or a statistic, on a random message class
    listeners = []
    if rng.random() < 0.7:
        for _ in range(rng.randint(1, 3)):
            evs = []
            for _ in range(rng.randint(1, 2)):
                q = rng.random()
                a = rng.randrange(2)
                if q < 0.4:
                    evs.append(["eval", a, rng.randrange(len(dk)), rng.randrange(len(views)), rng.choice(["kw", "pos"])])
                elif q < 0.8:
                    evs.append(["evalcur", rng.randrange(len(dk)), rng.randrange(len(views))])
                else:
                    o = sh.objs[sh.vars[a]]
                    if not (o[0] == "leaf" and o[1] in ("slice", "pixel")):
                        evs.append(["stat", a, 0])
            if evs:
                listeners.append([rng.choice(MSG_ORDER[:5] + MSG_ORDER[:2]), evs])
    return [list(dk), views, leaves, prog, listeners]


class RandomHistories(HistFamily):
    """Seeded random histories over every class, 1–3-d data, two datasets with links, all op kinds interleaved."""
    name = "rand"
    budget_share = 2.0

    def cases(self, tier, rng):
        for _ in range(2500 if tier == "quick" else 25000):
            yield random_history(rng, tier)


# ------------------------------------------------------------------------------------------
# keyed caches outside @memoize
# ------------------------------------------------------------------------------------------

def canon_ids(keys, resets=None):
    """Key ids for a single-slot cache: request i gets the id of request i-1 iff the code built an equal key and
    the slot was not explicitly reset in between (a reset is observable: the slot is None)."""
    out = []
    for i, k in enumerate(keys):
        same = False
        if i > 0 and not (resets and resets[i]):
            try:
                same = bool(keys[i - 1] == k)
            except Exception:  # noqa
                same = False
        out.append(out[i - 1] if same else i)
    return out


def arr_atom(a):
    a = np.asarray(a)
    if a.dtype == bool:
        return "m" + "x".join(str(s) for s in a.shape) + B.bits_atom(a)
    return "v" + "x".join(str(s) for s in a.shape) + "_" + "_".join(("%d" % x) if float(x) == int(x) else ("%r" % float(x)).replace("-", "m").replace(".", "p")
                                                                     for x in a.ravel())


# ---- exact values and the fine-step ladder (round 2: approximate / lossy cache keys) --------------------

def qnum(x):
    """A double as the exact rational it is (`n` or `(q n d)`, reduced, d a power of two): never text, never rounded."""
    x = float(x)
    if x != x:
        return "nan"
    if x in (float("inf"), float("-inf")):
        return "inf" if x > 0 else "minf"
    n, d = x.as_integer_ratio()
    return n if d == 1 else ["q", n, d]


def exact_value(*tagged):
    """Flat list `tag v v v tag v …` of exact rationals (booleans as 0 / 1): one cached value on the wire."""
    out = []
    for tag, arr in tagged:
        out.append(tag)
        a = np.asarray(arr)
        out.append("s" + "x".join(str(k) for k in a.shape))
        out.extend(qnum(v) for v in a.astype(float).ravel())
    return out


MAGS = {"one": 3.0, "e5": 1e5, "jd": 2459000.5, "e9": 1e9, "em6": 1e-6, "njd": -2459000.5, "zero": 0.0,
        "half": 0.5, "e15": 1e15, "none": -3.0}
REL_STEPS = ["ulp", "r1e-12", "r1e-9", "r1e-7", "r1e-5", "r1e-3"]
ABS_STEPS = ["a1e-8", "a1e-12", "a1e-300"]
SEQ_K = [0, 1, 2, 0, -1]      # request k uses `base + k * step`: up, further up (drift), back (exact old key), down


def step_size(v, step):
    """Size of one `step` at the value v: the smallest representable step, a relative size, or an absolute one."""
    v = float(v)
    if step == "ulp":
        return float(abs(np.nextafter(v, np.inf) - v)) if v >= 0 else float(abs(v - np.nextafter(v, -np.inf)))
    if step[0] == "r":
        return abs(v) * float(step[1:])
    return float(step[1:])


def stepped(v, step, k):
    """`v + k * step`, guaranteed to be a different double from v for k != 0."""
    v = float(v)
    if k == 0:
        return v
    w = v + k * step_size(v, step)
    if w == v:
        for _ in range(abs(k)):
            w = float(np.nextafter(w, np.inf if k > 0 else -np.inf))
    return w


def distinct_answers(po):
    """Were the requests of the case distinguishable at all (a stale hit is observable only then)?"""
    try:
        return len({sx(v) for v in po}) > 1
    except Exception:  # noqa
        return False


class FloodFill(Family):
    """`FloodFillSubsetState._mask_cache`: (hash, mask).  Requests after perturbing each input in turn (data
    values through update_components / update_values_from_data, threshold, start_coords, attribute); compared
    with a freshly constructed state; the key is `state._hash` as the code builds it.

    Coarse stratum: all perturbation sequences (O(1) steps, plus *objects*: an attribute with the same label and
    other values, start coordinates that are value-equal but other objects (numpy integers), start coordinates
    with equal hash and different value (`hash(-1) == hash(-2)` in CPython)).
    Fine stratum `['fine', tmag, vmag, step, field]`: the threshold (magnitudes 1 + 1e-6 … 1e9) or one data value
    moved by the step ladder (1 ulp, 1e-12 … 1e-3 relative, absolute 1e-8 …) on data whose pixels sit exactly on
    the bounds `value * threshold_k`, so that every step changes the region."""
    name = "flood"
    exhaustive = True
    budget_share = 0.5
    max_jobs = 2
    batch = 100

    PERTS = ["values", "values2", "threshold", "start", "att", "refresh", "nothing", "copy",
             "att_twin", "start_np", "start_neg"]
    TMAGS = {"one": 1.25, "near1": 1.000001, "two": 2.0, "e5": 1e5, "jd": 2459000.5, "e9": 1e9}
    VMAGS = {"one": 1.0, "three": 3.0, "jd": 2459000.5, "em6": 1e-6, "e9": 1e9}

    def cases(self, tier, rng):
        L = 3 if tier == "quick" else 4
        base = self.PERTS[:8]
        extra = self.PERTS[8:]
        for n in range(1, L + 1):
            for seq in itertools.product(base, repeat=n):
                yield list(seq)
        # the object-identity perturbations: every sequence <= 2 over all perturbations that uses one of them, and
        # length 3 with the new one in the middle
        for n in (1, 2, 3):
            for seq in itertools.product(self.PERTS, repeat=n):
                if not any(p in extra for p in seq):
                    continue
                if "att_twin" in seq and "refresh" in seq:     # update_values_from_data refuses duplicate labels
                    continue
                if n == 3 and (seq[1] not in extra or seq[0] in extra or seq[2] in extra) and tier == "quick":
                    continue
                yield list(seq)
        vm = ["one", "jd"] if tier == "quick" else list(self.VMAGS)
        for tmag in self.TMAGS:
            for vmag in vm:
                for step in REL_STEPS + (ABS_STEPS[:2] if tmag in ("one", "near1") else []):
                    for field in ("threshold", "value"):
                        if field == "value" and tmag not in ("one", "jd") and tier == "quick":
                            continue
                        yield ["fine", tmag, vmag, step, field]

    def reset(self):
        B.clear_memo()
        Registry().clear()

    def run_fine(self, case):
        _, tmag, vmag, step, field = case
        t0, v = self.TMAGS[tmag], self.VMAGS[vmag]
        if field == "threshold":
            ts = [stepped(t0, step, k) for k in SEQ_K]
            bounds = sorted({v * t for t in ts})              # the products the code forms (`value * threshold`)
            us = [None] * len(SEQ_K)
        else:
            ts = [t0] * len(SEQ_K)
            b0 = v * t0
            us = [stepped(b0, step, k - 1) for k in SEQ_K]    # one pixel moved across the bound `value * threshold`
            bounds = [b0]
        far = abs(v) * max(ts) * 4 + 1
        # row 0: the start pixel, then pixels sitting exactly on every bound (ascending: the region is a prefix)
        chain = [v] + ([us[0]] if us[0] is not None else []) + bounds + [far]
        x0 = np.array([chain, [far] * len(chain)], dtype=float)
        d = Data(x=x0.copy(), label="F")
        sub = d.new_subset()
        st = S.FloodFillSubsetState(d, d.id["x"], (0, 0), ts[0])
        sub.subset_state = st
        self._keep = [d, sub, st]
        keys, outs, fresh = [], [], []
        for k in range(len(SEQ_K)):
            cur = sub.subset_state
            if k > 0:
                if field == "threshold":
                    cur.threshold = ts[k]
                else:
                    x1 = np.array(d["x"], dtype=float)
                    x1[0, 1] = us[k]
                    d.update_components({d.id["x"]: x1})
            outs.append(exact_value(("m", sub.to_mask())))
            keys.append(cur._mask_cache[0])
            f = S.FloodFillSubsetState(cur.data, cur.att, cur.start_coords, cur.threshold)
            fresh.append(exact_value(("m", f.to_mask(d))))
            self._keep.append(f)
        self._last = (canon_ids(keys), fresh)
        return outs

    def run_impl(self, case):
        if case and case[0] == "fine":
            return self.run_fine(case)
        x0 = np.array([[1.0, 1, 5], [1, 5, 5], [5, 5, 1]])
        d = Data(x=x0.copy(), y=x0.T.copy() + 1, label="F")
        # a second attribute with the *same label* as x and other values (a key built from labels would merge them)
        xid = d.main_components[0]
        twin = d.add_component(np.array([[1.0, 5, 5], [5, 5, 5], [5, 1, 1]]), label="x") if "att_twin" in case else None
        sub = d.new_subset()
        st = S.FloodFillSubsetState(d, xid, (0, 0), 1.2)
        sub.subset_state = st
        self._keep = [d, sub, st, twin]
        keys, outs, fresh = [], [], []
        vals = [np.array([[1.0, 5, 5], [5, 5, 5], [5, 5, 1]]), np.array([[1.0, 1, 1], [1, 1, 5], [5, 5, 1]])]

        def request():
            cur = sub.subset_state
            outs.append(arr_atom(sub.to_mask()))
            keys.append(cur._mask_cache[0])
            f = S.FloodFillSubsetState(cur.data, cur.att, cur.start_coords, cur.threshold)
            fresh.append(arr_atom(f.to_mask(d)))
            self._keep.append(f)
        request()
        for k, p in enumerate(case):
            cur = sub.subset_state
            if p == "values":
                d.update_components({xid: vals[0] if not np.array_equal(d[xid], vals[0]) else x0})
            elif p == "values2":
                d.update_components({d.id["y"]: d["y"] + 1})
            elif p == "threshold":
                cur.threshold = 5.5 if cur.threshold != 5.5 else 1.2
            elif p == "start":
                cur.start_coords = (2, 2) if tuple(cur.start_coords) != (2, 2) else (0, 0)
            elif p == "att":
                cur.att = d.id["y"] if cur.att is not d.id["y"] else xid
            elif p == "att_twin":
                cur.att = twin if cur.att is not twin else xid
            elif p == "start_np":     # value-equal, other objects / types
                cur.start_coords = tuple(np.int64(c) if not isinstance(c, np.integer) else int(c) for c in cur.start_coords)
            elif p == "start_neg":    # hash((-1, -1)) == hash((-2, -2)): pixels (2, 2) and (1, 1)
                cur.start_coords = (-2, -2) if tuple(cur.start_coords) == (-1, -1) else (-1, -1)
            elif p == "refresh":
                o = Data(x=vals[1] if not np.array_equal(d[xid], vals[1]) else x0, y=np.asarray(d["y"]).copy(), label="F")
                self._keep.append(o)
                d.update_values_from_data(o)
            elif p == "copy":
                sub.subset_state = cur.copy()
            request()
        self._last = (canon_ids(keys), fresh)
        return outs

    def line(self, case, pyout):
        n = len(SEQ_K) if case and case[0] == "fine" else len(case) + 1
        ids, fresh = self._last if getattr(self, "_last", None) else ([0] * n, ["x"] * n)
        return sx(["slot", [ids, fresh], pyout])

    def nontrivial(self, case, po):
        return distinct_answers(po) if case and case[0] == "fine" else True

    def signature(self, case, pyout, res):
        if case and case[0] == "fine":
            return {"cache": "floodfill", "fine": case[4], "step": case[3]}
        return {"cache": "floodfill", "perts": sorted(set(case))}

    def shrink(self, case):
        if case and case[0] == "fine":
            return
        for i in range(len(case)):
            yield case[:i] + case[i + 1:]


class HistogramLayer(Family):
    """`HistogramLayerState._histogram_cache` inside a real histogram viewer state with a layer artist on Agg
    axes attached to the hub (the artist resets the layer cache on data / subset messages).  Every input
    perturbed in turn; compared with a freshly constructed layer state; the key is the one stored in the cache.
    Edges and counts travel as exact rationals (one ulp in one edge is a different answer).

    Coarse stratum: all perturbation sequences with O(1) steps, plus *objects*: an attribute with the same label
    and other values, limits / bin numbers that are value-equal but of another type (numpy scalars), limits with
    equal hash and different value (`hash(-1.0) == hash(-2.0)`), a non-integer bin number (both a fresh state and
    the cache must refuse it).
    Fine stratum `[layer, 'fine', mag, step, win, field, log]`: limits at the magnitudes O(1), 1e5, 2459000.5
    (Julian dates), 1e9, 1e-6, negative, 0, moved by the step ladder (1 ulp, 1e-12 … 1e-3 relative; absolute
    1e-8 … at 0) up, further up, back and down — through `hist_x_min`, `hist_x_max`, both (a pan: the width stays)
    and `x_min / x_max + update_bins_to_view` — in a window that is either a zoom of 16 steps or wide (|M| / 4),
    on data that has a point on every limit used and between any two of them: each step changes edges *and*
    counts."""
    name = "hlayer"
    exhaustive = True
    budget_share = 1.2
    max_jobs = 4
    batch = 40

    PERTS = ["x_att", "x_log", "hist_x_min", "hist_x_max", "hist_n_bin", "values", "subset_state", "subset_edit",
             "nothing", "normalize", "x_att_twin", "retype", "hash_min", "n_bin_frac"]

    def cases(self, tier, rng):
        # the fine-step stratum first: when the family is cut short by its deadline (a loaded machine, the thorough
        # generators inside the quick budget after a change of the transcribed code) it is the part that matters most
        yield from self.fine_cases(tier)
        L = 2 if tier == "quick" else 3
        old, extra = self.PERTS[:10], self.PERTS[10:]
        for layer in ("data", "subset"):
            for n in range(1, L + 1):
                for seq in itertools.product(self.PERTS, repeat=n):
                    if layer == "data" and any(p.startswith("subset") for p in seq):
                        continue
                    if n == 3 and any(p in extra for p in (seq[0], seq[2])):
                        continue      # length 3: the object perturbations only in the middle
                    yield [layer] + list(seq)

    def fine_cases(self, tier):
        thorough = tier == "thorough"
        mags = ["one", "e5", "jd", "e9", "em6", "njd"] + (["half", "e15", "none"] if thorough else [])
        for mag in mags + ["zero"]:
            steps = REL_STEPS if mag != "zero" else ABS_STEPS
            for step in steps:
                for win in ("zoom", "wide"):
                    for field in ("min", "max", "both", "view"):
                        yield ["data", "fine", mag, step, win, field, False]
                        if (mag in ("jd", "one") and win == "zoom" and field in ("max", "view")) or thorough:
                            yield ["subset", "fine", mag, step, win, field, False]
                        if MAGS[mag] > 0 and field in ("min", "max") and (thorough or (mag in ("jd", "one") and win == "zoom")):
                            yield ["data", "fine", mag, step, win, field, True]

    def reset(self):
        B.clear_memo()
        Registry().clear()

    # -- the part shared by both strata: a real viewer state + layer artist on Agg axes, subscribed to the hub

    def world(self, xvals, layer_kind, cut, twin=False):
        from glue.viewers.histogram.state import HistogramViewerState
        from glue.viewers.histogram.layer_artist import HistogramLayerArtist
        from glue.core.message import NumericalDataChangedMessage, SubsetUpdateMessage
        from glue.core.hub import HubListener
        import matplotlib
        matplotlib.use("Agg")
        from matplotlib.figure import Figure
        xvals = np.asarray(xvals, dtype=float)
        d = Data(x=xvals, y=np.array(([2.0, 2, 3, 5, 5, 7] * len(xvals))[:len(xvals)]), label="H")
        xid = d.main_components[0]
        tw = d.add_component(np.roll(xvals, 1) + 1, label="x") if twin else None
        dc = DataCollection([d])
        sub = dc.new_subset_group(subset_state=xid > cut).subsets[0]
        layer = d if layer_kind == "data" else sub
        vs = HistogramViewerState()
        fig = Figure()
        ax = fig.add_subplot(1, 1, 1)
        art = HistogramLayerArtist(ax, vs, layer=layer)
        ls = art.state
        vs.layers.append(ls)
        vs.x_att = xid

        class L(HubListener):
            """What the viewer does: on data / subset changes the layer artist is updated."""

            def __init__(self, hub):
                hub.subscribe(self, NumericalDataChangedMessage, handler=lambda m: art.update())
                hub.subscribe(self, SubsetUpdateMessage, handler=lambda m: art.update())
        lst = L(dc.hub)
        self._keep = [d, dc, sub, vs, fig, art, lst, tw]
        return d, xid, tw, sub, layer, vs, ls

    def requester(self, layer, vs, ls):
        from glue.viewers.histogram.state import HistogramLayerState
        keys, outs, fresh, resets = [], [], [], []

        def cached_level(state):
            """What the cache holds (edges, unscaled counts), exactly; `histogram` scales it afterwards on every call."""
            try:
                state.histogram          # the public entry point (fills / reuses the cache)
                e, h = state._histogram_cache[1]
                return exact_value(("e", e), ("h", h))
            except Exception as ex:  # noqa
                return ["exc-" + type(ex).__name__]

        prev = [None]

        def request():
            # the slot was refilled since the last request (reset by the layer artist, or a new key)
            resets.append(ls._histogram_cache is not prev[0])
            outs.append(cached_level(ls))
            prev[0] = ls._histogram_cache
            if outs[-1][0].startswith("exc-"):
                keys.append(object())    # the code refused the request before storing anything: a key of its own
            else:
                keys.append(ls._histogram_cache[0] if ls._histogram_cache is not None else None)
            f = HistogramLayerState(layer=layer, viewer_state=vs)
            fresh.append(cached_level(f))
        return request, keys, outs, fresh, resets

    def run_fine(self, case):
        from echo import delay_callback
        layer_kind, _, mag, step, win, field, log = case
        M = MAGS[mag]
        s0 = step_size(M, step)
        W = 16 * s0 if win == "zoom" else (abs(M) / 4 if M != 0 else 1.0)
        lo0, hi0 = M, M + W
        los = [stepped(lo0, step, k) if field in ("min", "both") else lo0 for k in SEQ_K]
        his = [stepped(hi0, step, k) if field in ("max", "view") else hi0 for k in SEQ_K]
        if field == "both":      # a pan: both limits shifted by the same amount, set together (the width stays)
            his = [hi0 + (l - lo0) if hi0 + (l - lo0) != hi0 or l == lo0 else stepped(hi0, step, k) for l, k in zip(los, SEQ_K)]
        # data: a point on every limit that is used, between any two neighbouring ones, inside and outside
        marks = sorted(set(los + his))
        pts = set(marks)
        for a_, b_ in zip(marks[:-1], marks[1:]):
            pts.add(a_ + (b_ - a_) / 2)
        for fr in (1 / 3, 1 / 2, 15 / 16):
            pts.add(lo0 + W * fr)
        pts.add(marks[0] - (marks[1] - marks[0]))
        pts.add(marks[-1] + (marks[-1] - marks[-2]))
        d, xid, tw, sub, layer, vs, ls = self.world(sorted(pts), layer_kind, lo0 + W / 4)
        if log:
            vs.x_log = True
        vs.hist_x_min, vs.hist_x_max, vs.hist_n_bin = los[0], his[0], 8
        request, keys, outs, fresh, resets = self.requester(layer, vs, ls)
        request()
        for k in range(1, len(SEQ_K)):
            if field == "view":
                vs.x_min, vs.x_max = los[k], his[k]
                vs.update_bins_to_view()
            elif field == "both":
                with delay_callback(vs, "hist_x_min", "hist_x_max"):
                    vs.hist_x_min, vs.hist_x_max = los[k], his[k]
            elif field == "min":
                vs.hist_x_min = los[k]
            else:
                vs.hist_x_max = his[k]
            request()
        self._last = (canon_ids(keys, resets), fresh)
        return outs

    def run_impl(self, case):
        if len(case) > 1 and case[1] == "fine":
            return self.run_fine(case)
        d, xid, tw, sub, layer, vs, ls = self.world([1.0, 2, 2, 3, 4, 6, -1.5], case[0], 1.5, twin="x_att_twin" in case)
        vs.hist_x_min, vs.hist_x_max, vs.hist_n_bin = 0.5, 8.5, 8
        request, keys, outs, fresh, resets = self.requester(layer, vs, ls)
        request()
        for p in case[1:]:
            if p == "x_att":
                vs.x_att = d.id["y"] if vs.x_att is not d.id["y"] else xid
                vs.hist_x_min, vs.hist_x_max, vs.hist_n_bin = 0.5, 8.5, 8
            elif p == "x_att_twin":      # another attribute with the same label (and the same limits / bins)
                vs.x_att = tw if vs.x_att is not tw else xid
                vs.hist_x_min, vs.hist_x_max, vs.hist_n_bin = 0.5, 8.5, 8
            elif p == "x_log":
                vs.x_log = not vs.x_log
                vs.hist_x_min, vs.hist_x_max = 0.5, 8.5
            elif p == "hist_x_min":
                vs.hist_x_min = 1.5 if vs.hist_x_min != 1.5 else 0.5
            elif p == "hist_x_max":
                vs.hist_x_max = 6.5 if vs.hist_x_max != 6.5 else 8.5
            elif p == "hash_min":        # hash(-1.0) == hash(-2.0) in CPython
                vs.hist_x_min = -2.0 if vs.hist_x_min == -1.0 else -1.0
            elif p == "hist_n_bin":
                vs.hist_n_bin = 4 if vs.hist_n_bin != 4 else 8
            elif p == "n_bin_frac":      # not an integer: a fresh state refuses it, so must this one
                vs.hist_n_bin = 8.5 if vs.hist_n_bin != 8.5 else 8
            elif p == "retype":          # value-equal, other objects / types
                if isinstance(vs.hist_x_max, np.floating):
                    vs.hist_x_min, vs.hist_x_max = float(vs.hist_x_min), float(vs.hist_x_max)
                else:
                    vs.hist_x_min, vs.hist_x_max = np.float64(vs.hist_x_min), np.float64(vs.hist_x_max)
                if vs.hist_n_bin == int(vs.hist_n_bin):
                    vs.hist_n_bin = int(vs.hist_n_bin) if isinstance(vs.hist_n_bin, np.integer) else np.int64(vs.hist_n_bin)
            elif p == "values":
                d.update_components({xid: np.roll(d[xid], 1) + (1 if d[xid][0] < 5 else -1)})
            elif p == "subset_state":
                sub.subset_state = (xid > 2.5) if "2.5" not in str(sub.subset_state) else (xid > 1.5)
            elif p == "subset_edit":
                st = sub.subset_state
                st.right = 3.5 if st.right != 3.5 else 1.5
                sub.subset_state = st      # glue's own tools re-assign the state to broadcast the update
            elif p == "normalize":
                vs.normalize = not vs.normalize
            request()
        self._last = (canon_ids(keys, resets), fresh)
        return outs

    def line(self, case, pyout):
        n = len(SEQ_K) if len(case) > 1 and case[1] == "fine" else len(case)
        ids, fresh = self._last if getattr(self, "_last", None) else ([0] * n, [["x"]] * n)
        return sx(["slot", [ids, fresh], pyout])

    def nontrivial(self, case, po):
        return distinct_answers(po) if len(case) > 1 and case[1] == "fine" else True

    def signature(self, case, pyout, res):
        if len(case) > 1 and case[1] == "fine":
            return {"cache": "histogram-layer", "fine": case[5], "step": case[3]}
        return {"cache": "histogram-layer", "perts": sorted(set(case[1:]))}

    def shrink(self, case):
        if len(case) > 1 and case[1] == "fine":
            return
        for i in range(1, len(case)):
            yield case[:i] + case[i + 1:]


class AttributeHelpers(Family):
    """`StateAttributeLimitsHelper` / `StateAttributeHistogramHelper` of a real `HistogramViewerState`: a dictionary
    keyed by the attribute.  Steps: switch the attribute (also to one with the *same label* and other values),
    change the values of an attribute; after every step the limits / bins are compared — exactly — with those of
    a freshly constructed viewer state on the same attribute.

    Fine stratum `['pct', p0, step, sched]`: a `StateAttributeLimitsHelper` with its `percentile` / `log` modifiers
    (on a plain `State`, as glue's own tests drive it; the viewers' percentile is a fixed choice list).  The
    percentile is moved by the step ladder (1 ulp, 1e-12 … 1e-3 relative, absolute 1e-8) around 99.5, 95, 50, 3
    and 1e-6, with attribute switches (the dictionary restores percentile, log *and* limits of the attribute)
    and log toggles in between; the limits must be those a fresh helper computes for the *current* (attribute,
    percentile, log) — data with a wide dynamic range, so that every step moves the interpolated limits."""
    name = "helper"
    exhaustive = True
    known_findings_uncounted = True     # the listed finding must not crowd out other failures of this family
    budget_share = 0.6
    max_jobs = 2
    batch = 60

    STEPS = ["x", "y", "z", "t", "vx", "vy", "vz"]
    PCTS = {"p995": 99.5, "p95": 95.0, "p50": 50.0, "p3": 3.0, "pem6": 1e-6}
    SCHEDS = ["plain", "switch", "log"]

    def cases(self, tier, rng):
        L = 3 if tier == "quick" else 4
        for n in range(1, L + 1):
            for seq in itertools.product(self.STEPS, repeat=n):
                if n == 4 and "t" in seq:
                    continue
                yield list(seq)
        for p0 in self.PCTS:
            for step in REL_STEPS + ABS_STEPS[:1]:
                for sched in self.SCHEDS:
                    yield ["pct", p0, step, sched]

    def reset(self):
        B.clear_memo()
        Registry().clear()

    def run_pct(self, case):
        from glue.core.state_objects import State, StateAttributeLimitsHelper
        from echo import CallbackProperty
        _, p0, step, sched = case
        ks = np.arange(-12, 13)
        xv = np.sign(ks) * 10.0 ** (np.abs(ks) / 2.0) + 0.125 * ks          # wide dynamic range, both signs
        yv = (ks + 13.0) ** 3 / 7.0                                            # positive (for log), uneven
        d = Data(x=xv, y=yv, label="P")
        comps = [d.id["x"], d.id["y"]]

        class PState(State):
            comp = CallbackProperty()
            lower = CallbackProperty()
            upper = CallbackProperty()
            log = CallbackProperty(False)
            percentile = CallbackProperty(100)

        def mk():
            st = PState()
            h = StateAttributeLimitsHelper(st, attribute="comp", lower="lower", upper="upper",
                                           percentile="percentile", log="log")
            return st, h
        st, h = mk()
        st.comp = comps[0]
        self._keep = [d, st, h]
        keys, outs, fresh, seen = [], [], [], []

        def request():
            cur = (comps.index(st.comp), qnum(st.percentile), bool(st.log))
            if cur not in seen:
                seen.append(cur)
            keys.append(seen.index(cur))     # the exact inputs: attribute, percentile (bit pattern), log
            outs.append(exact_value(("lim", [st.lower, st.upper])))
            f, fh = mk()
            f.comp = st.comp
            f.log = st.log
            f.percentile = st.percentile
            self._keep.append((f, fh))
            fresh.append(exact_value(("lim", [f.lower, f.upper])))
        pv = self.PCTS[p0]
        st.percentile = pv
        request()
        for k in SEQ_K[1:]:
            if sched == "switch":        # leave the attribute and come back: the dictionary restores the entry
                st.comp = comps[1]
                request()
                st.comp = comps[0]
                request()
            elif sched == "log":
                st.comp = comps[1]
                st.log = not st.log
                request()
            st.percentile = min(100.0, stepped(pv, step, k))
            request()
        self._last = (keys, fresh)
        return outs

    def run_impl(self, case):
        if case and case[0] == "pct":
            return self.run_pct(case)
        from glue.viewers.histogram.state import HistogramViewerState, HistogramLayerState
        d = Data(x=np.array([1.0, 2, 2, 3, 4, 6]), y=np.array([2.0, 2, 3, 5, 5, 7]), z=np.array([10.0, 20, 30, 40, 50, 60]), label="H")
        names = ["x", "y", "z", "t"]
        comps = list(d.main_components)
        if "t" in case:      # a fourth attribute with the same label as the first (a key built from labels merges them)
            comps.append(d.add_component(np.array([-3.0, 0, 2, 9, 11, 12]), label="x"))
        dc = DataCollection([d])

        def mk(att):
            vs = HistogramViewerState()
            ls = HistogramLayerState(layer=d, viewer_state=vs)
            vs.layers.append(ls)
            vs.x_att = att
            return vs, ls

        def out(vs):
            return exact_value(("lim", [vs.x_min, vs.x_max, vs.hist_x_min, vs.hist_x_max, vs.hist_n_bin]))
        vs, ls = mk(comps[0])
        self._keep = [d, dc, vs, ls]
        keys, outs, fresh = [], [], []

        def request():
            cur = vs.x_att
            # the key the helpers use is the component id itself
            assert cur in vs.x_lim_helper._cache and cur in vs.hist_helper._cache
            keys.append([c is cur for c in comps].index(True))
            outs.append(out(vs))
            f, fl = mk(cur)
            self._keep.append((f, fl))
            fresh.append(out(f))
        request()
        for p in case:
            if p in names:
                vs.x_att = comps[names.index(p)]
            else:
                c = comps[names.index(p[1])]
                d.update_components({c: np.asarray(d[c]) * 2 + 1})
            request()
        self._last = (keys, fresh)
        return outs

    def line(self, case, pyout):
        ids, fresh = self._last if getattr(self, "_last", None) else ([0], [["x"]])
        return sx(["dict", [ids, fresh], pyout])

    def nontrivial(self, case, po):
        return distinct_answers(po) if case and case[0] == "pct" else True

    def signature(self, case, pyout, res):
        if case and case[0] == "pct":
            return {"cache": "attribute-helper", "fine": "percentile", "step": case[2]}
        return {"cache": "attribute-helper", "values": any(p.startswith("v") for p in case)}

    def shrink(self, case):
        if case and case[0] == "pct":
            return
        for i in range(len(case)):
            yield case[:i] + case[i + 1:]


THEOREMS = ["C05.spec_always_fresh", "C05.fresh_iff_no_stale", "C05.fresh_of_cleanBelow", "C05.impl_fresh_partial",
            "C05.impl_fresh_unseen", "C05.impl_fresh_reentrant", "C05.repaired_scripts_sound", "C05.delay_block_sound",
            "C05.impl_fresh_repaired", "C05.impl_fresh_repaired_atomic", "C05.compute_statistic_fresh", "C05.keyed_cache_sound",
            "C05.keyed_cache_stale", "C05.keyed_cache_approx_key_unsound", "C05.keyed_cache_lossy_key_unsound",
            "C05.keyed_cache_sound_iff", "C05.slotRun_eq_slotRunRel", "C05.allclose_key_stale", "C05.repairedPolicy_clearsAll", "C05.pinnedPolicy_not_clearsAll",
            "C05.stale_child_after_update_components", "C05.stale_old_shape_after_update_values",
            "C05.stale_after_link_removed", "C05.stale_inequality_after_setter", "C05.stale_composite_after_param_edit",
            "C05.stale_roi_moved_under_composite", "C05.stale_multiOr_copy_after_edit",
            "C05.clear_before_swap_unsound", "C05.message_between_swap_and_clear_unsound", "C05.remove_without_clear_stale",
            "C05.clear_after_delay_block_unsound"]

PROP = Property(
    id="C05",
    title="Results always reflect the current data, regions and links - never a stale cache",
    theorems=THEOREMS,
    families=[Mutations(), EditSubset(), Links(), RandomHistories(), FloodFill(), HistogramLayer(), AttributeHelpers()],
    trusted_base=["CPython dict keys (hash + ==) of the memo tables; elementary masks are measured on fresh copies of "
                  "never-evaluated probe objects in every epoch (their internals belong to C04/C08/C09/C11); numpy Boolean operators"],
    assumptions=["one subset group (one grouped subset per dataset); no key joins; list mutation of MultiOrState.states and "
                 "re-binding state1/state2 of composites are not generated"],
    rule="exhaustive: every elementary selection class x 9/11 nesting contexts (depth <= 3) x mutation kinds x evaluation "
         "schedules `eval* ; mutate ; eval*` (<= 6); the edit-subset path for all data-side mutations on 1-3-d data; link "
         "add/remove schedules; all perturbation sequences (<= 3/4) of the flood-fill and histogram-layer caches; seeded random "
         "histories beyond; non-trivial = the history evaluates something and mutates something; "
         "re-entrant evaluation: every data-side mutation (update_components, update_values_from_data with the same / another "
         "shape, label, coordinates and component set, add / replace / remove / re-label a component, the coords setter, link "
         "add / remove) runs with a real HubListener on the hub of the DataCollection that evaluates selections / statistics "
         "inside its handler - exhaustive core: mutation kind x message class broadcast x which selection the listener "
         "evaluates x tables filled before or not x evaluation schedule after, for leaves whose value the mutation changes, "
         "4-6 nesting contexts, 1-d / 2-d data, the edit-subset path, two linked datasets; random listeners in the random "
         "histories; the leaf environment is measured at every message (the state current at that moment); the message "
         "sequence and the number of clear_all_caches() calls between messages are compared with the transcribed script; "
         "keyed caches (flood, hlayer, helper): besides O(1) steps every numeric key input is moved by 1 ulp, 1e-12, 1e-9, 1e-7, "
         "1e-5, 1e-3 relative (absolute 1e-8 / 1e-12 / 1e-300 at 0) at the magnitudes O(1), 1e5, 2459000.5, 1e9, 1e-6, negative and 0 "
         "(up, further up, back, down), object-valued key inputs are replaced by equal-label / value-equal / equal-hash distinct "
         "objects, answers are compared as exact rationals with a freshly constructed object; fine cases are non-trivial iff the "
         "requests of the case have at least two different correct answers",
    partial_note="impl_fresh_partial: hypothesis progClean (no stale key reachable at any evaluation) — false exactly on histories "
                 "with in-place parameter edits / setters under memoised evaluated objects (known findings F2b-F2d)",
)
