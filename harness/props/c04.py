"""C04 — views of masks and attribute values equal the same view of the full array; the same for
dimension-reduced `IndexedData`.

Real objects: `glue.core.Data` (stored numeric, categorical, derived, linked through an identity link
from a second dataset, pixel, world with Identity/Affine coordinates), every `SubsetState` subclass
found by introspection, `glue.core.data_derived.IndexedData`; and (round 3) a second and a third dataset of
the same number of dimensions whose pixel ids are `LinkSame`-linked to the first one's in every axis order
(`CrossEnv`: all permutations, one axis left unlinked, longer grids, the third dataset reachable only through
the second): their pixel / world / derived / value ids and selections defined on them (regions with one, two,
three attributes, ranges, inequalities, `SliceSubsetState` / `PixelSubsetState` of the other dataset,
`MaskSubsetState` with the other dataset's ids) are evaluated on the first dataset under every view kind.

Observables: `data[cid]` / `data[cid, view]`, `data.get_mask(state)` / `data.get_mask(state, view)`,
`IndexedData.get_data / get_mask / compute_statistic / compute_histogram`.  Python never judges: it
sends the full-size result, the view and the viewed result as exact integers / rationals / Booleans;
the Lean `Spec` (`full[view]` through the L0 numpy indexing model, itself validated against numpy by
the `npidx` family) decides, and the Lean `Impl` (the fast paths as coded) must predict both arrays.

Numbers: stored values are small integers, affine matrices have integer / dyadic entries, so every
float glue returns is exact; it is converted with `Fraction(float)` and sent as an integer or
`(q num den)`.
"""
import itertools
import operator
import warnings
from fractions import Fraction

from harness.core import Family, Property, use_repo, sx

use_repo()
import numpy as np  # noqa: E402

warnings.filterwarnings("ignore")

from glue.core import Data, DataCollection  # noqa: E402
from glue.core import subset as S  # noqa: E402
from glue.core import roi as R  # noqa: E402
from glue.core.coordinates import AffineCoordinates, IdentityCoordinates  # noqa: E402
from glue.core.link_helpers import LinkSame  # noqa: E402
from glue.core.data_derived import IndexedData  # noqa: E402
from glue.core.decorators import clear_cache  # noqa: E402
from glue.core.parse import ParsedCommand, ParsedSubsetState  # noqa: E402
from glue.core.registry import Registry  # noqa: E402
from harness.props.c01 import scan_subset_classes  # noqa: E402  (AST scan + import of every SubsetState subclass)


# ------------------------------------------------------------------------------------------
# exact values
# ------------------------------------------------------------------------------------------

def q_sx(v):
    fr = Fraction(v)
    return fr.numerator if fr.denominator == 1 else ["q", fr.numerator, fr.denominator]


def canon_vals(a):
    a = np.asarray(a)
    if a.dtype.kind in "US":
        return [ord(s) for s in a.ravel().tolist()]
    if a.dtype.kind == "b":
        return [bool(b) for b in a.ravel().tolist()]
    out = []
    for v in a.ravel().tolist():
        if isinstance(v, float) and not np.isfinite(v):
            out.append("nan")
        else:
            out.append(q_sx(v))
    return out


def canon_arr(a):
    a = np.asarray(a)
    return [list(a.shape), canon_vals(a)]


def canon_mask(a):
    a = np.asarray(a)
    if a.dtype.kind != "b":
        return "not-bool"
    return [list(a.shape), [bool(b) for b in a.ravel().tolist()]]


# ------------------------------------------------------------------------------------------
# views  (JSON-able encodings)
#   "N" | "E" | ["b", [items], form] | ["a", shape, [aitems]] | ["m", [bools]]
#   item  = ["i", k] | ["s", a, b, c];  form = "t" (tuple) | "x" (bare item);  aitem = ["r", [ints]] | ["i", k]
# ------------------------------------------------------------------------------------------

def py_item(it):
    return it[1] if it[0] == "i" else slice(it[1], it[2], it[3])


def py_view(view, shape):
    if view == "N":
        return None
    if view == "E":
        return Ellipsis
    k = view[0]
    if k == "b":
        if view[2] == "x":
            return py_item(view[1][0])
        return tuple(py_item(it) for it in view[1])
    if k == "a":
        return tuple(np.array(x[1], dtype=int).reshape(tuple(view[1])) if x[0] == "r" else x[1] for x in view[2])
    if k == "m":
        return np.array(view[1], dtype=bool).reshape(tuple(shape))
    raise ValueError(view)


def view_sx(view):
    if view in ("N", "E"):
        return view
    k = view[0]
    if k == "b":
        return ["b"] + [list(it) for it in view[1]]
    if k == "a":
        return ["a", list(view[1])] + [[x[0], list(x[1])] if x[0] == "r" else ["i", x[1]] for x in view[2]]
    return ["m", [bool(b) for b in view[1]]]


def axis_items(n, neg_step=False):
    """One raw slice per distinct selection of an axis of length n (positive steps), a few alternative
    spellings of some of them (negative / out-of-range / explicit bounds), and every integer."""
    items, seen = [], set()
    starts = [None] + list(range(0, n + 1))
    stops = [None] + list(range(0, n + 1))
    steps = [None, 2, 3] if not neg_step else [-1, -2]
    for c in steps:
        for a in starts:
            for b in stops:
                key = tuple(range(*slice(a, b, c).indices(n)))
                if key in seen:
                    continue
                seen.add(key)
                items.append(["s", a, b, c])
    if neg_step:
        return items
    for alt in (["s", -1, None, None], ["s", None, -1, None], ["s", 0, n + 5, 1], ["s", -n, None, 2], ["s", 1, n + 2, 3]):
        if alt not in items:
            items.append(alt)
    for k in list(range(n)) + [-1, -n]:
        if ["i", k] not in items:
            items.append(["i", k])
    return items


def basic_views(shape):
    """The whole basic part of the view domain for a shape: bare items, tuples of every length <= ndim."""
    per_axis = [axis_items(n) for n in shape]
    yield "N"
    yield "E"
    for it in per_axis[0]:
        yield ["b", [it], "x"]
    for k in range(1, len(shape) + 1):
        for t in itertools.product(*per_axis[:k]):
            yield ["b", [list(x) for x in t], "t"]


def array_views(shape, rng, n):
    """Tuples of ndim integer index arrays (common shape, negative entries allowed) and Boolean masks."""
    nd = len(shape)
    size = int(np.prod(shape))
    out = []
    ishapes = [(0,), (1,), (2,), (3,), (2, 2), (1, 2), (2, 1, 2)[:max(nd, 1)] if nd != 2 else (2, 3)]
    for i in range(n):
        ish = ishapes[i % len(ishapes)]
        cnt = int(np.prod(ish))
        out.append(["a", list(ish), [["r", [rng.randrange(-s, s) for _ in range(cnt)]] for s in shape]])
    out.append(["m", [False] * size])
    out.append(["m", [True] * size])
    for _ in range(max(2, n // 2)):
        out.append(["m", [rng.random() < 0.5 for _ in range(size)]])
    return out


def ood_views(shape, rng, n):
    per_axis = [axis_items(s, neg_step=True) for s in shape]
    out = []
    for _ in range(n):
        k = rng.randint(1, len(shape))
        items = []
        for ax in range(k):
            items.append(rng.choice(per_axis[ax]) if rng.random() < 0.6 else rng.choice(axis_items(shape[ax])))
        if not any(it[0] == "s" and it[3] is not None and it[3] < 0 for it in items):
            items[0] = rng.choice(per_axis[0])
        out.append(["b", items, "t"])
    return out


def sampled_basic_views(shape, rng, tier):
    """The whole basic view domain of a shape; for the larger 3-d shapes of the quick tier a seeded
    sample of the full-length tuples (all shorter tuples, bare items, None, Ellipsis are kept)."""
    vs = list(basic_views(shape))
    limit = 280 if tier == "quick" else 3000
    if len(shape) == 3 and len(vs) > limit + 400:
        short = [v for v in vs if v in ("N", "E") or len(v[1]) < 3]
        long_ = [v for v in vs if v not in ("N", "E") and len(v[1]) == 3]
        vs = short + [long_[i] for i in sorted(rng.sample(range(len(long_)), limit))]
    return vs


def shapes_upto(maxdim, maxlen):
    for nd in range(1, maxdim + 1):
        yield from itertools.product(range(1, maxlen + 1), repeat=nd)


# ------------------------------------------------------------------------------------------
# datasets
# ------------------------------------------------------------------------------------------

COORDS = ["none", "id", "aff"]


def affine_rows(nd):
    """(nd+1)x(nd+1) augmented matrix, FITS order, integer / dyadic entries, invertible; coupled axes for nd >= 2."""
    M = [[Fraction(0)] * (nd + 1) for _ in range(nd + 1)]
    for i in range(nd):
        M[i][i] = Fraction(2) if i % 2 == 0 else Fraction(1, 2)
        M[i][nd] = Fraction(i + 1)
    if nd >= 2:
        M[0][1] = Fraction(1)
    if nd >= 3:
        M[2][0] = Fraction(-1, 2)
    M[nd][nd] = Fraction(1)
    return M


def coord_sx(coords, nd):
    if coords == "id":
        return ["id", nd]
    return ["aff", [[q_sx(x) for x in r] for r in affine_rows(nd)]]


class Env(object):
    """One dataset per (shape, coords) with every attribute kind, a linked second dataset, a pixel-aligned
    third one, all in a DataCollection.  Built once per worker process and reused (read-only)."""

    def __init__(self, shape, coords):
        self.shape = tuple(shape)
        nd = len(shape)
        n = int(np.prod(shape))
        self.xv = ((np.arange(n) * 7) % 11).reshape(shape).astype(float)
        self.catv = np.array(list("abc"))[(np.arange(n) * 5 + 1) % 3].reshape(shape)
        c = None
        if coords == "id":
            c = IdentityCoordinates(n_dim=nd)
        elif coords == "aff":
            c = AffineCoordinates(np.array([[float(x) for x in r] for r in affine_rows(nd)]))
        self.coords = coords
        self.cat2v = np.array(list("uv"))[(np.arange(n) * 3) % 2].reshape(shape)
        d = Data(x=self.xv, cat=self.catv, cat2=self.cat2v, label="d", coords=c)
        d["der"] = d.id["x"] * 2 + 1
        d["der2"] = d.id["x"] + d.pixel_component_ids[0]
        d2 = Data(y=self.xv + 100, label="d2")
        d3 = Data(z=np.zeros(self.shape[::-1]), label="d3")
        dc = DataCollection([d, d2, d3])
        dc.add_link(LinkSame(d.id["x"], d2.id["y"]))
        for i in range(nd):
            dc.add_link(LinkSame(d.pixel_component_ids[i], d3.pixel_component_ids[nd - 1 - i]))
        self.d, self.d2, self.d3, self.dc = d, d2, d3, dc
        xs = ["stored", canon_vals(self.xv)]
        self.attrs = {  # name -> (cid, lean description)
            "stored": (d.id["x"], xs),
            "cat": (d.id["cat"], ["stored", canon_vals(self.catv)]),
            "der": (d.id["der"], ["lin", 2, 1, xs]),
            "der2": (d.id["der2"], ["add", xs, ["pixel", 0]]),
            "linked": (d2.id["y"], ["linked", xs]),
        }
        for i, p in enumerate(d.pixel_component_ids):
            self.attrs["pixel%d" % i] = (p, ["pixel", i])
        if c is not None:
            for i, w in enumerate(d.world_component_ids):
                self.attrs["world%d" % i] = (w, ["world", coord_sx(coords, nd), i])
        # codes are positions in the sorted categories *present* in the data
        self.codes_sx = ["stored", canon_vals(d.get_component(d.id["cat"]).codes)]


_ENVS = {}


def env_for(shape, coords):
    key = (tuple(shape), coords)
    e = _ENVS.get(key)
    if e is None:
        if len(_ENVS) > 400:
            _ENVS.clear()
        e = _ENVS[key] = CrossEnv(shape, coords) if is_cross(coords) else Env(shape, coords)
    return e


# ------------------------------------------------------------------------------------------
# a second and a third dataset whose pixel axes are LinkSame-linked to the first one's
# ------------------------------------------------------------------------------------------

def is_cross(coords):
    return isinstance(coords, str) and coords.startswith("x:")


def cross_key(perm, linked, shp, q):
    """`x:<perm>:<linked flags>:<s|b>:<q>`: axis j of d is axis perm[j] of e (linked only where the flag is 1);
    e's shape is d's permuted (`s`) or longer on every axis (`b`); axis m of e is axis q[m] of f."""
    return "x:%s:%s:%s:%s" % ("".join(map(str, perm)), "".join("1" if b else "0" for b in linked), shp,
                              "".join(map(str, q)))


def parse_cross(key):
    _, perm, linked, shp, q = key.split(":")
    return [int(c) for c in perm], [c == "1" for c in linked], shp, [int(c) for c in q]


class Range1dROI(R.Roi):
    """A region of one attribute (open interval) for `RoiSubsetStateNd` with a single attribute."""

    def __init__(self, lo, hi):
        self.lo, self.hi = lo, hi

    def contains(self, x):
        x = np.asarray(x)
        return (x > self.lo) & (x < self.hi)

    def defined(self):
        return True

    def copy(self):
        return Range1dROI(self.lo, self.hi)


class CrossEnv(Env):
    """`Env` plus `e` (same number of dimensions; pixel axis j of `d` is identity-linked to pixel axis
    perm[j] of `e` on the flagged axes; affine coordinates, a derived attribute of its pixel ids, a value
    attribute identity-linked to `d.x`) and `f` (every pixel axis m of `e` linked to axis q[m] of `f`: related
    to `d` only through `e`).  All in `d`'s DataCollection."""

    def __init__(self, shape, key):
        Env.__init__(self, shape, "none")
        self.coords = key
        perm, linked, shp, q = parse_cross(key)
        nd = len(shape)
        self.perm, self.linked, self.q = perm, linked, q
        esh = [0] * nd
        for j in range(nd):
            esh[perm[j]] = shape[j] + (0 if shp == "s" else 1 + (j % 2))
        fsh = [0] * nd
        for m in range(nd):
            fsh[q[m]] = esh[m]
        self.esh, self.fsh = esh, fsh
        d, dc = self.d, self.dc
        e = Data(y=np.arange(int(np.prod(esh)), dtype=float).reshape(esh), label="e",
                 coords=AffineCoordinates(np.array([[float(x) for x in r] for r in affine_rows(nd)])))
        e["pz"] = e.pixel_component_ids[0] * 2 + e.pixel_component_ids[nd - 1]
        f = Data(z=np.zeros(fsh), label="f")
        dc.append(e)
        dc.append(f)
        for j in range(nd):
            if linked[j]:
                dc.add_link(LinkSame(d.pixel_component_ids[j], e.pixel_component_ids[perm[j]]))
        for m in range(nd):
            dc.add_link(LinkSame(e.pixel_component_ids[m], f.pixel_component_ids[q[m]]))
        dc.add_link(LinkSame(d.id["x"], e.id["y"]))
        self.e, self.f = e, f
        # links[j] = the axis of the other dataset that axis j of d is (None = not linked)
        self.links_e = [perm[j] if linked[j] else None for j in range(nd)]
        self.links_f = [q[perm[j]] if linked[j] else None for j in range(nd)]
        self.Le = sorted(k for k in self.links_e if k is not None)   # linked axes of e
        self.Lf = sorted(k for k in self.links_f if k is not None)
        self.aligned = all(linked)
        for k in self.Le:
            self.attrs["xpix%d" % k] = (e.pixel_component_ids[k], ["pixelof", self.links_e, k])
        for k in self.Lf:
            self.attrs["fpix%d" % k] = (f.pixel_component_ids[k], ["pixelof", self.links_f, k])
        M = affine_rows(nd)
        self.xworld = []
        for k in range(nd):
            i = nd - 1 - k                       # FITS order
            try:                                 # derivable on d only if every pixel axis of e that the link
                d[e.world_component_ids[k]]      # takes (all axes coupled with this one) is linked
            except Exception:  # noqa  (IncompatibleAttribute)
                continue
            desc = None
            for jf in range(nd):
                if M[i][jf] == 0:
                    continue
                term = ["lin", q_sx(M[i][jf]), q_sx(M[i][nd]) if desc is None else 0, ["pixelof", self.links_e, nd - 1 - jf]]
                desc = term if desc is None else ["add", desc, term]
            self.attrs["xworld%d" % k] = (e.world_component_ids[k], desc)
            self.xworld.append(k)
        if 0 in self.Le and (nd - 1) in self.Le:
            self.attrs["xder"] = (e.id["pz"], ["add", ["lin", 2, 0, ["pixelof", self.links_e, 0]], ["pixelof", self.links_e, nd - 1]])
        self.attrs["xval"] = (e.id["y"], ["linked", self.attrs["stored"][1]])

    def cross_attr_names(self):
        return [n for n in self.attrs if n[0] in "xf" and n != "x"]


def attr_names(nd, coords):
    names = ["stored", "cat", "der", "der2", "linked"] + ["pixel%d" % i for i in range(nd)]
    if coords != "none":
        names += ["world%d" % i for i in range(nd)]
    return names


_CLASSES = {}


def clear_memo():
    if "c" not in _CLASSES:
        _CLASSES["c"] = scan_subset_classes()
    for c in _CLASSES["c"]:
        clear_cache(c.to_mask)


# ------------------------------------------------------------------------------------------
# selections: name -> builder(env) -> (glue state, lean description)
# A description may contain ("measure", state): replaced by the measured full mask of that leaf
# (`table`), for classes whose view handling is "an elementwise function of data[att, view]".
# ------------------------------------------------------------------------------------------

def half(v):
    """exact rational of a (dyadic) float / int bound"""
    return q_sx(Fraction(v))


def box_sx(bounds):
    return ["box"] + [[half(lo), half(hi)] for lo, hi in bounds]


BIG = 1000


def _table(env, st):
    try:
        full = np.asarray(env.d.get_mask(st))
    except Exception:  # noqa  (the full-size mask itself raises: run_impl reports it, the Spec rejects it)
        full = np.zeros(env.shape, dtype=bool)
    return ["table", [bool(b) for b in full.ravel().tolist()]]


def build_state(env, name):
    d, d2, d3 = env.d, env.d2, env.d3
    sh, nd = env.shape, len(env.shape)
    x, cat, pix = d.id["x"], d.id["cat"], d.pixel_component_ids
    xs = env.attrs["stored"][1]
    last = nd - 1
    if name[0] in "xf" and name not in ("xor_1", "xor_2", "floodfill") and name not in XCOMPOSITES:
        return build_cross_state(env, name)
    if name == "base":
        return S.SubsetState(), ["base"]
    if name == "range":
        return S.RangeSubsetState(2, 6, x), ["pred", xs, ["range", 2, 6]]
    if name == "range_pix":
        return S.RangeSubsetState(0.5, 1.5, pix[last]), ["pred", ["pixel", last], ["range", half(0.5), half(1.5)]]
    if name == "range_der":
        return S.RangeSubsetState(4, 12, d.id["der"]), ["pred", env.attrs["der"][1], ["range", 4, 12]]
    if name == "range_linked":
        return S.RangeSubsetState(3, 9, d2.id["y"]), ["pred", env.attrs["linked"][1], ["range", 3, 9]]
    if name == "range_world":
        if env.coords == "none":
            return None
        return S.RangeSubsetState(1, 3, d.world_component_ids[0]), ["pred", env.attrs["world0"][1], ["range", 1, 3]]
    if name == "multirange":
        return S.MultiRangeSubsetState([(0, 1), (5, 7)], x), ["pred", xs, ["multirange", [0, 1], [5, 7]]]
    if name == "ineq":
        return x > 4, ["pred", xs, ["cmp", "gt", 4]]
    if name == "ineq_pix":
        return pix[0] >= 1, ["pred", ["pixel", 0], ["cmp", "ge", 1]]
    if name == "ineq2":
        return S.InequalitySubsetState(d.id["der2"], x, operator.gt), ["pred2", env.attrs["der2"][1], xs, ["cmp", "gt"]]
    if name == "category":
        return S.CategorySubsetState(cat, [0, 2]), ["pred", env.codes_sx, ["isin", 0, 2]]
    if name == "catroi":
        return S.CategoricalROISubsetState(cat, R.CategoricalROI(["a", "c"])), ["pred", env.attrs["cat"][1], ["isin", 97, 99]]
    if name == "catroi2d":
        # the class loops over the ravelled labels (fix C04i): any dataset dimension, any view
        st = S.CategoricalROISubsetState2D({"a": ["a"], "b": ["b", "c"]}, cat, cat)
        return st, ("measure1d", st, True)
    if name == "catmulti":
        st = S.CategoricalMultiRangeSubsetState({"a": [(0, 5)], "c": [(3, 20)]}, cat, x)
        return st, ("measure1d", st, False)
    if name == "catroi2d_x":
        # two different attributes: labels x labels of a second categorical attribute
        st = S.CategoricalROISubsetState2D({"a": ["u"], "c": ["u", "v"]}, cat, d.id["cat2"])
        return st, ("measure1d", st, True)
    if name == "roi_xy":
        return (S.RoiSubsetState(x, d.id["der"], R.RectangularROI(0.5, 7.5, 1.5, 12.5)),
                ["pred2", xs, env.attrs["der"][1], ["rect", half(0.5), half(7.5), half(1.5), half(12.5)]])
    if name == "roi_mixed":
        return (S.RoiSubsetState(pix[0], x, R.RectangularROI(0.5, 2.5, 1.5, 8.5)),
                ["pred2", ["pixel", 0], xs, ["rect", half(0.5), half(2.5), half(1.5), half(8.5)]])
    if name == "roi_undefined":
        return S.RoiSubsetState(pix[0], x, R.RectangularROI()), ["base"]
    if name.startswith("roi_pix"):
        # attributes (x = first, y = second) per variant; open boxes with half-integer bounds
        variants = {"roi_pix_a": (last, 0), "roi_pix_b": (0, last), "roi_pix_c": (0, 0), "roi_pix_d": (last, max(last - 1, 0))}
        ax, ay = variants[name]
        bounds = [(0.5, 2.5), (-0.5, 1.5)] if name != "roi_pix_b" else [(-0.5, 0.5), (0.5, 5.5)]
        roi = R.RectangularROI(bounds[0][0], bounds[0][1], bounds[1][0], bounds[1][1])
        return S.RoiSubsetState(pix[ax], pix[ay], roi), ["roipix", [ax, ay], box_sx(bounds)]
    if name == "roi_nd":
        # RoiSubsetStateNd proper, with a polygon (still a box: vertices on half-integers)
        roi = R.PolygonalROI([-0.5, 1.5, 1.5, -0.5], [0.5, 0.5, 2.5, 2.5])
        return S.RoiSubsetStateNd([pix[0], pix[last]], roi), ["roipix", [0, last], box_sx([(-0.5, 1.5), (0.5, 2.5)])]
    if name == "roi3d":
        if nd != 3:
            return None
        roi = R.Projected3dROI(R.RectangularROI(-0.5, 1.5, 0.5, 2.5), np.eye(4))
        return (S.RoiSubsetState3d(pix[2], pix[1], pix[0], roi),
                ["roichunk", [2, 1, 0], box_sx([(-0.5, 1.5), (0.5, 2.5), (-BIG, BIG)])])
    if name == "roi_pre":
        # pretransform (a, b) -> (a + 1, 2 b): the box on (a + 1, 2 b) is a box on (a, b)
        roi = R.RectangularROI(0.5, 2.5, -0.5, 3.5)
        st = S.RoiSubsetStateNd([pix[0], pix[last]], roi, pretransform=lambda a, b: (a + 1, b * 2))
        return st, ["roichunk", [0, last], box_sx([(-0.5, 1.5), (-0.25, 1.75)])]
    if name.startswith("slice") and name not in ("slice_unrelated", "slice_aligned"):
        full = [slice(None)] * nd
        variants = {
            "slice_a": [slice(1, None)] + [slice(None, None, 2)] * (nd - 1),
            "slice_b": [slice(0, 2)],  # padded by the constructor
            "slice_c": [slice(None, None, 2)] + full[1:],
            "slice_d": full[:-1] + [slice(1, 3, 2)],
            "slice_e": [slice(-2, None)] + [slice(None, -1)] * (nd - 1),
            "slice_f": [slice(2, 1)] + full[1:],
            "slice_g": [slice(1, 10, 3)] * nd,
        }
        sls = variants[name]
        st = S.SliceSubsetState(d, list(sls))
        return st, ["slice"] + [["s", s.start, s.stop, s.step] for s in st.slices]
    if name == "slice_unrelated":
        return S.SliceSubsetState(d2, [slice(1, None)] * nd), ["unrelated"]
    if name == "slice_aligned":
        # reference data d3 = transposed grid, pixel-aligned through identity links: the slices are re-ordered
        sls = [slice(i, None, 1 + (i % 2)) for i in range(nd)]
        st = S.SliceSubsetState(d3, sls)
        return st, ["slice"] + [["s", s.start, s.stop, s.step] for s in sls[::-1]]
    if name == "pixelstate":
        from glue.viewers.image.pixel_selection_subset_state import PixelSubsetState
        sls = [slice(1, 2)] + [slice(None)] * (nd - 1)
        return PixelSubsetState(d, sls), ["slice"] + [["s", s.start, s.stop, s.step] for s in sls]
    if name == "mask_same":
        m = (np.arange(int(np.prod(sh))).reshape(sh) % 3 == 0)
        return S.MaskSubsetState(m, d.pixel_component_ids), ["masksame", [bool(b) for b in m.ravel().tolist()]]
    if name == "mask_list":
        m = (np.arange(int(np.prod(sh))).reshape(sh) % 2 == 1)
        return S.MaskSubsetState(m, list(d.pixel_component_ids)), ["masksame", [bool(b) for b in m.ravel().tolist()]]
    if name == "mask_perm":
        if nd < 2:
            return None
        m = (np.arange(int(np.prod(sh))).reshape(sh) % 3 != 1).T
        return (S.MaskSubsetState(m, list(d.pixel_component_ids)[::-1]),
                ["maskaxes", list(range(nd))[::-1], list(m.shape), [bool(b) for b in m.ravel().tolist()]])
    if name == "floodfill":
        st = S.FloodFillSubsetState(d, x, (0,) * nd, 1.5)
        return st, ["masksame", [bool(b) for b in np.asarray(st.mask).ravel().tolist()]]
    if name == "element":
        n = int(np.prod(sh))
        inds = sorted({0, n - 1, n // 2})
        return S.ElementSubsetState(inds, data=d), ["element"] + inds
    if name == "element_neg":
        return S.ElementSubsetState(np.array([-1, 0]), data=d), ["element", -1, 0]
    if name == "element_anon":
        return S.ElementSubsetState([0]), ["element", 0]
    if name == "element_none":
        return S.ElementSubsetState(None, data=d), ["element"]
    if name == "parsed":
        st = ParsedSubsetState(ParsedCommand("{a} > 3", {"a": x}))
        return st, ("measure", st)
    if name in XCOMPOSITES or name in COMPOSITE_DEFS:
        op, parts = XCOMPOSITES[name] if name in XCOMPOSITES else COMPOSITE_DEFS[name]
        built = [build_state(env, p) for p in parts]
        if any(b is None for b in built):
            return None
        sts = [b[0] for b in built]
        descs = [b[1] for b in built]
        if op == "inv":
            return ~sts[0], ["inv", descs[0]]
        if op == "mor":  # MultiOrState: copy of the first mask, then |= the others == left fold of `or`
            st = S.MultiOrState(sts)
            desc = descs[0]
            for dd in descs[1:]:
                desc = ["or", desc, dd]
            return st, desc
        pyop = {"and": operator.and_, "or": operator.or_, "xor": operator.xor}[op]
        return pyop(sts[0], sts[1]), [op, descs[0], descs[1]]
    raise KeyError(name)


def boxq_sx(bounds):
    return ["boxq"] + [[half(lo), half(hi)] for lo, hi in bounds]


XSLICES = {
    "a": lambda nd: [slice(1, None)] + [slice(None, None, 2)] * (nd - 1),
    "b": lambda nd: [slice(None)] * (nd - 1) + [slice(1, 3)],
    "c": lambda nd: [slice(i, None, 1 + (i % 2)) for i in range(nd)],
    "d": lambda nd: [slice(0, 2)],                                    # padded by the constructor
    "e": lambda nd: [slice(-2, None)] + [slice(None, -1)] * (nd - 1),
}
XCOMPOSITES = {
    "xand": ("and", ["xroi2d_0", "slice_a"]),
    "xor": ("or", ["xslice_a", "xmask"]),
    "xxor": ("xor", ["xroi1d_0", "roi_pix_a"]),
    "xinv": ("inv", ["xslice_c"]),
    "xmor": ("mor", ["xrange_pix0", "fslice_a", "froi2d_0"]),
    "xand_f": ("and", ["fmask", "xroi_poly"]),
}


def axis_pairs(L):
    """ordered pairs of different linked axes; a single linked axis is paired with itself"""
    prs = [(a, b) for a in L for b in L if a != b]
    return prs or [(L[0], L[0])]


def cross_state_names(env, tier="thorough", salt=0):
    """The selections on the other datasets' ids that can be evaluated on `d` in this environment (quick: two of the
    ordered axis pairs of the 2-d regions per dataset, rotating with `salt`; every single axis is always there)."""
    names = _cross_state_names(env)
    if tier != "quick":
        return names
    x2 = [n for n in names if n.startswith("xroi2d_")]
    f2 = [n for n in names if n.startswith("froi2d_")]
    keep = set(round_robin(x2, 2, salt)) | set(round_robin(f2, 2, salt + 1))
    return [n for n in names if n not in x2 + f2 or n in keep]


def _cross_state_names(env):
    nd = len(env.shape)
    out = []
    if env.Le:
        out += ["xrange_pix%d" % i for i in range(len(env.Le))]
        out += ["xineq_pix", "xineq2", "xrange_val", "xroi_mixed", "xroi_own", "xroi_poly", "xroi_pre", "xroi_xrange"]
        out += ["xroi1d_%d" % i for i in range(len(env.Le))]
        out += ["xroi2d_%d" % i for i in range(len(axis_pairs(env.Le)))]
        out += ["froi2d_%d" % i for i in range(len(axis_pairs(env.Lf)))]
        out += ["froi_ef", "xmask", "xmask_rev", "fmask", "xand", "xxor", "xmor", "xand_f"]
        if env.xworld:
            out += ["xrange_world", "xroi_world"]
        if "xder" in env.attrs:
            out += ["xrange_der"]
        if nd == 3 and env.aligned:
            out += ["xroi3d", "froi3d"]
    out += ["xslice_" + v for v in XSLICES] + ["fslice_a", "fslice_c", "xpixelstate", "xor", "xinv"]
    return [n for n in out if not (n in ("xor",) and not env.Le)]


def build_cross_state(env, name):
    d, e, f = env.d, env.e, env.f
    nd = len(env.shape)
    ep, fp = e.pixel_component_ids, f.pixel_component_ids
    Le, Lf = env.Le, env.Lf

    def pe(k):
        return ["pixelof", env.links_e, k]

    def pf(k):
        return ["pixelof", env.links_f, k]

    if name.startswith("xrange_pix"):
        k = Le[int(name[10:])]
        return S.RangeSubsetState(0.5, 1.5, ep[k]), ["pred", pe(k), ["range", half(0.5), half(1.5)]]
    if name == "xineq_pix":
        return ep[Le[-1]] >= 1, ["pred", pe(Le[-1]), ["cmp", "ge", 1]]
    if name == "xineq2":
        return S.InequalitySubsetState(ep[Le[0]], d.pixel_component_ids[0], operator.gt), ["pred2", pe(Le[0]), ["pixel", 0], ["cmp", "gt"]]
    if name == "xrange_val":
        return S.RangeSubsetState(3, 9, e.id["y"]), ["pred", env.attrs["xval"][1], ["range", 3, 9]]
    if name == "xrange_world":
        k = env.xworld[0]
        return S.RangeSubsetState(1, 4, e.world_component_ids[k]), ["pred", env.attrs["xworld%d" % k][1], ["range", 1, 4]]
    if name == "xrange_der":
        return S.RangeSubsetState(1, 4, e.id["pz"]), ["pred", env.attrs["xder"][1], ["range", 1, 4]]
    if name.startswith("xroi1d_"):
        k = Le[int(name[7:])]
        return S.RoiSubsetStateNd([ep[k]], Range1dROI(0.5, 2.5)), ["predn", [pe(k)], boxq_sx([(0.5, 2.5)])]
    if name.startswith("xroi2d_") or name.startswith("froi2d_"):
        own = name[0] == "x"
        a, b = axis_pairs(Le if own else Lf)[int(name[7:])]
        bounds = [(0.5, 2.5), (0.5, 1.5)] if int(name[7:]) % 2 == 0 else [(-0.5, 0.5), (0.5, 2.5)]
        roi = R.RectangularROI(bounds[0][0], bounds[0][1], bounds[1][0], bounds[1][1])
        pp, pd = (ep, pe) if own else (fp, pf)
        return S.RoiSubsetState(pp[a], pp[b], roi), ["predn", [pd(a), pd(b)], boxq_sx(bounds)]
    if name == "xroi_xrange":
        a, b = axis_pairs(Le)[-1]
        return (S.RoiSubsetState(ep[a], ep[b], R.XRangeROI(0.5, 1.5)),
                ["predn", [pe(a), pe(b)], boxq_sx([(0.5, 1.5), (-BIG, BIG)])])
    if name == "froi_ef":
        return (S.RoiSubsetState(ep[Le[0]], fp[Lf[-1]], R.RectangularROI(-0.5, 0.5, 0.5, 3.5)),
                ["predn", [pe(Le[0]), pf(Lf[-1])], boxq_sx([(-0.5, 0.5), (0.5, 3.5)])])
    if name == "xroi_poly":
        a, b = axis_pairs(Le)[0]
        roi = R.PolygonalROI([-0.5, 0.5, 0.5, -0.5], [0.5, 0.5, 2.5, 2.5])
        return S.RoiSubsetStateNd([ep[a], ep[b]], roi), ["predn", [pe(a), pe(b)], boxq_sx([(-0.5, 0.5), (0.5, 2.5)])]
    if name == "xroi_pre":
        a, b = axis_pairs(Le)[-1]
        roi = R.RectangularROI(0.5, 1.5, 1.5, 4.5)
        st = S.RoiSubsetStateNd([ep[a], ep[b]], roi, pretransform=lambda u, v: (u + 1, v * 2))
        return st, ["predn", [pe(a), pe(b)], boxq_sx([(-0.5, 0.5), (0.75, 2.25)])]
    if name == "xroi_mixed":
        return (S.RoiSubsetState(ep[Le[-1]], d.id["x"], R.RectangularROI(0.5, 2.5, 1.5, 8.5)),
                ["predn", [pe(Le[-1]), env.attrs["stored"][1]], boxq_sx([(0.5, 2.5), (1.5, 8.5)])])
    if name == "xroi_own":
        # one pixel id of the other dataset and one of this dataset: not all attributes are own pixel ids
        return (S.RoiSubsetState(ep[Le[0]], d.pixel_component_ids[nd - 1], R.RectangularROI(0.5, 2.5, -0.5, 0.5)),
                ["predn", [pe(Le[0]), ["pixel", nd - 1]], boxq_sx([(0.5, 2.5), (-0.5, 0.5)])])
    if name == "xroi_world":
        k = env.xworld[0]
        return (S.RoiSubsetState(e.world_component_ids[k], ep[Le[-1]], R.RectangularROI(0.5, 4.5, 0.5, 2.5)),
                ["predn", [env.attrs["xworld%d" % k][1], pe(Le[-1])], boxq_sx([(0.5, 4.5), (0.5, 2.5)])])
    if name in ("xroi3d", "froi3d"):
        pp, pd = (ep, pe) if name[0] == "x" else (fp, pf)
        roi = R.Projected3dROI(R.RectangularROI(-0.5, 0.5, 0.5, 2.5), np.eye(4))
        o = [2, 0, 1] if name[0] == "x" else [1, 2, 0]
        return (S.RoiSubsetState3d(pp[o[0]], pp[o[1]], pp[o[2]], roi),
                ["predn", [pd(o[0]), pd(o[1]), pd(o[2])], boxq_sx([(-0.5, 0.5), (0.5, 2.5), (-BIG, BIG)])])
    if name.startswith("xslice_") or name.startswith("fslice_") or name == "xpixelstate":
        if name == "xpixelstate":
            from glue.viewers.image.pixel_selection_subset_state import PixelSubsetState
            st = PixelSubsetState(e, [slice(None)] * (nd - 1) + [slice(1, 2)])
            links = env.links_e
        else:
            ref, links = (e, env.links_e) if name[0] == "x" else (f, env.links_f)
            st = S.SliceSubsetState(ref, list(XSLICES[name[7:]](nd)))
        if not env.aligned:
            return st, ["unrelated"]
        return st, ["sliceof", list(links)] + [["s", sl.start, sl.stop, sl.step] for sl in st.slices]
    if name in ("xmask", "fmask", "xmask_rev"):
        ref, links, L, osh = (e, env.links_e, Le, env.esh) if name[0] == "x" else (f, env.links_f, Lf, env.fsh)
        ks = list(L) if name != "xmask_rev" else list(L)[::-1]
        msh = [osh[k] for k in ks]
        m = (np.arange(int(np.prod(msh))).reshape(msh) % 3 != 1)
        return (S.MaskSubsetState(m, [ref.pixel_component_ids[k] for k in ks]),
                ["maskof", list(links), ks, msh, [bool(b) for b in m.ravel().tolist()]])
    raise KeyError(name)


COMPOSITE_DEFS = {
    "and_1": ("and", ["range", "ineq_pix"]),
    "and_2": ("and", ["slice_a", "roi_pix_a"]),
    "or_1": ("or", ["slice_a", "mask_same"]),
    "or_2": ("or", ["category", "element"]),
    "xor_1": ("xor", ["element", "roi_pix_a"]),
    "xor_2": ("xor", ["mask_same", "range_linked"]),
    "inv_1": ("inv", ["slice_d"]),
    "inv_2": ("inv", ["roi_pix_b"]),
    "mor_1": ("mor", ["range", "slice_c", "roi_pix_a"]),
    "nest_1": ("and", ["or_1", "inv_1"]),
    "and_3": ("and", ["roi_pre", "catmulti"]),
    "mor_2": ("mor", ["catroi2d", "roi_pre", "slice_c"]),
}

STATE_NAMES = [
    "base", "range", "range_pix", "range_der", "range_linked", "range_world", "multirange", "ineq", "ineq_pix",
    "ineq2", "category", "catroi", "catroi2d", "catroi2d_x", "catmulti", "roi_xy", "roi_mixed", "roi_undefined",
    "roi_pix_a", "roi_pix_b", "roi_pix_c", "roi_pix_d", "roi_nd", "roi3d", "roi_pre",
    "slice_a", "slice_b", "slice_c", "slice_d", "slice_e", "slice_f", "slice_g", "slice_unrelated", "slice_aligned",
    "pixelstate", "mask_same", "mask_list", "mask_perm", "floodfill", "element", "element_neg", "element_anon",
    "element_none", "parsed",
] + list(COMPOSITE_DEFS)

# class -> the generators that build an instance of exactly that class
CLASS_GENERATORS = {
    "SubsetState": ["base"], "RoiSubsetStateNd": ["roi_nd", "roi_pre"],
    "RoiSubsetState": ["roi_pix_a", "roi_pix_b", "roi_pix_c", "roi_pix_d", "roi_xy", "roi_mixed", "roi_undefined"],
    "RoiSubsetState3d": ["roi3d"], "CategoricalROISubsetState": ["catroi"],
    "RangeSubsetState": ["range", "range_pix", "range_der", "range_linked", "range_world"],
    "MultiRangeSubsetState": ["multirange"], "CategoricalROISubsetState2D": ["catroi2d", "catroi2d_x"],
    "CategoricalMultiRangeSubsetState": ["catmulti"], "OrState": ["or_1", "or_2"], "AndState": ["and_1", "and_2", "and_3", "nest_1"],
    "XorState": ["xor_1", "xor_2"], "InvertState": ["inv_1", "inv_2"], "MultiOrState": ["mor_1", "mor_2"],
    "MaskSubsetState": ["mask_same", "mask_list", "mask_perm"], "FloodFillSubsetState": ["floodfill"],
    "SliceSubsetState": ["slice_a", "slice_b", "slice_c", "slice_d", "slice_e", "slice_f", "slice_g",
                         "slice_unrelated", "slice_aligned"],
    "PixelSubsetState": ["pixelstate"], "CategorySubsetState": ["category"],
    "ElementSubsetState": ["element", "element_neg", "element_anon", "element_none"],
    "InequalitySubsetState": ["ineq", "ineq_pix", "ineq2"], "ParsedSubsetState": ["parsed"],
}
ABSTRACT = {"CompositeSubsetState"}  # op = None: cannot be evaluated


def resolve_desc(env, desc):
    """Replace ("measure", state) leaves by the measured table."""
    if isinstance(desc, tuple) and desc and desc[0] == "measure":
        return _table(env, desc[1])
    if isinstance(desc, tuple) and desc and desc[0] == "measure1d":
        return ["loop1d", bool(desc[2]), _table(env, desc[1])[1]]
    if isinstance(desc, list) and desc and desc[0] in ("and", "or", "xor", "inv"):
        return [desc[0]] + [resolve_desc(env, x) for x in desc[1:]]
    return desc


def applicable_states(nd, coords):
    out = []
    for n in STATE_NAMES:
        if n == "roi3d" and nd != 3:
            continue
        if n == "mask_perm" and nd < 2:
            continue
        if n == "range_world" and coords == "none":
            continue
        out.append(n)
    return out


FORMER_LOUD = ["roi_pre", "roi3d", "catroi2d", "catroi2d_x", "catmulti", "and_3", "mor_2"]


def single_element_views(shape, rng, tier):
    """Views whose result is 0-d (every element, as a tuple of non-negative / negative integers; the
    largest shapes are sampled in quick) and tuples of index arrays with a 2-d / 3-d common shape."""
    idx = list(itertools.product(*[range(s) for s in shape]))
    if tier == "quick" and len(idx) > 12:
        idx = [idx[i] for i in sorted(rng.sample(range(len(idx)), 12))]
    out = []
    for j, t in enumerate(idx):
        out.append(["b", [["i", (k - s) if (j + a) % 3 == 2 else k] for a, (k, s) in enumerate(zip(t, shape))], "t"])
    if len(shape) == 1:
        out.append(["b", [["i", 0]], "x"])
    for ish in ([2, 2], [1, 2], [2, 1, 2], [0, 2], [1, 1]):
        cnt = int(np.prod(ish))
        out.append(["a", list(ish), [["r", [rng.randrange(-s, s) for _ in range(cnt)]] for s in shape]])
    return out


CROSS_SHAPES = {
    "quick": [[3], [2, 3], [3, 3], [1, 3], [2, 3, 4], [2, 2, 3], [3, 1, 2]],
    "thorough": [[3], [4], [2, 3], [3, 2], [3, 3], [1, 3], [4, 2], [2, 3, 4], [3, 4, 2], [2, 2, 3], [3, 1, 2], [2, 2, 2],
                 [1, 2, 1], [3, 3, 3], [4, 1, 3]],
}


def cross_variants(nd, tier):
    """Every axis order (all permutations: identity, every swap, both 3-cycles) x {all axes linked & same grid, all
    axes linked & a longer grid, one axis left unlinked (rotating), thorough: every single axis unlinked / only one
    axis linked}; the third dataset's order rotates through all permutations as well."""
    perms = list(itertools.permutations(range(nd)))
    out = []
    for i, perm in enumerate(perms):
        full = [True] * nd
        variants = [(full, "s"), (full, "b")]
        if nd >= 2:
            drops = [i % nd] if tier == "quick" else list(range(nd))
            for a in drops:
                variants.append(([j != a for j in range(nd)], "b" if (i + a) % 2 else "s"))
            if nd == 3 and tier != "quick":
                variants.append(([j == i % nd for j in range(nd)], "s"))
        for vi, (linked, shp) in enumerate(variants):
            q = perms[(i + 2 * vi + 1) % len(perms)]
            out.append(cross_key(perm, linked, shp, q))
    return out


def cross_views(shape, rng, tier):
    """(grid views, other views) for the cross-dataset strata.  Grid views (None, Ellipsis, slices only) are the
    ones a pixel-space shortcut may take: every axis gets a slice that does not start at 0 while the others are
    whole; the other views have an integer on every axis in turn, all integers, index arrays, masks."""
    nd = len(shape)
    full = ["s", None, None, None]
    grid = ["N", "E", ["b", [["s", 1, None, None]], "x"]]
    other = [["b", [["i", -1]], "x"]]
    for j in range(nd):
        grid.append(["b", [list(full) if a != j else ["s", 1, None, None] for a in range(nd)], "t"])
        other.append(["b", [list(full) if a != j else ["i", min(1, shape[j] - 1)] for a in range(nd)], "t"])
    grid.append(["b", [["s", None, None, 2] for _ in range(nd)], "t"])
    grid.append(["b", [["s", 1, None, 2] if a % 2 == 0 else ["s", None, -1, None] for a in range(nd)], "t"])
    if nd > 1:
        grid.append(["b", [["s", 1, 3, None] for _ in range(nd - 1)], "t"])
        other.append(["b", [["i", 0]] + [["s", 1, None, None] for _ in range(nd - 2)], "t"])
    other.append(["b", [["i", (s - 1) if a % 2 == 0 else -s] for a, s in enumerate(shape)], "t"])
    per_axis = [axis_items(n) for n in shape]
    sl_only = [[it for it in items if it[0] == "s"] for items in per_axis]
    nrand = 3 if tier == "quick" else 24
    for _ in range(nrand):
        k = nd if rng.random() < 0.7 else rng.randint(1, nd)
        grid.append(["b", [list(rng.choice(sl_only[a])) for a in range(k)], "t"])
        k = nd if rng.random() < 0.7 else rng.randint(1, nd)
        items = [list(rng.choice(per_axis[a])) for a in range(k)]
        if not any(it[0] == "i" for it in items):
            a = rng.randrange(k)
            items[a] = ["i", rng.randrange(-shape[a], shape[a])]
        other.append(["b", items, "t"])
    other += array_views(shape, rng, 2 if tier == "quick" else 8)
    return grid, other


def view_kind(view):
    if view in ("N", "E"):
        return {"N": "none", "E": "ellipsis"}[view]
    if view[0] == "b":
        ints = [it[0] == "i" for it in view[1]]
        return "ints" if all(ints) else ("mixed" if any(ints) else "slices")
    if view[0] == "a":
        return "arrays+int" if any(x[0] == "i" for x in view[2]) else "arrays"
    return "mask"


def view_has_neg_int(view):
    return isinstance(view, list) and view[0] == "b" and any(it[0] == "i" and it[1] < 0 for it in view[1])


def shrink_view(view, shape):
    if view == "N":
        return
    yield "N"
    if view == "E":
        return
    if view[0] == "b":
        items = view[1]
        if len(items) > 1:
            yield ["b", items[:-1], "t"]
        for i, it in enumerate(items):
            if it[0] == "s" and it != ["s", None, None, None]:
                yield ["b", items[:i] + [["s", None, None, None]] + items[i + 1:], view[2]]
            if it[0] == "i" and it[1] != 0:
                yield ["b", items[:i] + [["i", 0]] + items[i + 1:], view[2]]
    elif view[0] == "a":
        if int(np.prod(view[1])) > 1:
            yield ["a", [1], [["r", x[1][:1]] if x[0] == "r" else x for x in view[2]]]
    elif view[0] == "m":
        if any(view[1]):
            m = list(view[1])
            m[m.index(True)] = False
            yield ["m", m]


# ------------------------------------------------------------------------------------------
# families
# ------------------------------------------------------------------------------------------

class Base(Family):
    batch = 1500
    case_timeout = 20.0

    def setup(self):
        Registry().clear()

    def reset(self):
        self._n = getattr(self, "_n", 0) + 1
        if self._n % 200 == 0:
            clear_memo()


class NpIdx(Base):
    """L0: the numpy indexing model against numpy itself, on the whole view domain (negative steps and
    negative integers included)."""
    name = "npidx"
    exhaustive = False  # exhaustive for 1-d / 2-d / small 3-d shapes; the largest 3-d shapes are sampled in quick
    batch = 4000
    budget_share = 0.4

    def cases(self, tier, rng):
        m = 3 if tier == "quick" else 4
        for sh in shapes_upto(3, m):
            if tier == "quick" and len(sh) == 3 and int(np.prod(sh)) > 18:
                # largest 3-d shapes: the same per-axis items occur in the smaller ones; sampled here
                vs = list(basic_views(sh))
                vs = [vs[i] for i in sorted(rng.sample(range(len(vs)), 300))]
            else:
                vs = basic_views(sh)
            for v in vs:
                yield [list(sh), v]
            for v in array_views(sh, rng, 8 if tier == "quick" else 30):
                yield [list(sh), v]
            for v in ood_views(sh, rng, 20 if tier == "quick" else 200):
                yield [list(sh), v]
        # out-of-range integers: IndexError
        yield [[3], ["b", [["i", 3]], "t"]]
        yield [[2, 2], ["b", [["i", 0], ["i", -3]], "t"]]
        yield [[2], ["b", [["i", 0], ["i", 0]], "t"]]

    def run_impl(self, case):
        sh, view = case
        a = np.arange(int(np.prod(sh)), dtype=np.int64).reshape(tuple(sh))
        v = py_view(view, sh)
        try:
            out = a if v is None else a[v]
        except IndexError:
            return "index-error"
        return canon_arr(out)

    def line(self, case, pyout):
        return sx(["npidx", [case[0], view_sx(case[1])], pyout])

    def nontrivial(self, case, po):
        return case[1] not in ("N", "E")

    def shrink(self, case):
        for v in shrink_view(case[1], case[0]):
            yield [case[0], v]


def round_robin(items, k, salt):
    """k items of a list chosen by a rotating offset (every item is used as the salt varies)."""
    n = len(items)
    if k >= n:
        return list(items)
    return [items[(salt * k + j) % n] for j in range(k)]


class AttrViews(Base):
    """`data[cid]` and `data[cid, view]` for every attribute kind."""
    name = "attr"
    exhaustive = False
    budget_share = 1.5

    def _cross(self, tier, rng, salt):
        """attributes of a second / third dataset whose pixel axes are linked to this one's in every axis order"""
        for sh in CROSS_SHAPES[tier]:
            for key in cross_variants(len(sh), tier):
                names = env_for(sh, key).cross_attr_names()
                grid, other = cross_views(sh, rng, tier)
                for i, v in enumerate(grid + other):
                    for n in (names if tier != "quick" or len(sh) < 3 else round_robin(names, 4, salt + i)):
                        yield [list(sh), key, n, v]

    def cases(self, tier, rng):
        m = 3 if tier == "quick" else 4
        salt = rng.randrange(1 << 20)
        # the quick-sized cross-dataset core comes first in both tiers (a family that stops on its budget has run it)
        yield from self._cross("quick", rng, salt)
        for sh in shapes_upto(3, m):
            nd = len(sh)
            size = int(np.prod(sh))
            for coords in COORDS:
                names = attr_names(nd, coords)
                if coords != "none":
                    names = [n for n in names if n.startswith("world") or n in ("stored", "pixel0")]
                vs = sampled_basic_views(sh, rng, tier) + array_views(sh, rng, 8 if tier == "quick" else 24)
                full = nd <= 2 or (tier == "thorough" and size <= 8)
                for i, v in enumerate(vs):
                    use = names if (full or view_kind(v) not in ("slices", "mixed", "ints")) else round_robin(names, 2, salt + i)
                    for n in use:
                        yield [list(sh), coords, n, v]
        if tier != "quick":
            yield from self._cross(tier, rng, salt)

    def run_impl(self, case):
        sh, coords, name, view = case
        env = env_for(sh, coords)
        cid = env.attrs[name][0]
        full = env.d[cid]
        v = py_view(view, sh)
        try:
            viewed = env.d[cid, v]
        except IndexError:
            viewed = "index-error"
        else:
            viewed = canon_arr(viewed)
        return [canon_arr(full), viewed]

    def line(self, case, pyout):
        sh, coords, name, view = case
        env = env_for(sh, coords)
        return sx(["attr", [sh, env.attrs[name][1], view_sx(view)], pyout])

    def nontrivial(self, case, po):
        return case[3] not in ("N", "E")

    def signature(self, case, po, res):
        kind = case[2].rstrip("0123456789")
        return {"kind": kind, "view": view_kind(case[3]), "negint": view_has_neg_int(case[3])}

    def shrink(self, case):
        sh, coords, name, view = case
        for v in shrink_view(view, sh):
            yield [sh, coords, name, v]


class MaskViews(Base):
    """`data.get_mask(state)` and `data.get_mask(state, view)` for every selection class."""
    name = "mask"
    exhaustive = False
    budget_share = 1.6

    def _cross(self, tier, rng, salt):
        """selections on the ids of a second / third dataset, pixel-linked in every axis order: every selection under
        every grid view (the views a pixel-space shortcut may take), a rotating part of them under the others"""
        for sh in CROSS_SHAPES[tier]:
            for ei, key in enumerate(cross_variants(len(sh), tier)):
                names = cross_state_names(env_for(sh, key), tier, salt + ei)
                grid, other = cross_views(sh, rng, tier)
                for v in grid:
                    for n in names:
                        yield [list(sh), key, n, v]
                per = max(4, len(names) // (5 if tier == "quick" else 2))
                for i, v in enumerate(other):
                    for n in round_robin(names, per, salt + i):
                        yield [list(sh), key, n, v]

    def cases(self, tier, rng):
        m = 3 if tier == "quick" else 4
        salt = rng.randrange(1 << 20)
        # the quick-sized cross-dataset core comes first in both tiers (a family that stops on its budget has run it)
        yield from self._cross("quick", rng, salt)
        for sh in shapes_upto(3, m):
            nd = len(sh)
            size = int(np.prod(sh))
            for v in single_element_views(sh, rng, tier):
                # formerly the finding stratum (C04h, C04i): the chunked ROI tests and the looping
                # categorical classes under views that select a single element / index arrays with >= 2 axes
                for n in FORMER_LOUD:
                    if n in applicable_states(nd, "none"):
                        yield [list(sh), "none", n, v]
            for coords in (["none", "aff"] if nd <= 2 else ["none"]):
                names = applicable_states(nd, coords)
                if coords != "none":
                    names = ["range_world", "and_1"]
                vs = sampled_basic_views(sh, rng, tier) + array_views(sh, rng, 8 if tier == "quick" else 24)
                full = (nd == 1) or (tier == "thorough" and size <= 6)
                per = (4 if nd == 2 else 3) if tier == "quick" else 6
                for i, v in enumerate(vs):
                    use = names if (full or view_kind(v) not in ("slices", "mixed", "ints")) else round_robin(names, per, salt + i)
                    for n in use:
                        yield [list(sh), coords, n, v]
        if tier != "quick":
            yield from self._cross(tier, rng, salt)

    def _eval(self, case):
        sh, coords, name, view = case
        env = env_for(sh, coords)
        built = build_state(env, name)
        st, desc = built
        self._keep = (st, built)
        desc = resolve_desc(env, desc)
        full = canon_mask(env.d.get_mask(st))
        v = py_view(view, sh)
        try:
            viewed = canon_mask(env.d.get_mask(st, view=v))
        except (IndexError, TypeError) as e:
            viewed = ["py-exception", type(e).__name__]
        self._desc = desc
        return [full, viewed]

    def run_impl(self, case):
        self._desc = None
        return self._eval(case)

    def line(self, case, pyout):
        sh, coords, name, view = case
        desc = self._desc
        if desc is None:  # replay path after an exception in run_impl: rebuild the description
            env = env_for(sh, coords)
            desc = resolve_desc(env, build_state(env, name)[1])
        return sx(["mask", [sh, desc, view_sx(view)], pyout])

    def nontrivial(self, case, po):
        return case[3] not in ("N", "E")

    def signature(self, case, po, res):
        name = case[2]
        return {"state": name.rstrip("0123456789").rstrip("_"), "view": view_kind(case[3])}

    def shrink(self, case):
        sh, coords, name, view = case
        for v in shrink_view(view, sh):
            yield [sh, coords, name, v]


def index_tuples(shape):
    for ix in itertools.product(*[[None] + list(range(s)) for s in shape]):
        yield list(ix)


def changed_indices(ix, shape, rng):
    out = []
    for i, s in zip(ix, shape):
        out.append(None if i is None else rng.randrange(s))
    return out


def reduced_shape(shape, ix):
    return [s for s, i in zip(shape, ix) if i is None]


class IndexedBase(Base):
    def _views(self, rsh, rng, tier):
        if not rsh:
            return ["N"]
        vs = list(basic_views(rsh))
        if len(vs) > 24:
            keep = [v for v in vs if v in ("N", "E")] + rng.sample(vs, min(len(vs), 8 if tier == "quick" else 40))
            vs = keep
        return vs + array_views(rsh, rng, 3 if tier == "quick" else 8)


class IdxAttr(IndexedBase):
    """`IndexedData.get_data(cid, view)` for every index tuple, before and after a change of indices."""
    name = "idxattr"
    budget_share = 1.6

    def cases(self, tier, rng):
        m = 3 if tier == "quick" else 4
        for sh in shapes_upto(3, m):
            nd = len(sh)
            for coords in (["none", "aff"] if int(np.prod(sh)) <= 12 or tier == "thorough" else ["none"]):
                for ix in index_tuples(sh):
                    rsh = reduced_shape(sh, ix)
                    if coords != "none" and not rsh:
                        continue  # astropy refuses to slice a WCS down to zero dimensions
                    ix1 = changed_indices(ix, sh, rng)
                    names = ["stored", "cat", "der", "linked"] + ["ipixel%d" % k for k in range(len(rsh))]
                    if coords != "none":
                        names = ["stored"] + ["iworld%d" % k for k in range(len(rsh))]
                    vs = self._views(rsh, rng, tier)
                    for i, v in enumerate(vs):
                        for n in (names if len(vs) < 6 else round_robin(names, 2 if tier == "quick" else 3, i)):
                            yield [list(sh), coords, ix, ix1, n, v]

    def _cid(self, env, idd, name):
        if name.startswith("ipixel"):
            return idd.pixel_component_ids[int(name[6:])]
        if name.startswith("iworld"):
            return idd.world_component_ids[int(name[6:])]
        return env.attrs[name][0]

    def _parent_desc(self, env, ix, name):
        free = [i for i, x in enumerate(ix) if x is None]
        if name.startswith("ipixel"):
            return ["ipixel", int(name[6:])], env.d.pixel_component_ids[free[int(name[6:])]]
        if name.startswith("iworld"):
            k = int(name[6:])
            return ["iworld", coord_sx(env.coords, len(env.shape)), k], env.d.world_component_ids[free[k]]
        return env.attrs[name][1], env.attrs[name][0]

    def run_impl(self, case):
        sh, coords, ix0, ix1, name, view = case
        env = env_for(sh, coords)
        idd = IndexedData(env.d, tuple(ix0))
        self._keep = idd
        pcid = self._parent_desc(env, ix0, name)[1]
        pfull = canon_arr(env.d[pcid])
        rsh = reduced_shape(sh, ix0)
        v = py_view(view, rsh)
        outs = []
        for ix in (ix0, ix1):
            if ix is not ix0:
                idd.indices = tuple(ix)
            try:
                outs.append(canon_arr(idd.get_data(self._cid(env, idd, name), view=v)))
            except IndexError:
                outs.append("index-error")
        return [pfull] + outs

    def line(self, case, pyout):
        sh, coords, ix0, ix1, name, view = case
        env = env_for(sh, coords)
        return sx(["idxattr", [sh, ix0, ix1, self._parent_desc(env, ix0, name)[0], view_sx(view)], pyout])

    def nontrivial(self, case, po):
        return any(i is not None for i in case[2])

    def signature(self, case, po, res):
        return {"kind": case[4].rstrip("0123456789"), "view": view_kind(case[5])}

    def shrink(self, case):
        sh, coords, ix0, ix1, name, view = case
        for v in shrink_view(view, reduced_shape(sh, ix0)):
            yield [sh, coords, ix0, ix1, name, v]
        if ix1 != ix0:
            yield [sh, coords, ix0, ix0, name, view]


IDX_STATES = ["range", "range_pix", "ineq_pix", "category", "roi_pix_a", "roi_pix_b", "roi_nd", "slice_a", "slice_c",
              "slice_aligned", "mask_same", "mask_perm", "element", "and_2", "xor_1", "inv_1", "mor_1", "base",
              "roi_pre", "catmulti", "catroi2d_x"]


IDX_CROSS = ["xroi1d_0", "xroi2d_0", "xroi2d_1", "froi2d_0", "xroi_pre", "xslice_a", "xslice_c", "fslice_c", "xmask", "fmask",
             "xrange_pix0", "xand", "xmor", "xpixelstate", "xroi3d"]


def split_name(name):
    """`state@x:…` = a selection on the ids of a pixel-linked dataset in the cross environment `x:…`"""
    if "@" in name:
        n, key = name.split("@", 1)
        return n, key
    return name, "none"


class IdxMask(IndexedBase):
    """`IndexedData.get_mask(state, view)` for every index tuple, before and after a change of indices."""
    name = "idxmask"
    budget_share = 1.6

    def _cross(self, tier, rng):
        """the parent's selections are defined on the ids of a second / third dataset pixel-linked in every order"""
        for sh in ([[2, 3], [2, 3, 4]] if tier == "quick" else [[2, 3], [3, 3], [2, 3, 4], [2, 2, 3]]):
            for ei, key in enumerate(cross_variants(len(sh), tier)):
                avail = cross_state_names(env_for(sh, key))
                names = [n for n in IDX_CROSS if n in avail]
                for xi, ix in enumerate(index_tuples(sh)):
                    rsh = reduced_shape(sh, ix)
                    ix1 = changed_indices(ix, sh, rng)
                    vs = self._views(rsh, rng, tier)
                    if tier == "quick" and len(vs) > 5:
                        vs = vs[:2] + [vs[i] for i in sorted(rng.sample(range(2, len(vs)), 3))]
                    for i, v in enumerate(vs):
                        for n in round_robin(names, 2 if tier == "quick" else 3, i + xi * 3 + ei):
                            yield [list(sh), ix, ix1, n + "@" + key, v]

    def cases(self, tier, rng):
        m = 3 if tier == "quick" else 4
        yield from self._cross("quick", rng)
        if tier != "quick":
            yield from self._cross(tier, rng)
        for sh in shapes_upto(3, m):
            nd = len(sh)
            names = [n for n in IDX_STATES if n in applicable_states(nd, "none")]
            for ix in index_tuples(sh):
                rsh = reduced_shape(sh, ix)
                ix1 = changed_indices(ix, sh, rng)
                vs = self._views(rsh, rng, tier)
                for i, v in enumerate(vs):
                    for n in (names if tier == "thorough" and int(np.prod(sh)) <= 8 else round_robin(names, 3 if tier == "quick" else 4, i + len(ix) * 7)):
                        yield [list(sh), ix, ix1, n, v]

    def run_impl(self, case):
        sh, ix0, ix1, name, view = case
        name, key = split_name(name)
        env = env_for(sh, key)
        st, desc = build_state(env, name)
        idd = IndexedData(env.d, tuple(ix0))
        self._keep = (idd, st)
        self._desc = resolve_desc(env, desc)
        pfull = canon_mask(env.d.get_mask(st))
        v = py_view(view, reduced_shape(sh, ix0))
        outs = []
        for ix in (ix0, ix1):
            if ix is not ix0:
                idd.indices = tuple(ix)
            try:
                outs.append(canon_mask(idd.get_mask(st, view=v)))
            except IndexError:
                outs.append("index-error")
        return [pfull] + outs

    def line(self, case, pyout):
        sh, ix0, ix1, name, view = case
        desc = getattr(self, "_desc", None)
        if desc is None:
            name, key = split_name(name)
            env = env_for(sh, key)
            desc = resolve_desc(env, build_state(env, name)[1])
        self._desc = None
        return sx(["idxmask", [sh, ix0, ix1, desc, view_sx(view)], pyout])

    def nontrivial(self, case, po):
        return any(i is not None for i in case[1])

    def signature(self, case, po, res):
        return {"state": split_name(case[3])[0].rstrip("0123456789").rstrip("_"), "view": view_kind(case[4])}

    def shrink(self, case):
        sh, ix0, ix1, name, view = case
        for v in shrink_view(view, reduced_shape(sh, ix0)):
            yield [sh, ix0, ix1, name, v]
        if ix1 != ix0:
            yield [sh, ix0, ix0, name, view]


class IdxStat(Base):
    """`IndexedData.compute_statistic / compute_histogram` against the parent slice (exact integers),
    before and after a change of indices."""
    name = "idxstat"
    exhaustive = False  # quick skips some (index tuple, selection) pairs at random
    budget_share = 0.5

    WHATS = [["stat", "sum"], ["stat", "minimum"], ["stat", "maximum"], ["hist"], ["stataxis", "sum"], ["stataxis", "maximum"]]

    def cases(self, tier, rng):
        m = 3 if tier == "quick" else 4
        for sh in shapes_upto(3, m):
            for ix in index_tuples(sh):
                if all(i is not None for i in ix) and len(sh) > 1 and tier == "quick" and rng.random() < 0.5:
                    continue
                ix1 = changed_indices(ix, sh, rng)
                for what in self.WHATS:
                    if what[0] == "stataxis":
                        if any(i is None for i in ix):
                            yield [list(sh), ix, ix1, what, None]
                        continue
                    for sub in (None, "ineq", "roi_pix_a", "slice_a"):
                        if tier == "quick" and sub not in (None, "ineq") and rng.random() < 0.6:
                            continue
                        yield [list(sh), ix, ix1, what, sub]

    def run_impl(self, case):
        sh, ix0, ix1, what, sub = case
        env = env_for(sh, "none")
        idd = IndexedData(env.d, tuple(ix0))
        st = None
        self._mask = None
        if sub is not None:
            st = build_state(env, sub)[0]
            self._mask = [bool(b) for b in np.asarray(env.d.get_mask(st)).ravel().tolist()]
        self._keep = (idd, st)
        x = env.d.id["x"]
        outs = []
        for ix in (ix0, ix1):
            if ix is not ix0:
                idd.indices = tuple(ix)
            if what[0] == "stat":
                r = idd.compute_statistic(what[1], x, subset_state=st)
                r = float(r)
                outs.append("nan" if np.isnan(r) else q_sx(r))
            elif what[0] == "stataxis":
                r = np.asarray(idd.compute_statistic(what[1], x, axis=0), dtype=float)
                outs.append(["nan" if np.isnan(v) else q_sx(v) for v in r.ravel().tolist()])
            else:
                h = idd.compute_histogram([x], range=[(-0.5, 10.5)], bins=[11], subset_state=None if st is None else st.copy())
                outs.append([int(c) for c in np.asarray(h).ravel().tolist()])
        return outs

    def line(self, case, pyout):
        sh, ix0, ix1, what, sub = case
        env = env_for(sh, "none")
        w = ["hist", 0, 11] if what[0] == "hist" else what
        return sx(["idxstat", [sh, ix0, ix1, canon_vals(env.xv), self._mask if sub is not None else None, w], pyout])

    def nontrivial(self, case, po):
        return any(i is not None for i in case[1])

    def signature(self, case, po, res):
        return {"what": case[3][0], "sub": case[4]}


class OutOfDomain(Base):
    """Negative-step slices are outside the property's stated domain: this stratum only *reports*
    whether the view of the result agrees with the viewed result (branch counts in the evidence);
    it is never a violation."""
    name = "ood"
    budget_share = 0.2

    def cases(self, tier, rng):
        for sh in shapes_upto(3, 3):
            nd = len(sh)
            for v in ood_views(sh, rng, 6 if tier == "quick" else 40):
                for n in ["stored", "pixel0", "linked"]:
                    yield [list(sh), "attr", n, v]
                for n in ["slice_a", "roi_pix_a", "mask_same", "element", "range", "inv_1"]:
                    yield [list(sh), "mask", n, v]

    def run_impl(self, case):
        sh, what, name, view = case
        env = env_for(sh, "none")
        v = py_view(view, sh)
        try:
            if what == "attr":
                cid = env.attrs[name][0]
                full, got = np.asarray(env.d[cid]), np.asarray(env.d[cid, v])
            else:
                st = build_state(env, name)[0]
                self._keep = st
                full, got = np.asarray(env.d.get_mask(st)), np.asarray(env.d.get_mask(st, view=v))
        except Exception as e:  # noqa
            return ["raises", type(e).__name__]
        exp = full[v]
        return ["agree" if (exp.shape == got.shape and np.array_equal(exp, got)) else "differ", name]

    def line(self, case, pyout):
        return sx(["ood", [case[1], case[2]], pyout])


class Classes(Base):
    """Every `SubsetState` subclass found by introspection has a generator that builds an instance of
    exactly that class (a new class without one fails here)."""
    name = "cls"
    exhaustive = True
    max_jobs = 1
    budget_share = 0.1

    def cases(self, tier, rng):
        for c in scan_subset_classes():
            yield c.__name__

    def run_impl(self, case):
        if case in ABSTRACT:
            return "covered"
        if case not in CLASS_GENERATORS:
            raise RuntimeError("SubsetState subclass without a C04 generator: " + case)
        cls = [c for c in scan_subset_classes() if c.__name__ == case][0]
        for gen in CLASS_GENERATORS[case]:
            hit = False
            for sh in ([3], [2, 3], [2, 3, 2]):
                env = env_for(sh, "aff" if gen == "range_world" else "none")
                if gen not in applicable_states(len(sh), env.coords):
                    continue
                st = build_state(env, gen)[0]
                if type(st) is not cls:
                    raise RuntimeError("generator %s builds %s, not %s" % (gen, type(st).__name__, case))
                hit = True
            if not hit:
                raise RuntimeError("generator %s is never applicable" % gen)
        return "covered"

    def line(self, case, pyout):
        return sx(["cls", case, pyout])


THEOREMS = ["C04." + t for t in (
    "index_tabulate viewPoints_in_range pixel_view_values pixel_view attr_view attr_view_values derived_view world_view "
    "roi_pixel_shortcut_values roi_pixel_shortcut_view slice_state_view slice_state_values mask_state_view "
    "mask_state_general_view element_state_view state_view state_view_values "
    "chunked_roi_scalar_view_pinned_raises loop1d_scalar_view_pinned_raises cross_pixel_axis_map "
    "cross_pixel_axis_forward_wrong cross_roi_shortcut_inverse_ok cross_roi_view cross_slice_view cross_slice_point cross_mask_view indexed_get indexed_pixel indexed_mask "
    "indexed_after_reindex indexed_histogram_selection").split()]

PROP = Property(
    id="C04",
    title="Views of masks and attribute values equal the same view of the full array",
    theorems=THEOREMS,
    families=[Classes(), NpIdx(), AttrViews(), MaskViews(), IdxAttr(), IdxMask(), IdxStat(), OutOfDomain()],
    trusted_base=["numpy basic / advanced / Boolean indexing (L0 model `viewPoints`, validated against numpy by the npidx family on "
                  "the whole view domain); numpy broadcasting / unbroadcast by value semantics (C20); elementwise selection "
                  "predicates of classes without a view fast path are measured on the implementation (`table` leaves)"],
    assumptions=["no key joins (Data.get_mask fallback not exercised); parameters and data are not mutated during a case (C05)"],
    rule="shapes <= 3-d with dims <= 3 (quick) / 4 (thorough) x the whole basic view domain (one raw slice per distinct selection of "
         "each axis plus alternative spellings, every integer incl. negative ones, every tuple length <= ndim, bare items, None, "
         "Ellipsis) + seeded tuples of index arrays and Boolean masks, x every attribute kind x every selection class found by "
         "introspection; the same for attributes and selections defined on the ids of a second / third dataset pixel-linked in "
         "every axis order (all permutations of <= 3 axes, partial links, longer grids; shapes up to [2,3,4]) under every view "
         "kind, every selection under every slices-only view; IndexedData for every index tuple and a change of indices; "
         "non-trivial = a view other than None/Ellipsis "
         "(reduced datasets: at least one axis removed)",
)
