"""C20 — chunk, slice and broadcast helpers are exact (glue/utils/array.py)."""
import itertools

from harness.core import Family, Property, use_repo

use_repo()
import numpy as np  # noqa: E402
from numpy.lib.stride_tricks import as_strided  # noqa: E402
from glue.utils import array as A  # noqa: E402


def shapes(maxdim, maxlen, lo=1):
    for nd in range(1, maxdim + 1):
        yield from itertools.product(range(lo, maxlen + 1), repeat=nd)


class Fcs(Family):
    name = "fcs"
    exhaustive = True

    def cases(self, tier, rng):
        m = 5 if tier == "quick" else 7
        for sh in shapes(3, m):
            for n in range(1, int(np.prod(sh)) + 3):
                yield [list(sh), n]
        if tier == "thorough":
            for sh in shapes(4, 4):
                if len(sh) == 4:
                    for n in range(1, int(np.prod(sh)) + 3):
                        yield [list(sh), n]

    def run_impl(self, case):
        sh, n = case
        return list(A.find_chunk_shape(tuple(sh), n))

    def nontrivial(self, case, po):
        return po != [str(x) for x in case[0]]


class Iter(Family):
    name = "iter"
    exhaustive = True

    def cases(self, tier, rng):
        m = 4 if tier == "quick" else 6
        # zero-size shapes and argument errors
        yield [[0], None, 3]
        yield [[2, 0], [1, 1], None]
        yield [[2, 2], None, None]
        yield [[2, 2], [1, 1], 2]
        yield [[2, 2], [1], None]
        yield [[2, 2], [3, 1], None]
        # ndim = 0: a 0-d array has exactly one element, hence exactly one (empty) chunk (fix C04h; the
        # pinned tree yielded it and then raised IndexError); argument errors are still ValueError
        for n in (1, 2, 7, 1000000):
            yield [[], None, n]
        yield [[], [], None]
        yield [[], None, None]
        yield [[], [], 3]
        yield [[], [1], None]
        for sh in shapes(3, m):
            P = int(np.prod(sh))
            for n in range(1, P + 3):
                yield [list(sh), None, n]
            for cs in itertools.product(*[range(1, s + 1) for s in sh]):
                yield [list(sh), list(cs), None]
        if tier == "thorough":
            for sh in shapes(4, 3):
                if len(sh) == 4:
                    for cs in itertools.product(*[range(1, s + 1) for s in sh]):
                        yield [list(sh), list(cs), None]
            for _ in range(3000):
                nd = rng.randint(1, 4)
                sh = [rng.randint(1, 12) for _ in range(nd)]
                yield [sh, None, rng.randint(1, int(np.prod(sh)) + 2)]
                yield [sh, [rng.randint(1, s) for s in sh], None]

    def run_impl(self, case):
        sh, cs, n = case
        try:
            out = list(A.iterate_chunks(tuple(sh), chunk_shape=None if cs is None else tuple(cs), n_max=n))
        except ValueError:
            return "value-error"
        except IndexError:
            return "index-error"
        return [[[s.start, s.stop] for s in ch] for ch in out]

    def nontrivial(self, case, po):
        return isinstance(po, list) and len(po) > 1


def slice_args(tier):
    vals = [None] + list(range(-3, 10)) if tier == "quick" else [None] + list(range(-4, 12))
    return vals


class Comb(Family):
    name = "comb"
    exhaustive = True
    batch = 5000

    def cases(self, tier, rng):
        # normalised triples, exhaustive
        L = 7 if tier == "quick" else 9
        for n in range(0, L + 1):
            tr = [(b, e, s) for b in range(0, n + 1) for e in range(0, n + 1) for s in range(1, min(n, 4) + 2)]
            for t1 in tr:
                for t2 in tr:
                    yield [n, list(t1), list(t2)]
        # raw slices with None / negative / out-of-range entries, and negative steps (ValueError)
        raw = [None, -12, -3, -1, 0, 1, 2, 5, 9, 30]
        steps = [None, 1, 2, 3, 7, -1, -2]
        for n in (0, 1, 5, 9):
            for a, b, c in itertools.product(raw, raw, steps):
                for d, e, f in ((None, None, None), (1, None, 2), (-4, -1, 1), (2, 30, 3), (None, 4, -1)):
                    yield [n, [a, b, c], [d, e, f]]
                    yield [n, [d, e, f], [a, b, c]]
        nr = 20000 if tier == "quick" else 400000
        for _ in range(nr):
            n = rng.randint(0, 60)

            def t():
                return [rng.choice([None, rng.randint(-n - 3, n + 3)]), rng.choice([None, rng.randint(-n - 3, n + 3)]),
                        rng.choice([None, 1, 1, 2, 3, rng.randint(1, 12)])]
            yield [n, t(), t()]

    def run_impl(self, case):
        n, t1, t2 = case
        try:
            s = A.combine_slices(slice(*t1), slice(*t2), n)
        except ValueError:
            return "value-error"
        return [s.start, s.stop, s.step]

    def nontrivial(self, case, po):
        return isinstance(po, list) and po != ["0", "0", "1"]


class SliceIndices(Family):
    """L0: the model of Python's slice.indices against CPython itself."""
    name = "slidx"
    exhaustive = True
    batch = 10000

    def cases(self, tier, rng):
        L = 8 if tier == "quick" else 12
        R = 10 if tier == "quick" else 15
        vals = [None] + list(range(-R, R + 1))
        steps = [None, 1, 2, 3, 5, -1, -2, -3, -5]
        for n in range(0, L + 1):
            for a in vals:
                for b in vals:
                    for c in steps:
                        yield [n, [a, b, c]]

    def run_impl(self, case):
        n, (a, b, c) = case
        return list(slice(a, b, c).indices(n))


class Unbroadcast(Family):
    name = "unb"
    exhaustive = True

    def cases(self, tier, rng):
        m = 3 if tier == "quick" else 4
        for sh in shapes(3, m):
            nd = len(sh)
            # contiguous strides of the *unbroadcast* base, then zero some of them
            for zero in itertools.product([False, True], repeat=nd):
                base = [1 if z else s for s, z in zip(sh, zero)]
                st, acc = [], 1
                for s in reversed(base):
                    st.append(acc)
                    acc *= s
                st = list(reversed(st))
                st = [0 if z else x for x, z in zip(st, zero)]
                yield [list(sh), st]

    def run_impl(self, case):
        sh, st = case
        size = 1 + sum((s - 1) * t for s, t in zip(sh, st))
        base = np.arange(size, dtype=np.int64)
        arr = as_strided(base, shape=tuple(sh), strides=tuple(t * 8 for t in st), writeable=False)
        u = A.unbroadcast(arr)
        back = np.broadcast_to(u, arr.shape)
        eq = bool(np.array_equal(back, arr)) and back.shape == arr.shape
        return [list(u.shape), [0 if n == 1 else x // 8 for n, x in zip(u.shape, u.strides)], eq]

    def nontrivial(self, case, po):
        return po[0] != [str(x) for x in case[0]]


class ViewShape(Family):
    name = "vshape"
    exhaustive = True
    batch = 5000

    def cases(self, tier, rng):
        m = 3 if tier == "quick" else 4
        sl = [None, 0, 1, 2, -1, 5] if tier == "quick" else [None, 0, 1, 2, 3, -1, -2, 6]
        items = [["i", i] for i in (0, 1, -1, 3, -4)] + [["s", a, b, c] for a in sl for b in sl for c in (None, 1, 2, -1)]
        for sh in shapes(3, m):
            for k in range(0, len(sh) + 1):
                if k <= 1:
                    for v in itertools.product(items, repeat=k):
                        yield [list(sh), [list(x) for x in v]]
                else:
                    n = 300 if tier == "quick" else 3000
                    for _ in range(n):
                        yield [list(sh), [list(rng.choice(items)) for _ in range(k)]]

    @staticmethod
    def _view(v):
        return tuple(x[1] if x[0] == "i" else slice(x[1], x[2], x[3]) for x in v)

    def run_impl(self, case):
        sh, v = case
        view = self._view(v)
        try:
            actual = list(np.zeros(tuple(sh))[view].shape)
        except IndexError:
            actual = "index-error"
        try:
            pred = list(A.view_shape(tuple(sh), view))
        except IndexError:
            pred = "index-error"
        if pred == "index-error" and actual == "index-error":
            return "index-error"
        return [pred, actual]

    def nontrivial(self, case, po):
        return isinstance(po, list)


class Unique(Family):
    name = "uniq"
    exhaustive = True

    def cases(self, tier, rng):
        L = 5 if tier == "quick" else 7
        for n in range(0, L + 1):
            for xs in itertools.product((-1, 0, 2), repeat=n):
                yield list(xs)
        for _ in range(500 if tier == "quick" else 20000):
            yield [rng.randint(-5, 5) for _ in range(rng.randint(0, 12))]

    def line(self, case, pyout):
        from harness.core import sx
        return sx(["uniq", case, pyout])

    def run_impl(self, case):
        U, I = A.unique(np.array(case, dtype=np.int64))
        c = A.categorical_ndarray(np.array([str(x) for x in case]))
        # categorical_ndarray must satisfy categories[codes] == values as well
        if len(case):
            assert list(c.categories[c.codes.astype(int)]) == [str(x) for x in case]
        return [[int(x) for x in U], [int(i) for i in I]]

    def nontrivial(self, case, po):
        return len(case) >= 2


class CatNd(Unique):
    """categorical_ndarray over single-letter strings (sent as code points), 1-d and 2-d."""
    name = "catnd"

    def cases(self, tier, rng):
        L = 4 if tier == "quick" else 6
        for n in range(1, L + 1):
            for xs in itertools.product((97, 98, 100), repeat=n):
                yield list(xs)
        for _ in range(300 if tier == "quick" else 5000):
            yield [rng.choice([65, 66, 90, 97, 98, 122]) for _ in range(rng.randint(1, 12))]

    def line(self, case, pyout):
        from harness.core import sx
        return sx(["uniq", case, pyout])

    def run_impl(self, case):
        vals = np.array([chr(x) for x in case])
        if len(case) % 2 == 0 and len(case) >= 4:
            vals = vals.reshape((2, -1))
        c = A.categorical_ndarray(vals)
        return [[ord(x) for x in c.categories], [int(i) for i in np.asarray(c.codes).ravel()]]


class CatDerived(Family):
    """categorical_ndarray objects DERIVED from another one (numpy calls __array_finalize__, which hands
    the parent's categories down; codes are then looked up again): reversal, permutation, roll, sort,
    slices, views, copies, boolean/fancy indexing, 2-d transpose — each with and without the parent's
    codes/categories having been read first, and with explicit categories=.  The derivation itself is
    numpy's (L0); the observable is (categories, codes) of the derived array."""
    name = "catder"
    exhaustive = True
    OPS = ["rev", "roll1", "sort", "copy", "view", "full", "head", "tail", "step2", "perm", "mask", "T", "ravelT", "take0"]

    def cases(self, tier, rng):
        L = 4 if tier == "quick" else 5
        for n in range(1, L + 1):
            for xs in itertools.product((97, 98, 100), repeat=n):
                for op in self.OPS:
                    for touch in (0, 1, 2, 3):
                        yield [list(xs), op, touch]
        for _ in range(400 if tier == "quick" else 8000):
            xs = [rng.choice([65, 66, 90, 97, 98, 122]) for _ in range(rng.randint(1, 10))]
            yield [xs, rng.choice(self.OPS), rng.randint(0, 3)]

    @staticmethod
    def _derive(c, op, n):
        if op == "rev":
            return c[::-1]
        if op == "roll1":
            return np.roll(c, 1)
        if op == "sort":
            return np.sort(c)
        if op == "copy":
            return c.copy()
        if op == "view":
            return c.view()
        if op == "full":
            return c[:]
        if op == "head":
            return c[:max(1, n // 2)]
        if op == "tail":
            return c[n // 2:]
        if op == "step2":
            return c[::2]
        if op == "perm":
            return c[np.array([(i * 3 + 1) % n for i in range(n)] if n % 3 else list(range(n - 1, -1, -1)))]
        if op == "mask":
            return c[np.array([i % 2 == 0 for i in range(n)])]
        if op == "take0":
            return c[np.zeros(n, dtype=int)]
        if op in ("T", "ravelT"):
            if n >= 4 and n % 2 == 0:
                d = c.reshape((2, -1)).T
                return d if op == "T" else d.ravel()
            return c[::-1]
        raise ValueError(op)

    def run_impl(self, case):
        xs, op, touch = case
        vals = np.array([chr(x) for x in xs])
        if touch == 3:  # explicit categories (sorted unique), as the data factories pass them
            c = A.categorical_ndarray(vals, categories=np.unique(vals))
        else:
            c = A.categorical_ndarray(vals)
        if touch == 1:
            c.codes
        elif touch == 2:
            c.categories
        d = self._derive(c, op, len(xs))
        if not isinstance(d, A.categorical_ndarray):
            return "not-categorical"
        dv = [ord(x) for x in np.asarray(d).ravel().tolist()]
        codes = np.asarray(d.codes, dtype=float).ravel()
        cats = [ord(x) for x in np.asarray(d.categories).tolist()]
        self._dv = dv
        return [dv, cats, [None if np.isnan(k) else int(k) for k in codes]]

    def line(self, case, pyout):
        from harness.core import sx
        xs, op, touch = case
        if isinstance(pyout, list) and len(pyout) == 3 and pyout[0] != "py-exception":
            return sx(["catder", [xs, pyout[0], op], [pyout[1], pyout[2]]])
        return sx(["catder", [xs, [], op], pyout])

    def nontrivial(self, case, po):
        return isinstance(po, list) and len(po) == 3 and po[0] != [str(x) for x in case[0]]


# ------------------------------------------------------------------------------------------
# Round 3: memory layout as an independent dimension of every array-taking helper
# ------------------------------------------------------------------------------------------
# A layout is [order, perm, step, rev, bc, swap, ro]:
#   order 'C'|'F'  : order of the underlying buffer
#   perm           : arr = mem.transpose(perm)  (axis i of the logical array is memory axis perm[i])
#   step[i]        : logical axis i is a step-sliced view of a larger buffer (1: [::2], 2: [1::2])
#   rev[i]         : logical axis i has a negative stride
#   bc[i]          : logical axis i is a broadcast (stride 0) axis — needs values constant along it
#   swap           : non-native byte order;  ro : read-only view
# All of them are built with numpy around ONE logical array: values are written and read back by
# plain indexing over np.ndindex only (never ravel/reshape), so neither the construction nor the
# transport to the Lean driver depends on the layout.

FILL = 126  # '~' / 126: what the gaps of step-sliced buffers hold


def _enc(dt, v):
    if dt == "i8":
        return v
    if dt == "U3":  # coerce_numeric: decimal numerals, -1 = a non-numeric word
        return str(v) if v >= 0 else "x"
    return chr(v)


def _dec(dt, x):
    if dt == "O":
        return ord(x)
    x = x.item()
    if dt == "i8":
        return int(x)
    if dt == "U3":
        return int(x) if x.isdigit() else -1
    return ord(x)


def _dtype(dt, swap):
    if dt == "O":
        return np.dtype(object)
    return np.dtype((">" if swap else "<") + dt)


def lay_buffer(shape, lay, dt):
    """(buffer filled with FILL, tuple of per-memory-axis slices, perm) for a layout."""
    order, perm, step, rev, bc, swap, ro = lay
    nd = len(shape)
    bshape, sl = [0] * nd, [None] * nd
    for i in range(nd):
        j, n = perm[i], shape[i]
        if bc[i]:
            bshape[j], sl[j] = 1, slice(None)
            continue
        if step[i] == 1:
            L, first, st = max(2 * n - 1, 0), 0, 2
        elif step[i] == 2:
            L, first, st = 2 * n, 1, 2
        else:
            L, first, st = n, 0, 1
        bshape[j] = L
        if rev[i] and n > 0:
            last = first + (n - 1) * st
            stop = first - st
            sl[j] = slice(last, stop if stop >= 0 else None, -st)
        else:
            sl[j] = slice(first, None, st)
    buf = np.empty(tuple(bshape), dtype=_dtype(dt, swap), order=order)
    buf[...] = _enc(dt, FILL) if dt != "U3" else "7"
    return buf, tuple(sl)


def lay_view(buf, sl, shape, lay):
    """The array in the requested layout, as a view of `buf` (an ndarray or a subclass)."""
    order, perm, step, rev, bc, swap, ro = lay
    v = buf[sl].transpose(perm) if len(shape) else buf
    if any(bc):
        v = np.broadcast_to(v, tuple(shape), subok=True)
    if ro:
        v = v.view()
        v.setflags(write=False)
    return v


def lay_build(shape, vals, lay, dt):
    """(array in layout `lay` whose logical content is (shape, vals), its buffer)."""
    bc = lay[4]
    buf, sl = lay_buffer(shape, lay, dt)
    w = buf[sl].transpose(lay[1]) if len(shape) else buf
    for idx, v in zip(np.ndindex(*shape), vals):
        w[tuple(0 if b else k for k, b in zip(idx, bc))] = _enc(dt, v)
    return lay_view(buf, sl, shape, lay), buf, sl


def logical(arr, dt):
    """Row-major logical values, read by plain indexing."""
    return [_dec(dt, arr[idx]) for idx in np.ndindex(*arr.shape)]


def plain_layout(nd):
    return ["C", list(range(nd)), [0] * nd, [False] * nd, [False] * nd, False, False]


def _norm_layout(shape, lay):
    """Features on length-1 (or empty) axes change nothing: neutralise them so duplicates collapse."""
    order, perm, step, rev, bc, swap, ro = lay
    step = [0 if n <= 1 else s for n, s in zip(shape, step)]
    rev = [False if n <= 1 else r for n, r in zip(shape, rev)]
    return [order, list(perm), step, rev, list(bc), swap, ro]


def layouts_for(shape, bcmask, swap_ok, rng, n_random):
    """Every single-feature layout, the perm x step / perm x rev products, and random combinations.
    `bcmask`: axes along which the logical array is constant (so they may be stride-0 axes)."""
    nd = len(shape)
    ident = list(range(nd))
    F, Z = [False] * nd, [0] * nd
    perms = [list(p) for p in itertools.permutations(range(nd))]
    out = []

    def add(order="C", perm=ident, step=Z, rev=F, bc=F, swap=False, ro=False):
        out.append(_norm_layout(shape, [order, list(perm), list(step), list(rev), list(bc), swap, ro]))

    def unit(i, v=True):
        x = [False] * nd if v is True else [0] * nd
        x[i] = v
        return x

    add()
    add(order="F")
    for p in perms:
        if p != ident:
            add(perm=p)
            add(order="F", perm=p)
    # (arrays that are constant along some axes exist for the broadcast layouts below: the strided
    # products have already been run on the unconstrained arrays of the same shape)
    for i in range(nd if not any(bcmask) else 0):
        add(rev=unit(i))
        add(step=unit(i, 1))
        add(step=unit(i, 2))
        add(order="F", step=unit(i, 1))
        for p in perms:
            if p != ident:
                add(perm=p, step=unit(i, 1))
                add(perm=p, rev=unit(i))
    if nd > 1 and not any(bcmask):
        add(rev=[True] * nd)
        add(step=[1] * nd)
        add(step=[2] * nd, rev=[True] * nd)
    add(ro=True)
    if nd > 1:
        add(ro=True, perm=perms[-1])
    if swap_ok:
        add(swap=True)
        add(swap=True, order="F")
        if nd > 1:
            add(swap=True, perm=perms[1], step=unit(0, 1))
    # broadcast axes: every non-empty sub-mask of the constant axes, alone and with the other dimensions
    ks = [i for i in range(nd) if bcmask[i]]
    for r in range(1, len(ks) + 1):
        for sub in itertools.combinations(ks, r):
            bc = [i in sub for i in range(nd)]
            add(bc=bc)
            for p in perms[1:]:
                add(bc=bc, perm=p)
            for i in range(nd):
                if not bc[i]:
                    add(bc=bc, step=unit(i, 1))
                    add(bc=bc, rev=unit(i))
            add(bc=bc, order="F")
    for _ in range(n_random):
        bc = [bool(bcmask[i]) and rng.random() < 0.4 for i in range(nd)]
        add(order=rng.choice("CF"), perm=rng.choice(perms), step=[rng.choice([0, 0, 1, 2]) for _ in range(nd)],
            rev=[rng.random() < 0.35 for _ in range(nd)], bc=bc, swap=swap_ok and rng.random() < 0.25,
            ro=rng.random() < 0.2)
    seen, res = set(), []
    for l in out:
        k = repr(l)
        if k not in seen:
            seen.add(k)
            res.append(l)
    return res


def _layout_class(lay):
    order, perm, step, rev, bc, swap, ro = lay
    permuted = perm != list(range(len(perm)))
    if any(bc):
        return "bcast"
    if permuted and any(step):
        return "perm-step"
    if permuted and any(rev):
        return "perm-rev"
    if permuted:
        return "perm"
    if any(step):
        return "step"
    if any(rev):
        return "rev"
    if swap:
        return "swapped"
    if order == "F":
        return "fortran"
    return "readonly" if ro else "plain"


class Layouts(Family):
    """Every array-taking helper (`unique`, `categorical_ndarray` — fresh, copied in every `order`, and
    derived from a parent —, `index_lookup`, `unbroadcast`, `broadcast_arrays_minimal`, `check_sorted`,
    `coerce_numeric`) on one logical array under every memory layout.  case =
    [helper, dtype, shape, values (row-major, logical), layout, extra]."""
    name = "lay"
    exhaustive = False
    batch = 400
    budget_share = 3.0

    CAT_MODES = [[False, None], [True, None], [True, "K"], [True, "F"], [True, "A"], [False, "F"], [True, "C"]]
    DER_POST = [None, "K", "F", "C", "A"]

    # ---- generation -------------------------------------------------------------------------
    @staticmethod
    def _shapes(tier):
        one = [[n] for n in ((1, 2, 3, 4, 5) if tier == "quick" else (1, 2, 3, 4, 5, 6, 7))]
        two = [list(s) for s in itertools.product((1, 2, 3), repeat=2)] + [[2, 4], [4, 2]]
        if tier == "quick":
            three = [list(s) for s in itertools.product((1, 2), repeat=3) if s != (1, 1, 1)]
            three += [list(p) for p in sorted(set(itertools.permutations((2, 2, 3))))]
            three += [[2, 3, 4], [3, 1, 2], [1, 3, 2]]
        else:
            three = [list(s) for s in itertools.product((1, 2, 3), repeat=3)]
            three += [list(p) for p in sorted(set(itertools.permutations((2, 3, 4))))]
            two += [[3, 4], [4, 3], [5, 2]]
        return one + two + three

    @staticmethod
    def _expanded(shape, mask, basevals):
        """Logical values of the array that is `basevals` (on the shape with 1 on masked axes) broadcast."""
        base = [1 if m else n for n, m in zip(shape, mask)]
        out = []
        for idx in np.ndindex(*shape):
            f = 0
            for k, n, m in zip(idx, base, mask):
                f = f * n + (0 if m else k)
            out.append(basevals[f])
        return out

    def _arrays(self, shape, tier, rng):
        """(values, constant-axes mask) pairs: all-distinct values in a scrambled order (any permutation
        of codes is visible), duplicates over a 3-letter alphabet, and arrays constant along axes."""
        size = int(np.prod(shape))
        nd = len(shape)
        none = [False] * nd
        d = list(range(97, 97 + size))
        rng.shuffle(d)
        yield d, none
        for _ in range(1 if tier == "quick" else 3):
            yield [rng.choice((97, 98, 100)) for _ in range(size)], none
        masks = [m for m in itertools.product([False, True], repeat=nd) if any(m) and all(shape[i] > 1 for i in range(nd) if m[i])]
        if tier == "quick" and len(masks) > 3:
            masks = rng.sample(masks, 3)
        for m in masks:
            base = int(np.prod([1 if mm else n for n, mm in zip(shape, m)]))
            b = list(range(97, 97 + base))
            rng.shuffle(b)
            yield self._expanded(shape, m, b), list(m)

    def _helper_cases(self, shape, vals, lay, tier, rng, k):
        """The helper variants run on one (array, layout); `k` rotates the less important variants."""
        swap = lay[5]
        size = len(vals)
        cats = sorted(set(vals))
        dts = ["i8", "U1"] if swap else ["i8", "U1", "O"]
        for dt in (dts if tier == "thorough" else [dts[k % len(dts)], dts[(k + 1) % len(dts)]]):
            yield ["uniq", dt, shape, vals, lay, None]
        modes = self.CAT_MODES if tier == "thorough" else self.CAT_MODES[:2] + [self.CAT_MODES[2 + k % 5]]
        for j, (cp, od) in enumerate(modes):
            yield ["cat", dts[(k + j) % len(dts)], shape, vals, lay, [cp, od]]
        for touch in ((0, 1, 2, 3) if tier == "thorough" else (k % 4,)):
            yield ["der", "U1" if (k + touch) % 3 else "i8", shape, vals, lay, [[], touch, self.DER_POST[(k + touch) % 5]]]
        item_sets = [cats, cats + [200, 201], cats[1:], cats[::-1]]
        for j in ((0, 1, 2, 3) if tier == "thorough" else (k % 4,)):
            yield ["look", "U1" if (k + j) % 2 else "i8", shape, vals, lay, item_sets[j]]
        yield ["unb", "i8" if k % 2 else "U1", shape, vals, lay, None]
        if not shape:  # 0-d: nothing to compare along an axis / broadcast against
            yield ["coerce", "U3", shape, [v - 97 for v in vals], lay, None]
            return
        partners = [list(shape), [shape[-1]], [1] * len(shape), [1 if i % 2 else n for i, n in enumerate(shape)], [2] + list(shape), [], [shape[-1] + 1]]
        for j in ((0, 1, 2, 3, 4, 5, 6) if tier == "thorough" else (k % 7, (k + 3) % 7)):
            ps = partners[j]
            yield ["bam", "i8", shape, vals, lay, [ps, list(range(int(np.prod(ps))))]]
        yield ["sorted", "i8" if k % 2 else "U1", shape, vals, lay, None]
        yield ["coerce", "U3", shape, [v - 97 if (v + k) % 4 else -1 for v in vals], lay, None]

    def cases(self, tier, rng):
        k = 0
        # exhaustive small scope: every array over a 3-letter alphabet x every layout (unique + categorical)
        for shape in ([1], [2], [3], [2, 2], [1, 3], [3, 1]) + (() if tier == "quick" else ([4], [2, 3], [3, 2], [1, 2, 2], [2, 1, 2])):
            shape = list(shape)
            size = int(np.prod(shape))
            lays = layouts_for(shape, [False] * len(shape), True, rng, 0)
            for xs in itertools.product((97, 98, 100), repeat=size):
                for lay in lays:
                    k += 1
                    dt = ("i8", "U1")[k % 2] if lay[5] else ("i8", "U1", "O")[k % 3]
                    yield ["uniq", dt, shape, list(xs), lay, None]
                    yield ["cat", dt, shape, list(xs), lay, self.CAT_MODES[k % 3]]
        # zero-size and 0-d arrays (layout is moot, the helpers must still answer)
        for shape in ([0], [0, 2], [2, 0], [2, 0, 3], []):
            vals = [] if shape else [98]
            for lay in ([plain_layout(len(shape))] + ([["F"] + plain_layout(len(shape))[1:]] if shape else [])):
                yield from self._helper_cases(shape, vals, lay, "thorough", rng, 0)
        # every logical array under every layout
        for shape in self._shapes(tier):
            for vals, cmask in self._arrays(shape, tier, rng):
                for lay in layouts_for(shape, cmask, True, rng, 4 if tier == "quick" else 16):
                    k += 1
                    yield from self._helper_cases(shape, vals, lay, tier, rng, k)

    # ---- execution --------------------------------------------------------------------------
    @staticmethod
    def _codes(c):
        return [None if np.isnan(c[idx]) else (int(c[idx]) if float(c[idx]) == int(c[idx]) else "frac") for idx in np.ndindex(*c.shape)]

    def run_impl(self, case):
        helper, dt, shape, vals, lay, extra = case
        arr, buf, sl = lay_build(shape, vals, lay, dt)
        if arr.shape != tuple(shape):
            raise AssertionError("layout builder: shape")
        if helper == "der":
            # the parent is the whole buffer (gaps included) as a categorical array; the array in the
            # requested layout is DERIVED from it by numpy views (and optionally a copy in some order)
            _, touch, post = extra
            if touch == 3:
                P = A.categorical_ndarray(buf, copy=False, categories=np.unique(np.asarray(buf).astype(_dtype(dt, False))))
            else:
                P = A.categorical_ndarray(buf, copy=False)
            if touch == 1:
                P.codes
            elif touch == 2:
                P.categories
            arr = lay_view(P, sl, shape, lay)
            if post is not None:
                arr = arr.copy(order=post)
            if not isinstance(arr, A.categorical_ndarray):
                return "not-categorical"
            self._parent = logical(np.asarray(buf), dt)
        rv = logical(arr, dt)
        if rv != list(vals):
            raise AssertionError("layout builder: logical values differ")
        if helper == "uniq":
            U, I = A.unique(arr)
            obs = [[_dec(dt, U[i]) for i in range(len(U))], list(I.shape), [int(I[idx]) for idx in np.ndindex(*I.shape)]]
        elif helper == "cat":
            c = A.categorical_ndarray(arr, copy=extra[0], order=extra[1])
            cats, codes = np.asarray(c.categories), np.asarray(c.codes)
            obs = [logical(np.asarray(c), dt), [_dec(dt, cats[i]) for i in range(len(cats))], list(codes.shape), self._codes(codes)]
        elif helper == "der":
            cats, codes = np.asarray(arr.categories), np.asarray(arr.codes)
            obs = [[_dec(dt, cats[i]) for i in range(len(cats))], list(codes.shape), self._codes(codes)]
        elif helper == "look":
            items = np.array([_enc(dt, x) for x in extra], dtype=_dtype(dt, False))
            r = np.asarray(A.index_lookup(arr, items))
            obs = [list(r.shape), self._codes(r)]
        elif helper == "unb":
            u = A.unbroadcast(arr)
            obs = [list(u.shape), logical(u, dt)]
        elif helper == "bam":
            ps, pv = extra
            other = np.empty(tuple(ps), dtype=np.int64)
            for idx, v in zip(np.ndindex(*ps), pv):
                other[idx] = v
            try:
                ra, rb = A.broadcast_arrays_minimal(arr, other)
            except ValueError:
                return [rv, "value-error"]
            z = [bool(ra.size and n > 1 and s == 0) for n, s in zip(ra.shape, ra.strides)]
            obs = [[list(ra.shape), logical(ra, dt)], [list(rb.shape), logical(rb, "i8")], z]
        elif helper == "sorted":
            obs = bool(A.check_sorted(arr))
        elif helper == "coerce":
            r = A.coerce_numeric(arr)
            obs = [list(r.shape), [None if np.isnan(r[idx]) else (int(r[idx]) if r[idx] == int(r[idx]) else "frac") for idx in np.ndindex(*r.shape)]]
        else:
            raise ValueError(helper)
        return [rv, obs]

    def line(self, case, pyout):
        from harness.core import sx
        helper, dt, shape, vals, lay, extra = case
        if helper == "der":
            extra = [getattr(self, "_parent", []), extra[1], extra[2] or "N"]
        elif helper == "cat":
            extra = [extra[0], extra[1] or "N"]
        if isinstance(pyout, list) and len(pyout) == 2 and pyout[0] != "py-exception" and isinstance(pyout[0], list):
            # the logical values the driver sees are the ones READ BACK from the array by plain indexing
            return sx(["lay", [helper, lay, shape, pyout[0], extra], pyout[1]])
        return sx(["lay", [helper, lay, shape, vals, extra], pyout])

    def nontrivial(self, case, po):
        return _layout_class(case[4]) != "plain" and len(case[3]) >= 2 and isinstance(po, list) and po[0] != "py-exception"

    def signature(self, case, pyout, res):
        return {"helper": case[0], "dtype": case[1], "layout": _layout_class(case[4]), "swapped": bool(case[4][5])}

    def shrink(self, case):
        """Drop one layout feature at a time (the logical array stays), then fall back to the first helper variant."""
        helper, dt, shape, vals, lay, extra = case
        order, perm, step, rev, bc, swap, ro = lay
        nd = len(shape)
        cands = []
        if ro:
            cands.append([order, perm, step, rev, bc, swap, False])
        if swap:
            cands.append([order, perm, step, rev, bc, False, ro])
        if order == "F":
            cands.append(["C", perm, step, rev, bc, swap, ro])
        for i in range(nd):
            if step[i]:
                cands.append([order, perm, [0 if j == i else s for j, s in enumerate(step)], rev, bc, swap, ro])
            if rev[i]:
                cands.append([order, perm, step, [False if j == i else r for j, r in enumerate(rev)], bc, swap, ro])
            if bc[i]:
                cands.append([order, perm, step, rev, [False if j == i else b for j, b in enumerate(bc)], swap, ro])
        if perm != list(range(nd)):
            cands.append([order, list(range(nd)), step, rev, bc, swap, ro])
        for l in cands:
            yield [helper, dt, shape, vals, l, extra]
        if dt == "O":
            yield [helper, "U1", shape, vals, lay, extra]


PROP = Property(
    id="C20",
    title="Chunk, slice and broadcast helpers are exact",
    theorems=["C20.findChunkShape_spec", "C20.iterateChunks_partition", "C20.iterateChunks_nmax", "C20.unbroadcast_roundtrip", "C20.unique_spec", "C20.viewShape_slice_length", "C20.combineNorm_correct", "C20.combineSlices_spec", "C20.iterLoop_eq_prod", "C20.iterateChunksLoop_partition", "C20.iterateChunksLoop_nmax", "C20.iterateChunks_entry_nmax", "C20.iterateChunks_entry_chunkShape", "C20.derived_codes_spec",
              "C20.unique_layout_independent", "C20.lookupNd_spec", "C20.derivedNd_spec", "C20.unbroadcastNd_roundtrip",
              "C20.helpers_depend_on_logical_array_only"],
    families=[SliceIndices(), Fcs(), Iter(), Comb(), Unbroadcast(), ViewShape(), Unique(), CatNd(), CatDerived(), Layouts()],
    trusted_base=["numpy striding / as_strided, pandas.factorize(sort=True), CPython slice.indices (the latter validated by the slidx L0 family)",
                  "family lay: numpy view construction (transpose / slicing / broadcast_to / byte order) — the logical array the driver sees is read back from the built array by plain indexing over np.ndindex and compared with the intended values before any helper runs"],
    assumptions=["numpy and pandas behave as their L0 models on the explored scope"],
    rule="exhaustive small scopes per family (shapes, chunk shapes/limits, normalised slice triples, stride patterns, arrays over a 3-letter alphabet) plus seeded random beyond; family lay: every array helper on each logical 1..3-d array under every memory layout (C, F, all axis permutations, negative strides, step-sliced views, their products with permutations, stride-0 axes, non-native byte order, read-only, random combinations); non-trivial = more than one chunk / non-empty combined slice / a removed broadcast axis / >=2 values",
)
