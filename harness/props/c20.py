"""C20 — chunk, slice and broadcast helpers are exact (glue/utils/array.py)."""
import itertools

from harness.core import Family, Property, use_repo

use_repo()
import numpy as np  # noqa: E402
from numpy.lib.stride_tricks import as_strided  # noqa: E402
from glue.utils import array as A  # noqa: E402


def shapes(maxdim, maxlen, lo=1):
    for nd in range(1, maxdim + 1):
        yield from itertools.product(range(lo, maxlen + 1), repeat=nd)


class Fcs(Family):
    name = "fcs"
    exhaustive = True

    def cases(self, tier, rng):
        m = 5 if tier == "quick" else 7
        for sh in shapes(3, m):
            for n in range(1, int(np.prod(sh)) + 3):
                yield [list(sh), n]
        if tier == "thorough":
            for sh in shapes(4, 4):
                if len(sh) == 4:
                    for n in range(1, int(np.prod(sh)) + 3):
                        yield [list(sh), n]

    def run_impl(self, case):
        sh, n = case
        return list(A.find_chunk_shape(tuple(sh), n))

    def nontrivial(self, case, po):
        return po != [str(x) for x in case[0]]


class Iter(Family):
    name = "iter"
    exhaustive = True

    def cases(self, tier, rng):
        m = 4 if tier == "quick" else 6
        # zero-size shapes and argument errors
        yield [[0], None, 3]
        yield [[2, 0], [1, 1], None]
        yield [[2, 2], None, None]
        yield [[2, 2], [1, 1], 2]
        yield [[2, 2], [1], None]
        yield [[2, 2], [3, 1], None]
        # ndim = 0: a 0-d array has exactly one element, hence exactly one (empty) chunk (fix C04h; the
        # pinned tree yielded it and then raised IndexError); argument errors are still ValueError
        for n in (1, 2, 7, 1000000):
            yield [[], None, n]
        yield [[], [], None]
        yield [[], None, None]
        yield [[], [], 3]
        yield [[], [1], None]
        for sh in shapes(3, m):
            P = int(np.prod(sh))
            for n in range(1, P + 3):
                yield [list(sh), None, n]
            for cs in itertools.product(*[range(1, s + 1) for s in sh]):
                yield [list(sh), list(cs), None]
        if tier == "thorough":
            for sh in shapes(4, 3):
                if len(sh) == 4:
                    for cs in itertools.product(*[range(1, s + 1) for s in sh]):
                        yield [list(sh), list(cs), None]
            for _ in range(3000):
                nd = rng.randint(1, 4)
                sh = [rng.randint(1, 12) for _ in range(nd)]
                yield [sh, None, rng.randint(1, int(np.prod(sh)) + 2)]
                yield [sh, [rng.randint(1, s) for s in sh], None]

    def run_impl(self, case):
        sh, cs, n = case
        try:
            out = list(A.iterate_chunks(tuple(sh), chunk_shape=None if cs is None else tuple(cs), n_max=n))
        except ValueError:
            return "value-error"
        except IndexError:
            return "index-error"
        return [[[s.start, s.stop] for s in ch] for ch in out]

    def nontrivial(self, case, po):
        return isinstance(po, list) and len(po) > 1


def slice_args(tier):
    vals = [None] + list(range(-3, 10)) if tier == "quick" else [None] + list(range(-4, 12))
    return vals


class Comb(Family):
    name = "comb"
    exhaustive = True
    batch = 5000

    def cases(self, tier, rng):
        # normalised triples, exhaustive
        L = 7 if tier == "quick" else 9
        for n in range(0, L + 1):
            tr = [(b, e, s) for b in range(0, n + 1) for e in range(0, n + 1) for s in range(1, min(n, 4) + 2)]
            for t1 in tr:
                for t2 in tr:
                    yield [n, list(t1), list(t2)]
        # raw slices with None / negative / out-of-range entries, and negative steps (ValueError)
        raw = [None, -12, -3, -1, 0, 1, 2, 5, 9, 30]
        steps = [None, 1, 2, 3, 7, -1, -2]
        for n in (0, 1, 5, 9):
            for a, b, c in itertools.product(raw, raw, steps):
                for d, e, f in ((None, None, None), (1, None, 2), (-4, -1, 1), (2, 30, 3), (None, 4, -1)):
                    yield [n, [a, b, c], [d, e, f]]
                    yield [n, [d, e, f], [a, b, c]]
        nr = 20000 if tier == "quick" else 400000
        for _ in range(nr):
            n = rng.randint(0, 60)

            def t():
                return [rng.choice([None, rng.randint(-n - 3, n + 3)]), rng.choice([None, rng.randint(-n - 3, n + 3)]),
                        rng.choice([None, 1, 1, 2, 3, rng.randint(1, 12)])]
            yield [n, t(), t()]

    def run_impl(self, case):
        n, t1, t2 = case
        try:
            s = A.combine_slices(slice(*t1), slice(*t2), n)
        except ValueError:
            return "value-error"
        return [s.start, s.stop, s.step]

    def nontrivial(self, case, po):
        return isinstance(po, list) and po != ["0", "0", "1"]


class SliceIndices(Family):
    """L0: the model of Python's slice.indices against CPython itself."""
    name = "slidx"
    exhaustive = True
    batch = 10000

    def cases(self, tier, rng):
        L = 8 if tier == "quick" else 12
        R = 10 if tier == "quick" else 15
        vals = [None] + list(range(-R, R + 1))
        steps = [None, 1, 2, 3, 5, -1, -2, -3, -5]
        for n in range(0, L + 1):
            for a in vals:
                for b in vals:
                    for c in steps:
                        yield [n, [a, b, c]]

    def run_impl(self, case):
        n, (a, b, c) = case
        return list(slice(a, b, c).indices(n))


class Unbroadcast(Family):
    name = "unb"
    exhaustive = True

    def cases(self, tier, rng):
        m = 3 if tier == "quick" else 4
        for sh in shapes(3, m):
            nd = len(sh)
            # contiguous strides of the *unbroadcast* base, then zero some of them
            for zero in itertools.product([False, True], repeat=nd):
                base = [1 if z else s for s, z in zip(sh, zero)]
                st, acc = [], 1
                for s in reversed(base):
                    st.append(acc)
                    acc *= s
                st = list(reversed(st))
                st = [0 if z else x for x, z in zip(st, zero)]
                yield [list(sh), st]

    def run_impl(self, case):
        sh, st = case
        size = 1 + sum((s - 1) * t for s, t in zip(sh, st))
        base = np.arange(size, dtype=np.int64)
        arr = as_strided(base, shape=tuple(sh), strides=tuple(t * 8 for t in st), writeable=False)
        u = A.unbroadcast(arr)
        back = np.broadcast_to(u, arr.shape)
        eq = bool(np.array_equal(back, arr)) and back.shape == arr.shape
        return [list(u.shape), [0 if n == 1 else x // 8 for n, x in zip(u.shape, u.strides)], eq]

    def nontrivial(self, case, po):
        return po[0] != [str(x) for x in case[0]]


class ViewShape(Family):
    name = "vshape"
    exhaustive = True
    batch = 5000

    def cases(self, tier, rng):
        m = 3 if tier == "quick" else 4
        sl = [None, 0, 1, 2, -1, 5] if tier == "quick" else [None, 0, 1, 2, 3, -1, -2, 6]
        items = [["i", i] for i in (0, 1, -1, 3, -4)] + [["s", a, b, c] for a in sl for b in sl for c in (None, 1, 2, -1)]
        for sh in shapes(3, m):
            for k in range(0, len(sh) + 1):
                if k <= 1:
                    for v in itertools.product(items, repeat=k):
                        yield [list(sh), [list(x) for x in v]]
                else:
                    n = 300 if tier == "quick" else 3000
                    for _ in range(n):
                        yield [list(sh), [list(rng.choice(items)) for _ in range(k)]]

    @staticmethod
    def _view(v):
        return tuple(x[1] if x[0] == "i" else slice(x[1], x[2], x[3]) for x in v)

    def run_impl(self, case):
        sh, v = case
        view = self._view(v)
        try:
            actual = list(np.zeros(tuple(sh))[view].shape)
        except IndexError:
            actual = "index-error"
        try:
            pred = list(A.view_shape(tuple(sh), view))
        except IndexError:
            pred = "index-error"
        if pred == "index-error" and actual == "index-error":
            return "index-error"
        return [pred, actual]

    def nontrivial(self, case, po):
        return isinstance(po, list)


class Unique(Family):
    name = "uniq"
    exhaustive = True

    def cases(self, tier, rng):
        L = 5 if tier == "quick" else 7
        for n in range(0, L + 1):
            for xs in itertools.product((-1, 0, 2), repeat=n):
                yield list(xs)
        for _ in range(500 if tier == "quick" else 20000):
            yield [rng.randint(-5, 5) for _ in range(rng.randint(0, 12))]

    def line(self, case, pyout):
        from harness.core import sx
        return sx(["uniq", case, pyout])

    def run_impl(self, case):
        U, I = A.unique(np.array(case, dtype=np.int64))
        c = A.categorical_ndarray(np.array([str(x) for x in case]))
        # categorical_ndarray must satisfy categories[codes] == values as well
        if len(case):
            assert list(c.categories[c.codes.astype(int)]) == [str(x) for x in case]
        return [[int(x) for x in U], [int(i) for i in I]]

    def nontrivial(self, case, po):
        return len(case) >= 2


class CatNd(Unique):
    """categorical_ndarray over single-letter strings (sent as code points), 1-d and 2-d."""
    name = "catnd"

    def cases(self, tier, rng):
        L = 4 if tier == "quick" else 6
        for n in range(1, L + 1):
            for xs in itertools.product((97, 98, 100), repeat=n):
                yield list(xs)
        for _ in range(300 if tier == "quick" else 5000):
            yield [rng.choice([65, 66, 90, 97, 98, 122]) for _ in range(rng.randint(1, 12))]

    def line(self, case, pyout):
        from harness.core import sx
        return sx(["uniq", case, pyout])

    def run_impl(self, case):
        vals = np.array([chr(x) for x in case])
        if len(case) % 2 == 0 and len(case) >= 4:
            vals = vals.reshape((2, -1))
        c = A.categorical_ndarray(vals)
        return [[ord(x) for x in c.categories], [int(i) for i in np.asarray(c.codes).ravel()]]


class CatDerived(Family):
    """categorical_ndarray objects DERIVED from another one (numpy calls __array_finalize__, which hands
    the parent's categories down; codes are then looked up again): reversal, permutation, roll, sort,
    slices, views, copies, boolean/fancy indexing, 2-d transpose — each with and without the parent's
    codes/categories having been read first, and with explicit categories=.  The derivation itself is
    numpy's (L0); the observable is (categories, codes) of the derived array."""
    name = "catder"
    exhaustive = True
    OPS = ["rev", "roll1", "sort", "copy", "view", "full", "head", "tail", "step2", "perm", "mask", "T", "ravelT", "take0"]

    def cases(self, tier, rng):
        L = 4 if tier == "quick" else 5
        for n in range(1, L + 1):
            for xs in itertools.product((97, 98, 100), repeat=n):
                for op in self.OPS:
                    for touch in (0, 1, 2, 3):
                        yield [list(xs), op, touch]
        for _ in range(400 if tier == "quick" else 8000):
            xs = [rng.choice([65, 66, 90, 97, 98, 122]) for _ in range(rng.randint(1, 10))]
            yield [xs, rng.choice(self.OPS), rng.randint(0, 3)]

    @staticmethod
    def _derive(c, op, n):
        if op == "rev":
            return c[::-1]
        if op == "roll1":
            return np.roll(c, 1)
        if op == "sort":
            return np.sort(c)
        if op == "copy":
            return c.copy()
        if op == "view":
            return c.view()
        if op == "full":
            return c[:]
        if op == "head":
            return c[:max(1, n // 2)]
        if op == "tail":
            return c[n // 2:]
        if op == "step2":
            return c[::2]
        if op == "perm":
            return c[np.array([(i * 3 + 1) % n for i in range(n)] if n % 3 else list(range(n - 1, -1, -1)))]
        if op == "mask":
            return c[np.array([i % 2 == 0 for i in range(n)])]
        if op == "take0":
            return c[np.zeros(n, dtype=int)]
        if op in ("T", "ravelT"):
            if n >= 4 and n % 2 == 0:
                d = c.reshape((2, -1)).T
                return d if op == "T" else d.ravel()
            return c[::-1]
        raise ValueError(op)

    def run_impl(self, case):
        xs, op, touch = case
        vals = np.array([chr(x) for x in xs])
        if touch == 3:  # explicit categories (sorted unique), as the data factories pass them
            c = A.categorical_ndarray(vals, categories=np.unique(vals))
        else:
            c = A.categorical_ndarray(vals)
        if touch == 1:
            c.codes
        elif touch == 2:
            c.categories
        d = self._derive(c, op, len(xs))
        if not isinstance(d, A.categorical_ndarray):
            return "not-categorical"
        dv = [ord(x) for x in np.asarray(d).ravel().tolist()]
        codes = np.asarray(d.codes, dtype=float).ravel()
        cats = [ord(x) for x in np.asarray(d.categories).tolist()]
        self._dv = dv
        return [dv, cats, [None if np.isnan(k) else int(k) for k in codes]]

    def line(self, case, pyout):
        from harness.core import sx
        xs, op, touch = case
        if isinstance(pyout, list) and len(pyout) == 3 and pyout[0] != "py-exception":
            return sx(["catder", [xs, pyout[0], op], [pyout[1], pyout[2]]])
        return sx(["catder", [xs, [], op], pyout])

    def nontrivial(self, case, po):
        return isinstance(po, list) and len(po) == 3 and po[0] != [str(x) for x in case[0]]


PROP = Property(
    id="C20",
    title="Chunk, slice and broadcast helpers are exact",
    theorems=["C20.findChunkShape_spec", "C20.iterateChunks_partition", "C20.iterateChunks_nmax", "C20.unbroadcast_roundtrip", "C20.unique_spec", "C20.viewShape_slice_length", "C20.combineNorm_correct", "C20.combineSlices_spec", "C20.iterLoop_eq_prod", "C20.iterateChunksLoop_partition", "C20.iterateChunksLoop_nmax", "C20.iterateChunks_entry_nmax", "C20.iterateChunks_entry_chunkShape", "C20.derived_codes_spec"],
    families=[SliceIndices(), Fcs(), Iter(), Comb(), Unbroadcast(), ViewShape(), Unique(), CatNd(), CatDerived()],
    trusted_base=["numpy striding / as_strided, pandas.factorize(sort=True), CPython slice.indices (the latter validated by the slidx L0 family)"],
    assumptions=["numpy and pandas behave as their L0 models on the explored scope"],
    rule="exhaustive small scopes per family (shapes, chunk shapes/limits, normalised slice triples, stride patterns, arrays over a 3-letter alphabet) plus seeded random beyond; non-trivial = more than one chunk / non-empty combined slice / a removed broadcast axis / >=2 values",
)
