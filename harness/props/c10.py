"""C10 — statistics and histograms equal their definition regardless of chunking or views.

Real `glue.core.Data.compute_statistic` / `compute_histogram` (and, through headless viewer
states, `ProfileLayerState.profile` / `HistogramLayerState.histogram`) against the Lean model
`GlueVerif.Stats`.  All data values are small dyadic rationals (or NaN / ±inf), so minimum, maximum
and sum are computed exactly by numpy and are compared exactly; mean, median and percentile are sent
as the exact rational value of the returned double and compared by the Lean driver with relative
tolerance 1e-12 against the exact `Rat`.
"""
import gc
import itertools
import warnings
from fractions import Fraction

from harness.core import Family, Property, use_repo

use_repo()
import numpy as np  # noqa: E402

warnings.simplefilter("ignore")

from glue.core import Data  # noqa: E402
from glue.core.subset import (SliceSubsetState, RangeSubsetState, MaskSubsetState,  # noqa: E402
                              RoiSubsetState)
from glue.core.roi import RectangularROI  # noqa: E402

BIG = 40000000
STATS = ["minimum", "maximum", "mean", "median", "sum"]


# ------------------------------------------------------------------------------------------
# value codec:  int | "nan" | "pinf" | "ninf" | ["q", num, den]
# ------------------------------------------------------------------------------------------

def dec(v):
    if v == "nan":
        return float("nan")
    if v == "pinf":
        return float("inf")
    if v == "ninf":
        return float("-inf")
    if isinstance(v, (list, tuple)):
        return v[1] / v[2]
    return float(v)


def enc(x):
    x = float(x)
    if x != x:
        return "nan"
    if x == float("inf"):
        return "pinf"
    if x == float("-inf"):
        return "ninf"
    f = Fraction(x)
    if f.denominator == 1:
        return int(f.numerator)
    return ["q", int(f.numerator), int(f.denominator)]


def qv(num, den=1):
    f = Fraction(num, den)
    return int(f.numerator) if f.denominator == 1 else ["q", int(f.numerator), int(f.denominator)]


def is_special(v):
    return v in ("nan", "pinf", "ninf")


# ------------------------------------------------------------------------------------------
# building glue objects from a case
# ------------------------------------------------------------------------------------------

def make_data(sh, flat, weights=None):
    arr = np.array([dec(v) for v in flat], dtype=float).reshape(tuple(sh))
    kw = {"x": arr}
    if weights is not None:
        kw["w"] = np.array([dec(v) for v in weights], dtype=float).reshape(tuple(sh))
    return Data(**kw)


def make_sel(d, sel):
    if sel is None:
        return None
    k = sel[0]
    x = d.id["x"]
    px = d.pixel_component_ids
    if k == "gt":
        return x > dec(sel[1])
    if k == "lt":
        return x < dec(sel[1])
    if k == "ge":
        return x >= dec(sel[1])
    if k == "le":
        return x <= dec(sel[1])
    if k == "pixrange":
        return RangeSubsetState(dec(sel[2]), dec(sel[3]), att=px[sel[1]])
    if k == "pixgt":
        return px[sel[1]] > dec(sel[2])
    if k == "roi":
        roi = RectangularROI(dec(sel[3]), dec(sel[4]), dec(sel[5]), dec(sel[6]))
        return RoiSubsetState(xatt=px[sel[1]], yatt=px[sel[2]], roi=roi)
    if k == "bits":
        return MaskSubsetState(np.array(sel[1:], dtype=bool).reshape(d.shape), px)
    if k == "slice":
        return SliceSubsetState(d, [slice(*t) for t in sel[1:]])
    if k == "and":
        return make_sel(d, sel[1]) & make_sel(d, sel[2])
    if k == "or":
        return make_sel(d, sel[1]) | make_sel(d, sel[2])
    if k == "xor":
        return make_sel(d, sel[1]) ^ make_sel(d, sel[2])
    if k == "not":
        return ~make_sel(d, sel[1])
    raise ValueError(sel)


def make_view(view):
    if view is None:
        return None
    if view == "E":
        return Ellipsis
    return tuple(it[1] if it[0] == "i" else slice(it[1], it[2], it[3]) for it in view[1:])


def make_axis(axis):
    if axis is None or isinstance(axis, int):
        return axis
    return tuple(axis[1:])


def canon_result(r):
    a = np.asarray(r, dtype=float)
    return ["res", list(a.shape), [enc(v) for v in a.ravel()]]


def view_ndim(sh, view):
    if view is None or view == "E":
        return len(sh)
    return len(sh) - sum(1 for it in view[1:] if it[0] == "i")


def view_is_empty(sh, view):
    if view is None or view == "E":
        return False
    for h, it in zip(sh, view[1:]):
        if it[0] == "s" and len(range(*slice(it[1], it[2], it[3]).indices(h))) == 0:
            return True
    return False


# ------------------------------------------------------------------------------------------
# generators
# ------------------------------------------------------------------------------------------

POOL = list(range(-4, 9)) + [qv(1, 2), qv(-3, 2), qv(5, 4), qv(13, 4), qv(-1, 4)]


def rand_value(rng, special=0.25):
    if rng.random() < special:
        return rng.choice(["nan", "nan", "pinf", "ninf"])
    return rng.choice(POOL)


def fixed_data(sh, salt=0):
    n = int(np.prod(sh))
    base = [3, -2, "nan", 7, qv(1, 2), "pinf", 0, 5, -4, "ninf", 2, 8, qv(-3, 2), 1, 6, 4, -1, qv(13, 4)]
    out = [base[(i * 5 + salt) % len(base)] for i in range(n)]
    return out


def slice_items(h, rich):
    its = [["s", None, None, None], ["s", 1, None, None], ["s", 0, max(1, h - 1), None], ["s", None, None, 2],
           ["i", 0], ["i", -1]]
    if rich:
        its += [["s", 1, None, 2], ["s", -2, None, 1], ["i", h // 2], ["s", 0, 1, None]]
    return its


def sels_for(sh, flat, rng=None, rich=False):
    nd = len(sh)
    n = int(np.prod(sh))
    out = [None, ["gt", 2], ["lt", qv(5, 2)], ["gt", 1000], ["pixrange", nd - 1, qv(1, 2), qv(3, 2)],
           ["pixgt", 0, 0], ["slice", [1, None, None]], ["slice"] + [[None, None, 2]] * nd,
           ["bits"] + [(i * 7 + 3) % 5 < 2 for i in range(n)],
           ["and", ["gt", 0], ["lt", 6]]]
    if nd >= 2:
        out.append(["roi", 0, nd - 1, qv(-1, 2), qv(3, 2), qv(1, 2), qv(5, 2)])
        out.append(["slice", [0, 1, None], [1, None, None]])
    if rich:
        out += [["not", ["gt", 2]], ["or", ["pixgt", nd - 1, 0], ["le", -2]], ["ge", 7],
                ["xor", ["gt", 2], ["pixrange", 0, 0, 0]], ["bits"] + [i == n - 1 for i in range(n)],
                ["slice"] + [[None, None, None]] * nd]
    return out


def axes_for(nd):
    out = [None] + list(range(nd))
    for k in range(0, nd + 1):
        for t in itertools.combinations(range(nd), k):
            out.append(["t"] + list(t))
    return out


def rand_sel(rng, sh, depth=0):
    nd = len(sh)
    n = int(np.prod(sh))
    r = rng.random()
    if depth < 2 and r < 0.15:
        op = rng.choice(["and", "or", "xor"])
        return [op, rand_sel(rng, sh, depth + 1), rand_sel(rng, sh, depth + 1)]
    if depth < 2 and r < 0.2:
        return ["not", rand_sel(rng, sh, depth + 1)]
    k = rng.choice(["gt", "lt", "ge", "le", "pixrange", "pixgt", "roi", "bits", "bits1", "empty"])
    if k in ("gt", "lt", "ge", "le"):
        return [k, rng.choice(POOL + [qv(7, 2), qv(5, 2)])]
    if k == "pixrange":
        ax = rng.randrange(nd)
        lo = rng.choice([-1, 0, qv(1, 2), 1, qv(3, 2)])
        return ["pixrange", ax, lo, rng.choice([dec(lo) if False else lo, 1, qv(3, 2), 2, 5])]
    if k == "pixgt":
        return ["pixgt", rng.randrange(nd), rng.choice([-1, 0, qv(1, 2), 1, 2])]
    if k == "roi" and nd >= 2:
        ax, ay = rng.sample(range(nd), 2)
        x0 = rng.choice([qv(-1, 2), qv(1, 2), qv(3, 2)])
        y0 = rng.choice([qv(-1, 2), qv(1, 2), qv(3, 2)])
        return ["roi", ax, ay, x0, qv(Fraction(dec(x0)) + rng.choice([1, 2, 3])), y0, qv(Fraction(dec(y0)) + rng.choice([1, 2, 3]))]
    if k == "bits1":
        j = rng.randrange(n)
        return ["bits"] + [i == j for i in range(n)]
    if k == "empty":
        return ["gt", 1000]
    p = rng.choice([0.2, 0.5, 0.8])
    return ["bits"] + [rng.random() < p for _ in range(n)]


def rand_slice_sel(rng, sh):
    out = ["slice"]
    for h in sh[:rng.randint(1, len(sh))]:
        b = rng.choice([None, 0, 1, -1, -2, h])
        e = rng.choice([None, None, h, h - 1, 1, -1, 5])
        st = rng.choice([None, 1, 1, 2, 3])
        out.append([b, e, st])
    return out


def rand_view(rng, sh):
    r = rng.random()
    if r < 0.35:
        return None
    if r < 0.42:
        return "E"
    out = ["v"]
    for h in sh[:rng.randint(1, len(sh))]:
        if rng.random() < 0.25:
            out.append(["i", rng.randrange(-h, h)])
        else:
            for _ in range(8):
                b = rng.choice([None, None, 0, 1, -1, -2])
                e = rng.choice([None, None, h, h - 1, 1, -1, 5])
                st = rng.choice([None, None, 1, 1, 2, 3])
                if len(range(*slice(b, e, st).indices(h))) > 0:
                    break
            else:
                b, e, st = None, None, None
            out.append(["s", b, e, st])
    return out


def fix_stat_data(flat, stat, fin):
    """percentile (and median, for safety of the L0 assumption) with ±inf and finite=False is outside
    the modelled domain of numpy's interpolation: replace the infinities."""
    if not fin and isinstance(stat, list):
        return [1 if v in ("pinf", "ninf") else v for v in flat]
    return flat


class StatFamily(Family):
    name = "stat"
    exhaustive = False
    batch = 400
    budget_share = 3.0
    case_timeout = 20.0

    def reset(self):
        pass

    # ---- cases -------------------------------------------------------------------------
    def cases(self, tier, rng):
        # finding stratum (plain, non-NaN-aware path with a NaN in the data, F10c) is capped
        nplain = 0
        for case in self._cases(tier, rng):
            sh, flat, sel, axis, fin, pos, stat, view, nmax = case
            if (not fin and not pos and "nan" in flat and
                    (sel is None or (sel[0] == "slice" and view is None))):
                nplain += 1
                if nplain > 200 or (nplain > 100 and nplain % 2):
                    case = [sh, [0 if v == "nan" else v for v in flat], sel, axis, fin, pos, stat, view, nmax]
            yield case

    def _cases(self, tier, rng):
        quick = tier == "quick"
        # (A) exhaustive small scope: shapes x selection kinds x all axis subsets x all views x chunk limits,
        #     statistic / filters rotating
        shapes = [[3], [2, 3], [2, 2, 2]] if quick else [[3], [4], [2, 3], [3, 2], [3, 3], [2, 2, 2], [2, 3, 2]]
        combos = [(True, False), (True, False), (True, True), (False, False), (False, True)]
        stats = STATS + [["percentile", 50], ["percentile", 25], ["percentile", qv(75, 2)], ["percentile", 100], ["percentile", 10]]
        cnt = 0
        for sh in shapes:
            nd = len(sh)
            size = int(np.prod(sh))
            flat0 = fixed_data(sh)
            rich = (not quick) and nd <= 2
            per_axis = [slice_items(h, rich) if nd <= 2 else slice_items(h, False)[:4] + [["i", 0]] for h in sh]
            views = [None, "E"]
            for k in range(1, nd + 1):
                for t in itertools.product(*per_axis[:k]):
                    views.append(["v"] + [list(x) for x in t])
            nmaxes = [1, max(1, size // 2), BIG] if quick else [1, 2, 3, max(1, size - 1), size, BIG]
            for sel in sels_for(sh, flat0, rich=not quick):
                for view in views:
                    if sel is not None and sel[0] == "slice" and isinstance(view, list) and any(it[0] == "i" and it[1] < 0 for it in view[1:]):
                        continue   # SliceSubsetState.to_mask mis-handles negative integers in a view (C04's domain)
                    vnd = view_ndim(sh, view)
                    for axis in axes_for(vnd):
                        for nmax in nmaxes:
                            if nmax != BIG and not (view is None and isinstance(axis, list)):
                                continue   # the chunk limit is only looked at for view=None and a tuple axis
                            cnt += 1
                            stat = stats[cnt % len(stats)]
                            fin, pos = combos[(cnt // len(stats)) % len(combos)]
                            flat = fix_stat_data(flat0, stat, fin)
                            yield [sh, flat, sel, axis, fin, pos, stat, view, nmax]
        # (B) seeded random beyond
        nrand = 9000 if quick else 250000
        maxdim = 3 if quick else 4
        for _ in range(nrand):
            nd = rng.choice([1, 2, 2, 3, 3, 4])
            sh = [rng.randint(1, maxdim) for _ in range(nd)]
            while int(np.prod(sh)) > (54 if quick else 108):
                sh[rng.randrange(nd)] = 1
            size = int(np.prod(sh))
            special = rng.choice([0.0, 0.15, 0.4])
            flat = [rand_value(rng, special) for _ in range(size)]
            r = rng.random()
            if r < 0.25:
                sel = None
            elif r < 0.45:
                sel = rand_slice_sel(rng, sh)
            else:
                sel = rand_sel(rng, sh)
            view = rand_view(rng, sh)
            if sel is not None and sel[0] == "slice" and isinstance(view, list):
                view = ["v"] + [["i", it[1] % h] if it[0] == "i" else it for it, h in zip(view[1:], sh)]
            vnd = view_ndim(sh, view)
            r = rng.random()
            if r < 0.2:
                axis = None
            elif r < 0.4 and vnd > 0:
                axis = rng.randrange(vnd)
            elif r < 0.7 and vnd > 1 and view is None:
                keep = rng.randrange(vnd)      # the chunked configuration: all axes but one
                axis = ["t"] + [a for a in range(vnd) if a != keep]
            else:
                axis = ["t"] + [a for a in range(vnd) if rng.random() < 0.5]
            if nd > 1 and rng.random() < 0.25 and not (sel is not None and sel[0] == "slice" and rng.random() < 0.7):
                # the chunked configuration: view None, all axes but one, small chunk limit
                view, vnd = None, nd
                keep = rng.randrange(nd)
                axis = ["t"] + [a for a in range(nd) if a != keep]
            stat = rng.choice(STATS + [["percentile", rng.choice([0, 10, 25, qv(75, 2), 50, 66, 75, 90, 100])]])
            fin, pos = rng.choice([(True, False), (True, False), (True, True), (False, False), (False, True)])
            flat = fix_stat_data(flat, stat, fin)
            nmax = rng.choice([BIG, 1, 2, 3, rng.randint(1, max(1, size)), max(1, size - 1)])
            yield [sh, flat, sel, axis, fin, pos, stat, view, nmax]

    # ---- execution ---------------------------------------------------------------------
    def run_impl(self, case):
        sh, flat, sel, axis, fin, pos, stat, view, nmax = case
        gc.disable()
        try:
            d = make_data(sh, flat)
            st = make_sel(d, sel)
            kw = {}
            if isinstance(stat, list):
                sname, kw["percentile"] = "percentile", dec(stat[1])
            else:
                sname = stat
            r = d.compute_statistic(sname, d.id["x"], subset_state=st, axis=make_axis(axis), finite=fin,
                                    positive=pos, view=make_view(view), n_chunk_max=nmax, **kw)
            out = canon_result(r)
            del st, d
            return out
        finally:
            gc.enable()

    def nontrivial(self, case, po):
        sh, flat, sel, axis, fin, pos, stat, view, nmax = case
        return isinstance(po, list) and (sel is not None or view is not None or nmax != BIG)

    def signature(self, case, po, res):
        sh, flat, sel, axis, fin, pos, stat, view, nmax = case
        vk = "none" if view is None else "ellipsis" if view == "E" else "tuple"
        return {"stat": stat if isinstance(stat, str) else "percentile",
                "sel": "none" if sel is None else sel[0],
                "view": vk,
                "view_has_int": vk == "tuple" and any(it[0] == "i" for it in view[1:]),
                "view_has_step": vk == "tuple" and any(it[0] == "s" and it[3] not in (None, 1) for it in view[1:]),
                "axis": "none" if axis is None else "int" if isinstance(axis, int) else "tuple",
                "py": po if isinstance(po, str) else (po[0] if po and po[0] == "py-exception" else "value"),
                "construct": "plain-nan" if res.get("br") == "plain-nan" else "none",
                "br": res.get("br")}

    def shrink(self, case):
        sh, flat, sel, axis, fin, pos, stat, view, nmax = case

        def mk(**kw):
            c = dict(sh=sh, flat=flat, sel=sel, axis=axis, fin=fin, pos=pos, stat=stat, view=view, nmax=nmax)
            c.update(kw)
            return [c["sh"], c["flat"], c["sel"], c["axis"], c["fin"], c["pos"], c["stat"], c["view"], c["nmax"]]
        if nmax != BIG and not (view is None and isinstance(axis, list)):
            yield mk(nmax=BIG)
        if stat != "sum":
            yield mk(stat="sum")
        if not fin or pos:
            yield mk(fin=True, pos=False)
        if sel is not None:
            if sel[0] in ("and", "or", "xor"):
                yield mk(sel=sel[1])
                yield mk(sel=sel[2])
            if sel[0] == "not":
                yield mk(sel=sel[1])
        if view == "E":
            yield mk(view=None)
        if isinstance(view, list):
            vnd = view_ndim(sh, view)
            for i, it in enumerate(view[1:], 1):
                if it[0] == "s" and it != ["s", None, None, None]:
                    v2 = [list(x) if isinstance(x, list) else x for x in view]
                    v2[i] = ["s", None, None, None]
                    yield mk(view=v2)
            if all(it == ["s", None, None, None] for it in view[1:]) and len(view) > 2:
                yield mk(view=view[:-1])
        # simplify data values
        for i, v in enumerate(flat):
            if v not in (0, 1):
                f2 = list(flat)
                f2[i] = 1 if v != 1 and (is_special(v) or dec(v) > 0) else 0
                yield mk(flat=f2)
                if i > 12:
                    break


# ------------------------------------------------------------------------------------------
# histogram
# ------------------------------------------------------------------------------------------

HPOOL = list(range(-4, 9)) + [qv(1, 2), qv(-3, 2), qv(5, 4), qv(13, 4), qv(-1, 4), qv(1, 4), 10, 16, 100]
LOGPOOL = [qv(1, 8), qv(1, 4), qv(1, 2), 1, 2, 3, 4, 5, 8, 10, 16, 25, 100, qv(3, 2)]


def crashes_fast_histogram(r0, r1, log):
    """Zero-width range whose (log-space) upper end is 0: the nudge is a denormal, the bin scale
    overflows and fast_histogram indexes with int(nan) (observed: segmentation fault)."""
    a, b = dec(r0), dec(r1)
    if a != b:
        return False
    return (a == 1) if log else (a == 0)


def fr(v):
    return Fraction(v[1], v[2]) if isinstance(v, list) else Fraction(v)


def has_interior_edge(case):
    """Generator-side stratification only (the verdict is the driver's): does some finite data value
    inside the range lie exactly on an interior bin edge?"""
    sh, flat, w, sel, r0, r1, bins, log = case
    lo, hi = sorted((fr(r0), fr(r1)))
    if lo == hi or (log and lo <= 0):
        return False
    for v in flat:
        if is_special(v):
            continue
        x = fr(v)
        if not (lo < x < hi):
            continue
        if log:
            if any((hi / lo) ** j == (x / lo) ** bins for j in range(1, bins)):
                return True
        elif ((x - lo) * bins / (hi - lo)).denominator == 1:
            return True
    return False


class HistFamily(Family):
    name = "hist"
    exhaustive = False
    batch = 500
    budget_share = 1.5

    def cases(self, tier, rng):
        # finding stratum (values on interior bin edges, F10) is capped so that it cannot exhaust the
        # per-family failure budget; everything else is the clean stratum
        nedge = 0
        for case in self._cases(tier, rng):
            if has_interior_edge(case):
                nedge += 1
                if nedge > 220 or (nedge > 110 and nedge % 2):
                    continue
            yield case

    def _cases(self, tier, rng):
        quick = tier == "quick"
        # (A) structured: fixed arrays, every bin count 1..6, ranges incl. reversed, zero-width, ends on data values
        arrays = [
            ([5], [0, 1, 2, 3, 4]),
            ([6], [-4, -3, -2, -1, "nan", "pinf"]),
            ([6], [qv(1, 2), 2, 2, "ninf", 5, qv(13, 4)]),
            ([2, 3], [1, 2, 4, 8, 16, 3]),
            ([2, 3], [qv(1, 4), qv(1, 2), 1, "nan", 10, 100]),
        ]
        ends = [-4, -1, 0, qv(1, 2), 1, 2, 3, 4, 5, 8] if quick else [-4, -3, -1, 0, qv(1, 4), qv(1, 2), 1, 2, 3, 4, 5, 8, 16, 100]
        for sh, flat in arrays:
            n = len(flat)
            wsets = [None, [((i * 3) % 5) - 1 for i in range(n)]]
            sels = [None, ["gt", 1], ["pixrange", len(sh) - 1, 1, 2], ["gt", 1000]]
            for r0 in ends:
                for r1 in ends:
                    for bins in range(1, 7):
                        for log in (False, True):
                            if crashes_fast_histogram(r0, r1, log):
                                continue
                            k = (bins + len(flat)) % 4
                            yield [sh, flat, wsets[k % 2], sels[k], r0, r1, bins, log]
        # (B) random
        nrand = 6000 if quick else 150000
        for _ in range(nrand):
            log = rng.random() < 0.35
            pool = LOGPOOL if log and rng.random() < 0.8 else HPOOL
            sh = rng.choice([[rng.randint(1, 7)], [2, 3], [3, 2], [2, 2, 2]])
            n = int(np.prod(sh))
            flat = [rng.choice(["nan", "pinf", "ninf"]) if rng.random() < 0.12 else rng.choice(pool) for _ in range(n)]
            finite = [v for v in flat if not is_special(v)]
            r = rng.random()
            if finite and r < 0.5:
                r0, r1 = rng.choice(finite), rng.choice(finite)     # ends on data values
            elif finite and r < 0.7:
                r0, r1 = rng.choice(finite), rng.choice(pool)
            else:
                r0, r1 = rng.choice(pool), rng.choice(pool)
            if rng.random() < 0.15:
                r0, r1 = r1, r0
            if crashes_fast_histogram(r0, r1, log):
                continue
            w = None if rng.random() < 0.6 else [rng.choice([0, 1, 2, -1, qv(1, 2), qv(5, 4), 3]) for _ in range(n)]
            sel = None if rng.random() < 0.5 else rand_sel(rng, sh)
            yield [sh, flat, w, sel, r0, r1, rng.randint(1, 6), log]

    def run_impl(self, case):
        sh, flat, w, sel, r0, r1, bins, log = case
        gc.disable()
        try:
            d = make_data(sh, flat, w)
            st = make_sel(d, sel)
            try:
                h = d.compute_histogram([d.id["x"]], weights=None if w is None else d.id["w"],
                                        range=[(dec(r0), dec(r1))], bins=[bins], log=[log], subset_state=st)
            except ValueError:
                return "value-error"
            out = [enc(v) for v in np.asarray(h, dtype=float).ravel()]
            del st, d
            return out
        finally:
            gc.enable()

    def nontrivial(self, case, po):
        return isinstance(po, list) and any(v != "0" for v in po)

    def signature(self, case, po, res):
        br = res.get("br") or ""
        return {"construct": "interior-edge" if str(br).endswith("-edge") else "none",
                "tot": res.get("tot"), "adm": res.get("adm"), "log": bool(case[7]),
                "weights": case[2] is not None}

    def shrink(self, case):
        sh, flat, w, sel, r0, r1, bins, log = case
        if sel is not None:
            yield [sh, flat, w, None, r0, r1, bins, log]
        if w is not None:
            yield [sh, flat, None, sel, r0, r1, bins, log]
        if len(sh) > 1:
            yield [[len(flat)], flat, w, None if sel is not None else sel, r0, r1, bins, log]
        if len(sh) == 1 and len(flat) > 1 and sel is None:
            for i in range(len(flat)):
                f2 = flat[:i] + flat[i + 1:]
                w2 = None if w is None else w[:i] + w[i + 1:]
                yield [[len(f2)], f2, w2, sel, r0, r1, bins, log]
        if dec(r0) > dec(r1):
            yield [sh, flat, w, sel, r1, r0, bins, log]
        for b in range(1, bins):
            yield [sh, flat, w, sel, r0, r1, b, log]


# ------------------------------------------------------------------------------------------
# what the viewers plot: ProfileLayerState.profile / HistogramLayerState.histogram (headless states)
# ------------------------------------------------------------------------------------------

class ProfFamily(Family):
    """ProfileLayerState.profile == compute_statistic(function, axis=all axes but the x axis)."""
    name = "prof"
    exhaustive = False
    batch = 100
    budget_share = 0.6

    def cases(self, tier, rng):
        quick = tier == "quick"
        funcs = ["maximum", "minimum", "mean", "median", "sum"]
        cnt = 0
        for sh in ([3], [2, 3], [2, 2, 3]):
            flat = fixed_data(sh, salt=1)
            for sel in sels_for(sh, flat):
                if sel is not None and sel[0] == "slice":
                    continue
                for xa in range(len(sh)):
                    cnt += 1
                    yield [sh, flat, sel, xa, funcs[cnt % 5]]
        for _ in range(500 if quick else 8000):
            nd = rng.choice([1, 2, 3, 3])
            sh = [rng.randint(1, 3) for _ in range(nd)]
            flat = [rand_value(rng, rng.choice([0.0, 0.2])) for _ in range(int(np.prod(sh)))]
            sel = None if rng.random() < 0.3 else rand_sel(rng, sh)
            yield [sh, flat, sel, rng.randrange(nd), rng.choice(funcs)]

    def _stat_case(self, case):
        sh, flat, sel, xa, func = case
        return [sh, flat, sel, ["t"] + [a for a in range(len(sh)) if a != xa], True, False, func, None, BIG]

    def run_impl(self, case):
        from glue.viewers.profile.state import ProfileViewerState, ProfileLayerState
        sh, flat, sel, xa, func = case
        gc.disable()
        try:
            d = make_data(sh, flat)
            vs = ProfileViewerState()
            ls = ProfileLayerState(viewer_state=vs, layer=d)
            vs.layers.append(ls)
            vs.function = func
            vs.x_att = d.pixel_component_ids[xa]
            keep = [d, vs, ls]
            if sel is not None:
                sub = d.new_subset()
                sub.subset_state = make_sel(d, sel)
                ls = ProfileLayerState(viewer_state=vs, layer=sub)
                vs.layers.append(ls)
                keep += [sub, ls]
            prof = ls.profile
            if prof is None:      # the first access after adding a second layer only sets up callbacks
                prof = ls.profile
            x, y = prof
            if len(y) == 0 and len(x) == 0:
                out = ["res", [sh[xa]], ["nan"] * sh[xa]]     # all-NaN profiles are plotted as empty
            else:
                out = canon_result(y)
            del keep
            return out
        finally:
            gc.enable()

    def line(self, case, pyout):
        from harness.core import sx
        return sx(["prof", self._stat_case(case), pyout])

    def nontrivial(self, case, po):
        return isinstance(po, list) and case[2] is not None

    def signature(self, case, po, res):
        return {"construct": "plain-nan" if res.get("br") == "plain-nan" else "none", "br": res.get("br")}

    def shrink(self, case):
        sh, flat, sel, xa, func = case
        if sel is not None:
            yield [sh, flat, None, xa, func]
        if func != "sum":
            yield [sh, flat, sel, xa, "sum"]


class HistStateFamily(Family):
    """HistogramLayerState.histogram == compute_histogram over the sorted viewer limits (clean stratum:
    no value on an interior bin edge)."""
    name = "histstate"
    exhaustive = False
    batch = 100
    budget_share = 0.5

    def cases(self, tier, rng):
        quick = tier == "quick"
        n = 0
        target = 500 if quick else 8000
        while n < target:
            log = rng.random() < 0.3
            pool = LOGPOOL if log else HPOOL
            sh = rng.choice([[rng.randint(1, 7)], [2, 3]])
            size = int(np.prod(sh))
            flat = [rng.choice(["nan", "pinf", "ninf"]) if rng.random() < 0.1 else rng.choice(pool) for _ in range(size)]
            r0, r1 = rng.choice(pool), rng.choice(pool)
            if dec(r0) == dec(r1):
                continue
            if log and (dec(r0) <= 0 or dec(r1) <= 0):
                continue
            sel = None if rng.random() < 0.5 else rand_sel(rng, sh)
            case = [sh, flat, None, sel, r0, r1, rng.randint(1, 6), log]
            if has_interior_edge(case):
                continue
            n += 1
            yield case

    def run_impl(self, case):
        from glue.viewers.histogram.state import HistogramViewerState, HistogramLayerState
        sh, flat, w, sel, r0, r1, bins, log = case
        gc.disable()
        try:
            d = make_data(sh, flat)
            vs = HistogramViewerState()
            ls = HistogramLayerState(viewer_state=vs, layer=d)
            vs.layers.append(ls)
            keep = [d, vs, ls]
            if sel is not None:
                sub = d.new_subset()
                sub.subset_state = make_sel(d, sel)
                ls = HistogramLayerState(viewer_state=vs, layer=sub)
                vs.layers.append(ls)
                keep += [sub, ls]
            vs.x_att = d.id["x"]
            vs.x_log = log
            vs.cumulative = False
            vs.normalize = False
            vs.hist_n_bin = bins
            vs.hist_x_min = dec(r0)
            vs.hist_x_max = dec(r1)
            edges, h = ls.histogram
            assert len(edges) == bins + 1
            out = [enc(v) for v in np.asarray(h, dtype=float).ravel()]
            del keep
            return out
        finally:
            gc.enable()

    def line(self, case, pyout):
        from harness.core import sx
        return sx(["histstate", case, pyout])

    def nontrivial(self, case, po):
        return isinstance(po, list) and any(v != "0" for v in po)

    def signature(self, case, po, res):
        return {"tot": res.get("tot"), "adm": res.get("adm"), "br": res.get("br")}


PROP = Property(
    id="C10",
    title="Statistics and histograms equal their definition regardless of chunking or views",
    theorems=["C10.stat_bbox_eq", "C10.stat_bbox_shape", "C10.stat_chunked_eq", "C10.stat_chunked_shape",
              "C10.stat_slice_shortcut_eq", "C10.stat_refines_spec_partial", "C10.stat_shape", "C10.F10c_witness",
              "C10.reduce_partition_min", "C10.reduce_partition_max", "C10.reduce_partition_sum",
              "C10.hist_total", "C10.hist_bin", "C10.hist_bin_top", "C10.hist_perbin_partial", "C10.F10_witness"],
    families=[StatFamily(), HistFamily(), ProfFamily(), HistStateFamily()],
    trusted_base=["numpy reducers (nanmin/nanmax/nansum/nanmean/nanmedian/nanpercentile and the plain ones), "
                  "fast_histogram.histogram1d and IEEE double arithmetic are assumed to agree with exact "
                  "arithmetic on the generated exactly-representable data (sum/min/max compared exactly, "
                  "mean/median/percentile within rel. tol. 1e-12 checked by the Lean driver)",
                  "subset_state.to_mask(data, view) == full mask[view] (property C04) — the model evaluates "
                  "the selection to its full-shape mask"],
    assumptions=["data values are small dyadic rationals, NaN or ±inf; zero-size views and zero-width histogram "
                 "ranges at 0 (fast_histogram crashes) are outside the generated domain"],
    rule="exhaustive small scope (3 shapes x 12 selection kinds x all axis subsets x all views from a per-axis item "
         "set x chunk limits, statistic/filter rotating) plus seeded random beyond (shapes <=4-d, dims <=3/4); "
         "non-trivial = a selection, a view or a chunk limit is present / histogram has a non-zero bin",
)
