"""C10 — statistics and histograms equal their definition regardless of chunking or views.

Real `glue.core.Data.compute_statistic` / `compute_histogram` (and, through headless viewer
states, `ProfileLayerState.profile` / `HistogramLayerState.histogram`) against the Lean model
`GlueVerif.Stats`.  Components are stored in every numeric dtype (float16/32/64, int8..int64,
uint8..uint64, bool); every stored value is sent as its exact rational value, the returned doubles
(or integers) likewise, and the Lean driver decides with `Stats.specAccept` whether a returned cell
is an acceptable double-precision evaluation of the exact statistic of the kept values: exact where
every partial sum is a double (all the small dyadic data), correctly rounded where one rounding
separates the two, and otherwise within the forward error bound of a double-precision evaluation
computed exactly from the inputs (n·2^-52·Σ|x| for a sum of n values, …) — a bound that a single or
half precision accumulation misses by many orders of magnitude.
"""
import gc
import itertools
import json
import os
import warnings
from fractions import Fraction

from harness import core
from harness.core import Family, Property, use_repo, VERIF

use_repo()
import numpy as np  # noqa: E402

warnings.simplefilter("ignore")

from glue.core import Data  # noqa: E402
from glue.core.subset import (SliceSubsetState, RangeSubsetState, MaskSubsetState,  # noqa: E402
                              RoiSubsetState)
from glue.core.roi import RectangularROI  # noqa: E402

BIG = 40000000
STATS = ["minimum", "maximum", "mean", "median", "sum"]

# findings: KNOWN_FINDINGS.json is assembled from props.d/ by the integrator; in a builder worktree
# (and until then) this property's fragment is read as well.  Entries are merged by id.
_orig_load_findings = core.load_findings


def _load_findings(prop_id):
    got = list(_orig_load_findings(prop_id))
    if prop_id != "C10":
        return got
    try:
        extra = json.load(open(os.path.join(VERIF, "props.d", "C10", "findings.json")))
    except Exception:
        extra = []
    have = {f.get("id") for f in got}
    return got + [f for f in extra if f.get("property") == "C10" and f.get("id") not in have]


core.load_findings = _load_findings


# ------------------------------------------------------------------------------------------
# value codec:  int | "nan" | "pinf" | "ninf" | ["q", num, den]
# ------------------------------------------------------------------------------------------

def dec(v):
    if v == "nan":
        return float("nan")
    if v == "pinf":
        return float("inf")
    if v == "ninf":
        return float("-inf")
    if isinstance(v, (list, tuple)):
        return v[1] / v[2]
    return float(v)


def enc(x):
    x = float(x)
    if x != x:
        return "nan"
    if x == float("inf"):
        return "pinf"
    if x == float("-inf"):
        return "ninf"
    f = Fraction(x)
    if f.denominator == 1:
        return int(f.numerator)
    return ["q", int(f.numerator), int(f.denominator)]


def enc_exact(x):
    """exact value of any numpy / python scalar (integers are never routed through a double)"""
    if isinstance(x, (bool, np.bool_)):
        return int(x)
    if isinstance(x, (int, np.integer)):
        return int(x)
    return enc(x)


def qv(num, den=1):
    f = Fraction(num, den)
    return int(f.numerator) if f.denominator == 1 else ["q", int(f.numerator), int(f.denominator)]


def is_special(v):
    return v in ("nan", "pinf", "ninf")


# ------------------------------------------------------------------------------------------
# building glue objects from a case
# ------------------------------------------------------------------------------------------

DTYPES = {"f2": np.float16, "f4": np.float32, "f8": np.float64,
          "i1": np.int8, "i2": np.int16, "i4": np.int32, "i8": np.int64,
          "u1": np.uint8, "u2": np.uint16, "u4": np.uint32, "u8": np.uint64, "b1": np.bool_}
ALL_DT = list(DTYPES)


def make_array(sh, flat, dt="f8"):
    """The component as it is stored.  Every value of a generated case is exactly representable in
    `dt` (the Lean driver re-checks this: `DType.holds`), so the conversions below are exact."""
    if dt[0] == "f":
        arr = np.array([dec(v) for v in flat], dtype=np.float64)
        if dt != "f8":
            arr = arr.astype(DTYPES[dt])
    else:
        arr = np.array([int(v) for v in flat], dtype=np.int64 if dt != "u8" else np.uint64).astype(DTYPES[dt])
    return arr.reshape(tuple(sh))


def make_data(sh, flat, weights=None, dt="f8", wdt="f8", yflat=None):
    kw = {"x": make_array(sh, flat, dt)}
    if weights is not None:
        kw["w"] = make_array(sh, weights, wdt)
    if yflat is not None:
        kw["y"] = make_array(sh, yflat, "f8")
    return Data(**kw)


def stat_dt(case):
    return case[9] if len(case) > 9 else "f8"


def make_sel(d, sel, x=None):
    """`x` = the attribute the inequality leaves refer to (default: the component named "x")"""
    if sel is None:
        return None
    k = sel[0]
    if x is None:
        x = d.id["x"]
    px = d.pixel_component_ids
    if k == "gt":
        return x > dec(sel[1])
    if k == "lt":
        return x < dec(sel[1])
    if k == "ge":
        return x >= dec(sel[1])
    if k == "le":
        return x <= dec(sel[1])
    if k == "pixrange":
        return RangeSubsetState(dec(sel[2]), dec(sel[3]), att=px[sel[1]])
    if k == "pixgt":
        return px[sel[1]] > dec(sel[2])
    if k == "roi":
        roi = RectangularROI(dec(sel[3]), dec(sel[4]), dec(sel[5]), dec(sel[6]))
        return RoiSubsetState(xatt=px[sel[1]], yatt=px[sel[2]], roi=roi)
    if k == "bits":
        return MaskSubsetState(np.array(sel[1:], dtype=bool).reshape(d.shape), px)
    if k == "slice":
        return SliceSubsetState(d, [slice(*t) for t in sel[1:]])
    if k == "and":
        return make_sel(d, sel[1], x) & make_sel(d, sel[2], x)
    if k == "or":
        return make_sel(d, sel[1], x) | make_sel(d, sel[2], x)
    if k == "xor":
        return make_sel(d, sel[1], x) ^ make_sel(d, sel[2], x)
    if k == "not":
        return ~make_sel(d, sel[1], x)
    raise ValueError(sel)


def make_view(view):
    if view is None:
        return None
    if view == "E":
        return Ellipsis
    return tuple(it[1] if it[0] == "i" else slice(it[1], it[2], it[3]) for it in view[1:])


def make_axis(axis):
    if axis is None or isinstance(axis, int):
        return axis
    return tuple(axis[1:])


def canon_result(r):
    a = np.asarray(r)
    if a.dtype.kind in "iub":
        return ["res", list(a.shape), [int(v) for v in a.ravel().tolist()]]
    a = a.astype(float)     # float16 / float32 -> double is exact
    return ["res", list(a.shape), [enc(v) for v in a.ravel()]]


def view_ndim(sh, view):
    if view is None or view == "E":
        return len(sh)
    return len(sh) - sum(1 for it in view[1:] if it[0] == "i")


def view_is_empty(sh, view):
    if view is None or view == "E":
        return False
    for h, it in zip(sh, view[1:]):
        if it[0] == "s" and len(range(*slice(it[1], it[2], it[3]).indices(h))) == 0:
            return True
    return False


# ------------------------------------------------------------------------------------------
# generators
# ------------------------------------------------------------------------------------------

POOL = list(range(-4, 9)) + [qv(1, 2), qv(-3, 2), qv(5, 4), qv(13, 4), qv(-1, 4)]


def rand_value(rng, special=0.25):
    if rng.random() < special:
        return rng.choice(["nan", "nan", "pinf", "ninf"])
    return rng.choice(POOL)


def fixed_data(sh, salt=0):
    n = int(np.prod(sh))
    base = [3, -2, "nan", 7, qv(1, 2), "pinf", 0, 5, -4, "ninf", 2, 8, qv(-3, 2), 1, 6, 4, -1, qv(13, 4)]
    out = [base[(i * 5 + salt) % len(base)] for i in range(n)]
    return out


# ------------------------------------------------------------------------------------------
# storage dtypes: values that stress the precision of the *storage* format.  `anchor` = magnitudes at
# which the format has run out of bits (2048 for float16, 2**24 for float32, 2**53 for 64-bit integers
# seen as doubles) or is about to overflow (65504, 3.4e38, 127, 2**31-1, ...); `small` = addends that a
# reduction carried out in the storage format would lose next to an anchor.  Every value is exactly
# representable in its dtype; exact results stay far inside the double range, integer sums inside int64.
# ------------------------------------------------------------------------------------------

F4MAX = (2 ** 24 - 1) * 2 ** 104
TYPED = {
    "f2": dict(anchor=[2048, 4096, 2050, 32768, 65504, 60000, -65504, -2048, 1024],
               small=[1, 1, 3, qv(1, 2), 2, -1, 5, qv(3, 4), qv(1, 1024), qv(1, 2 ** 24), qv(1, 2 ** 14), 7]),
    "f4": dict(anchor=[2 ** 24, 2 ** 24 + 2, 2 ** 25, F4MAX, 15000000 * 2 ** 104, -F4MAX, 2 ** 100, 2 ** 31, -2 ** 24, 2 ** 24 - 1],
               small=[1, 1, 3, qv(1, 2), 2, -1, 5, 100, qv(1, 1024), qv(1, 2 ** 149), qv(1, 2 ** 126), 7]),
    "f8": dict(anchor=[2 ** 53, 2 ** 53 + 2, -2 ** 53, 2 ** 60, 2 ** 100, 2 ** 24 + 1, 2 ** 31 + 1, -2 ** 60, 1234567890123],
               small=[1, 1, 3, qv(1, 2), 2, -1, 5, 100, qv(1, 1024), qv(1, 2 ** 60), qv(13, 4), 7]),
    "i1": dict(anchor=[127, -128, 100, -100, 126, 64], small=[1, 1, 3, 2, -1, 0, 5, 7]),
    "u1": dict(anchor=[255, 254, 200, 128, 100], small=[1, 1, 3, 2, 0, 5, 7]),
    "i2": dict(anchor=[32767, -32768, 30000, 2049, -2049, 20000], small=[1, 1, 3, 2, -1, 0, 5, 7]),
    "u2": dict(anchor=[65535, 65534, 40000, 2049, 32768], small=[1, 1, 3, 2, 0, 5, 7]),
    "i4": dict(anchor=[2 ** 31 - 1, -2 ** 31, 2 ** 24 + 1, 2 ** 24 + 3, 2 ** 30 + 1, -(2 ** 24 + 1), 2 ** 31 - 5],
               small=[1, 1, 3, 2, -1, 0, 5, 7, 1000]),
    "u4": dict(anchor=[2 ** 32 - 1, 2 ** 31, 2 ** 24 + 1, 2 ** 31 + 1, 2 ** 32 - 3], small=[1, 1, 3, 2, 0, 5, 7, 1000]),
    "i8": dict(anchor=[2 ** 53 + 1, 2 ** 53 - 1, -(2 ** 53 + 1), 2 ** 53 + 3, 2 ** 31, 2 ** 24 + 1, 2 ** 55 + 1, -2 ** 31 - 1],
               small=[1, 1, 3, 2, -1, 0, 5, 7, 1000]),
    "u8": dict(anchor=[2 ** 53 + 1, 2 ** 53 + 3, 2 ** 55 + 1, 2 ** 32 + 1, 2 ** 24 + 1, 2 ** 31], small=[1, 1, 3, 2, 0, 5, 7, 1000]),
    "b1": dict(anchor=[1], small=[0, 1, 1, 0, 1]),
}
IS_FLOAT = {dt: dt[0] == "f" for dt in DTYPES}


def typed_fixed(dt, sh, salt=0):
    """deterministic stress array: an anchor at every third position, small addends elsewhere, one NaN /
    infinity for the float dtypes"""
    n = int(np.prod(sh))
    t = TYPED[dt]
    out = []
    for i in range(n):
        if i % 3 == 0:
            out.append(t["anchor"][(i // 3 + salt) % len(t["anchor"])])
        else:
            out.append(t["small"][(i * 5 + salt) % len(t["small"])])
    if IS_FLOAT[dt] and n >= 5:
        out[(4 + salt) % n] = "nan" if salt % 2 == 0 else "pinf"
    return out


def typed_random(rng, dt, n):
    t = TYPED[dt]
    mode = rng.random()
    if mode < 0.2:       # one anchor, many equal small addends (the classic absorbed-addend pattern)
        a, b = rng.choice(t["anchor"]), rng.choice(t["small"])
        out = [b] * n
        out[rng.randrange(n)] = a
    elif mode < 0.35:    # anchors only (overflow of the storage format in sums / means)
        out = [rng.choice(t["anchor"]) for _ in range(n)]
    else:
        pa = rng.choice([0.15, 0.3, 0.5])
        out = [rng.choice(t["anchor"]) if rng.random() < pa else rng.choice(t["small"]) for _ in range(n)]
    if IS_FLOAT[dt]:
        ps = rng.choice([0.0, 0.0, 0.1, 0.25])
        out = [rng.choice(["nan", "nan", "pinf", "ninf"]) if rng.random() < ps else v for v in out]
    return out


def safe_thresholds(dt, flat):
    """comparison constants that numpy compares exactly with a component of this dtype: representable
    in the dtype (numpy compares a float16/float32 array with a Python float in the array's
    precision) and, for 64-bit integers (converted to doubles for the comparison), far from 2**53"""
    base = [0, 1, 2, 1000] if dt != "b1" else [0, 1]
    if IS_FLOAT[dt]:
        base += [qv(5, 2), qv(1, 2), -1]
        base += [v for v in flat if not is_special(v)][:6]
    else:
        base += [qv(5, 2), qv(1, 2), -1]
        base += [v for v in flat if abs(v) <= 2 ** 40][:6]
    return base


def typed_sels(dt, sh, flat):
    nd = len(sh)
    n = int(np.prod(sh))
    thr = safe_thresholds(dt, flat)
    big = thr[-1]
    out = [None, ["gt", 1], ["le", big], ["bits"] + [i != 1 for i in range(n)],
           ["slice"] + [[None, None, None]] * nd, ["slice", [1, None, None]]]
    return out


def typed_views(sh):
    nd = len(sh)
    out = [None, "E", ["v", ["s", None, None, None]], ["v", ["s", 0, sh[0] - 1, None]]]
    if nd >= 2:
        out += [["v", ["s", None, None, None], ["s", 0, 1, None]], ["v", ["s", 1, None, None], ["i", 0]],
                ["v", ["s", None, None, 2]]]
    return out


def slice_items(h, rich):
    its = [["s", None, None, None], ["s", 1, None, None], ["s", 0, max(1, h - 1), None], ["s", None, None, 2],
           ["i", 0], ["i", -1]]
    if rich:
        its += [["s", 1, None, 2], ["s", -2, None, 1], ["i", h // 2], ["s", 0, 1, None]]
    return its


def sels_for(sh, flat, rng=None, rich=False):
    nd = len(sh)
    n = int(np.prod(sh))
    out = [None, ["gt", 2], ["lt", qv(5, 2)], ["gt", 1000], ["pixrange", nd - 1, qv(1, 2), qv(3, 2)],
           ["pixgt", 0, 0], ["slice", [1, None, None]], ["slice"] + [[None, None, 2]] * nd,
           ["bits"] + [(i * 7 + 3) % 5 < 2 for i in range(n)],
           ["and", ["gt", 0], ["lt", 6]]]
    if nd >= 2:
        out.append(["roi", 0, nd - 1, qv(-1, 2), qv(3, 2), qv(1, 2), qv(5, 2)])
        out.append(["slice", [0, 1, None], [1, None, None]])
    if rich:
        out += [["not", ["gt", 2]], ["or", ["pixgt", nd - 1, 0], ["le", -2]], ["ge", 7],
                ["xor", ["gt", 2], ["pixrange", 0, 0, 0]], ["bits"] + [i == n - 1 for i in range(n)],
                ["slice"] + [[None, None, None]] * nd]
    return out


def axes_for(nd):
    out = [None] + list(range(nd))
    for k in range(0, nd + 1):
        for t in itertools.combinations(range(nd), k):
            out.append(["t"] + list(t))
    return out


def rand_sel(rng, sh, depth=0, thr=None):
    nd = len(sh)
    n = int(np.prod(sh))
    r = rng.random()
    if depth < 2 and r < 0.15:
        op = rng.choice(["and", "or", "xor"])
        return [op, rand_sel(rng, sh, depth + 1, thr), rand_sel(rng, sh, depth + 1, thr)]
    if depth < 2 and r < 0.2:
        return ["not", rand_sel(rng, sh, depth + 1, thr)]
    k = rng.choice(["gt", "lt", "ge", "le", "pixrange", "pixgt", "roi", "bits", "bits1", "empty"])
    if k in ("gt", "lt", "ge", "le"):
        return [k, rng.choice(thr if thr is not None else POOL + [qv(7, 2), qv(5, 2)])]
    if k == "pixrange":
        ax = rng.randrange(nd)
        lo = rng.choice([-1, 0, qv(1, 2), 1, qv(3, 2)])
        return ["pixrange", ax, lo, rng.choice([dec(lo) if False else lo, 1, qv(3, 2), 2, 5])]
    if k == "pixgt":
        return ["pixgt", rng.randrange(nd), rng.choice([-1, 0, qv(1, 2), 1, 2])]
    if k == "roi" and nd >= 2:
        ax, ay = rng.sample(range(nd), 2)
        x0 = rng.choice([qv(-1, 2), qv(1, 2), qv(3, 2)])
        y0 = rng.choice([qv(-1, 2), qv(1, 2), qv(3, 2)])
        return ["roi", ax, ay, x0, qv(Fraction(dec(x0)) + rng.choice([1, 2, 3])), y0, qv(Fraction(dec(y0)) + rng.choice([1, 2, 3]))]
    if k == "bits1":
        j = rng.randrange(n)
        return ["bits"] + [i == j for i in range(n)]
    if k == "empty":
        return ["gt", 1000] if thr is None else ["and", ["gt", 1], ["lt", 1]]
    p = rng.choice([0.2, 0.5, 0.8])
    return ["bits"] + [rng.random() < p for _ in range(n)]


def rand_slice_sel(rng, sh):
    out = ["slice"]
    for h in sh[:rng.randint(1, len(sh))]:
        b = rng.choice([None, 0, 1, -1, -2, h])
        e = rng.choice([None, None, h, h - 1, 1, -1, 5])
        st = rng.choice([None, 1, 1, 2, 3])
        out.append([b, e, st])
    return out


def rand_view(rng, sh):
    r = rng.random()
    if r < 0.35:
        return None
    if r < 0.42:
        return "E"
    out = ["v"]
    for h in sh[:rng.randint(1, len(sh))]:
        if rng.random() < 0.25:
            out.append(["i", rng.randrange(-h, h)])
        else:
            for _ in range(8):
                b = rng.choice([None, None, 0, 1, -1, -2])
                e = rng.choice([None, None, h, h - 1, 1, -1, 5])
                st = rng.choice([None, None, 1, 1, 2, 3])
                if len(range(*slice(b, e, st).indices(h))) > 0:
                    break
            else:
                b, e, st = None, None, None
            out.append(["s", b, e, st])
    return out


def fix_stat_data(flat, stat, fin):
    """percentile (and median, for safety of the L0 assumption) with ±inf and finite=False is outside
    the modelled domain of numpy's interpolation: replace the infinities."""
    if not fin and isinstance(stat, list):
        return [1 if v in ("pinf", "ninf") else v for v in flat]
    return flat


class StatFamily(Family):
    name = "stat"
    exhaustive = False
    batch = 400
    # failures of the capped finding stratum (F10c) must not use up the per-family failure record, or a
    # defect that only shows in a later stratum (e.g. one storage dtype) would never be reported
    known_findings_uncounted = True
    budget_share = 3.0
    case_timeout = 20.0

    def reset(self):
        pass

    # ---- cases -------------------------------------------------------------------------
    def cases(self, tier, rng):
        # finding stratum (plain, non-NaN-aware path with a NaN in the data, F10c) is capped
        nplain = 0
        for case in self._all_cases(tier, rng):
            sh, flat, sel, axis, fin, pos, stat, view, nmax = case[:9]
            if (not fin and not pos and "nan" in flat and
                    (sel is None or (sel[0] == "slice" and view is None))):
                nplain += 1
                if nplain > 200 or (nplain > 100 and nplain % 2):
                    case = [sh, [0 if v == "nan" else v for v in flat], sel, axis, fin, pos, stat, view, nmax] + case[9:]
            yield case

    def _all_cases(self, tier, rng):
        # the typed strata are interleaved with the float64 ones so that a family that is stopped on its
        # deadline has still seen every stratum
        a = self._cases(tier, rng)
        b = self._typed_cases(tier, rng)
        while True:
            n = 0
            for it, k in ((b, 200), (a, 600)):
                for case in itertools.islice(it, k):
                    n += 1
                    yield case
            if n == 0:
                return

    def _typed_cases(self, tier, rng):
        """Components of every numeric storage dtype with values that stress the storage precision.
        (C) exhaustive core: dtype x stress array x statistic x (axis x selection x view x chunking);
        (D) seeded random beyond, incl. long reduction axes."""
        quick = tier == "quick"
        stats = STATS + [["percentile", 50], ["percentile", 25]] + ([] if quick else [["percentile", 90], ["percentile", qv(75, 2)]])
        combos = [(True, False), (True, False), (False, False), (True, True), (False, True)]
        shapes = [[5], [4, 2]] if quick else [[5], [4, 2], [2, 3], [2, 2, 3]]
        cnt = 0
        for dt in ALL_DT:
            for si, sh in enumerate(shapes):
                nd = len(sh)
                size = int(np.prod(sh))
                flat0 = typed_fixed(dt, sh, salt=si)
                configs = []
                for sel in typed_sels(dt, sh, flat0):
                    for view in typed_views(sh):
                        vnd = view_ndim(sh, view)
                        for axis in axes_for(vnd):
                            nmaxes = [BIG]
                            if view is None and isinstance(axis, list) and len(axis) - 1 == nd - 1 and nd > 1 \
                                    and not (sel is not None and sel[0] == "slice"):
                                nmaxes = [1, max(1, size // 2), BIG]
                            for nmax in nmaxes:
                                configs.append((sel, view, axis, nmax))
                for sti, stat in enumerate(stats):
                    for ci, (sel, view, axis, nmax) in enumerate(configs):
                        cnt += 1
                        if quick and (ci + sti) % 4 and not (sel is None and view is None):
                            continue      # quick: the statistic rotates over the configurations (2 of 7 each)
                        fin, pos = combos[(cnt // 2) % len(combos)]
                        flat = fix_stat_data(flat0, stat, fin)
                        yield [sh, flat, sel, axis, fin, pos, stat, view, nmax, dt]
        # (D) seeded random
        nrand = 4000 if quick else 120000
        for i in range(nrand):
            dt = ALL_DT[i % len(ALL_DT)] if rng.random() < 0.5 else rng.choice(["f2", "f4", "f4", "i1", "i4", "i8", "u1", "f8"])
            long_axis = rng.random() < (0.012 if quick else 0.004)
            if long_axis:
                ln = rng.choice([150, 300, 700] if quick else [300, 700, 1500, 2600])
                sh = rng.choice([[ln], [ln, 2], [2, ln], [ln, 1, 2]])
            else:
                nd = rng.choice([1, 1, 2, 2, 3])
                sh = [rng.randint(1, 5 if nd < 3 else 3) for _ in range(nd)]
            nd = len(sh)
            size = int(np.prod(sh))
            flat = typed_random(rng, dt, size)
            if long_axis and dt in ("i8", "u8"):
                flat = [v if abs(v) < 2 ** 40 or k == 0 else 1 for k, v in enumerate(flat)]   # integer sums stay inside int64
            thr = safe_thresholds(dt, flat)
            r = rng.random()
            if r < 0.3:
                sel = None
            elif r < 0.45:
                sel = rand_slice_sel(rng, sh)
            elif long_axis:
                sel = rng.choice([["gt", 1], ["pixgt", 0, 10], ["le", thr[-1]]])
            else:
                sel = rand_sel(rng, sh, thr=thr)
            view = None if long_axis and rng.random() < 0.6 else rand_view(rng, sh)
            if sel is not None and sel[0] == "slice" and isinstance(view, list):
                view = ["v"] + [["i", it[1] % h] if it[0] == "i" else it for it, h in zip(view[1:], sh)]
            vnd = view_ndim(sh, view)
            r = rng.random()
            if r < 0.25:
                axis = None
            elif r < 0.5 and vnd > 0:
                axis = rng.randrange(vnd)
            elif r < 0.7 and vnd > 1 and view is None:
                keep = rng.randrange(vnd)
                axis = ["t"] + [a for a in range(vnd) if a != keep]
            else:
                axis = ["t"] + [a for a in range(vnd) if rng.random() < 0.6]
            if nd > 1 and rng.random() < 0.2 and not (sel is not None and sel[0] == "slice"):
                view, vnd = None, nd
                keep = rng.randrange(nd)
                axis = ["t"] + [a for a in range(nd) if a != keep]
            stat = rng.choice(["sum", "sum", "mean", "mean"] + STATS + [["percentile", rng.choice([0, 10, 25, qv(75, 2), 50, 66, 90, 100])]])
            fin, pos = rng.choice([(True, False), (True, False), (True, True), (False, False), (False, True)])
            flat = fix_stat_data(flat, stat, fin)
            nmax = rng.choice([BIG, BIG, 1, 2, 3, rng.randint(1, max(1, size)), max(1, size - 1)])
            yield [sh, flat, sel, axis, fin, pos, stat, view, nmax, dt]

    def _cases(self, tier, rng):
        quick = tier == "quick"
        # (A) exhaustive small scope: shapes x selection kinds x all axis subsets x all views x chunk limits,
        #     statistic / filters rotating
        shapes = [[3], [2, 3], [2, 2, 2]] if quick else [[3], [4], [2, 3], [3, 2], [3, 3], [2, 2, 2], [2, 3, 2]]
        combos = [(True, False), (True, False), (True, True), (False, False), (False, True)]
        stats = STATS + [["percentile", 50], ["percentile", 25], ["percentile", qv(75, 2)], ["percentile", 100], ["percentile", 10]]
        cnt = 0
        for sh in shapes:
            nd = len(sh)
            size = int(np.prod(sh))
            flat0 = fixed_data(sh)
            rich = (not quick) and nd <= 2
            per_axis = [slice_items(h, rich) if nd <= 2 else slice_items(h, False)[:4] + [["i", 0]] for h in sh]
            views = [None, "E"]
            for k in range(1, nd + 1):
                for t in itertools.product(*per_axis[:k]):
                    views.append(["v"] + [list(x) for x in t])
            nmaxes = [1, max(1, size // 2), BIG] if quick else [1, 2, 3, max(1, size - 1), size, BIG]
            for sel in sels_for(sh, flat0, rich=not quick):
                for view in views:
                    if sel is not None and sel[0] == "slice" and isinstance(view, list) and any(it[0] == "i" and it[1] < 0 for it in view[1:]):
                        continue   # SliceSubsetState.to_mask mis-handles negative integers in a view (C04's domain)
                    vnd = view_ndim(sh, view)
                    for axis in axes_for(vnd):
                        for nmax in nmaxes:
                            if nmax != BIG and not (view is None and isinstance(axis, list)):
                                continue   # the chunk limit is only looked at for view=None and a tuple axis
                            cnt += 1
                            stat = stats[cnt % len(stats)]
                            fin, pos = combos[(cnt // len(stats)) % len(combos)]
                            flat = fix_stat_data(flat0, stat, fin)
                            yield [sh, flat, sel, axis, fin, pos, stat, view, nmax]
        # (B) seeded random beyond
        nrand = 7000 if quick else 250000
        maxdim = 3 if quick else 4
        for _ in range(nrand):
            nd = rng.choice([1, 2, 2, 3, 3, 4])
            sh = [rng.randint(1, maxdim) for _ in range(nd)]
            while int(np.prod(sh)) > (54 if quick else 108):
                sh[rng.randrange(nd)] = 1
            size = int(np.prod(sh))
            special = rng.choice([0.0, 0.15, 0.4])
            flat = [rand_value(rng, special) for _ in range(size)]
            r = rng.random()
            if r < 0.25:
                sel = None
            elif r < 0.45:
                sel = rand_slice_sel(rng, sh)
            else:
                sel = rand_sel(rng, sh)
            view = rand_view(rng, sh)
            if sel is not None and sel[0] == "slice" and isinstance(view, list):
                view = ["v"] + [["i", it[1] % h] if it[0] == "i" else it for it, h in zip(view[1:], sh)]
            vnd = view_ndim(sh, view)
            r = rng.random()
            if r < 0.2:
                axis = None
            elif r < 0.4 and vnd > 0:
                axis = rng.randrange(vnd)
            elif r < 0.7 and vnd > 1 and view is None:
                keep = rng.randrange(vnd)      # the chunked configuration: all axes but one
                axis = ["t"] + [a for a in range(vnd) if a != keep]
            else:
                axis = ["t"] + [a for a in range(vnd) if rng.random() < 0.5]
            if nd > 1 and rng.random() < 0.25 and not (sel is not None and sel[0] == "slice" and rng.random() < 0.7):
                # the chunked configuration: view None, all axes but one, small chunk limit
                view, vnd = None, nd
                keep = rng.randrange(nd)
                axis = ["t"] + [a for a in range(nd) if a != keep]
            stat = rng.choice(STATS + [["percentile", rng.choice([0, 10, 25, qv(75, 2), 50, 66, 75, 90, 100])]])
            fin, pos = rng.choice([(True, False), (True, False), (True, True), (False, False), (False, True)])
            flat = fix_stat_data(flat, stat, fin)
            nmax = rng.choice([BIG, 1, 2, 3, rng.randint(1, max(1, size)), max(1, size - 1)])
            yield [sh, flat, sel, axis, fin, pos, stat, view, nmax]

    # ---- execution ---------------------------------------------------------------------
    def run_impl(self, case):
        sh, flat, sel, axis, fin, pos, stat, view, nmax = case[:9]
        gc.disable()
        try:
            d = make_data(sh, flat, dt=stat_dt(case))
            st = make_sel(d, sel)
            kw = {}
            if isinstance(stat, list):
                sname, kw["percentile"] = "percentile", dec(stat[1])
            else:
                sname = stat
            r = d.compute_statistic(sname, d.id["x"], subset_state=st, axis=make_axis(axis), finite=fin,
                                    positive=pos, view=make_view(view), n_chunk_max=nmax, **kw)
            out = canon_result(r)
            del st, d
            return out
        finally:
            gc.enable()

    def nontrivial(self, case, po):
        sh, flat, sel, axis, fin, pos, stat, view, nmax = case[:9]
        return isinstance(po, list) and (sel is not None or view is not None or nmax != BIG or stat_dt(case) != "f8")

    def signature(self, case, po, res):
        sh, flat, sel, axis, fin, pos, stat, view, nmax = case[:9]
        vk = "none" if view is None else "ellipsis" if view == "E" else "tuple"
        return {"stat": stat if isinstance(stat, str) else "percentile",
                "sel": "none" if sel is None else sel[0],
                "view": vk,
                "view_has_int": vk == "tuple" and any(it[0] == "i" for it in view[1:]),
                "view_has_step": vk == "tuple" and any(it[0] == "s" and it[3] not in (None, 1) for it in view[1:]),
                "axis": "none" if axis is None else "int" if isinstance(axis, int) else "tuple",
                "py": po if isinstance(po, str) else (po[0] if po and po[0] == "py-exception" else "value"),
                "construct": "plain-nan" if str(res.get("br")).endswith("plain-nan") else "none",
                "dtype": stat_dt(case),
                "br": res.get("br")}

    def shrink(self, case):
        sh, flat, sel, axis, fin, pos, stat, view, nmax = case[:9]
        tail = case[9:]

        def mk(**kw):
            c = dict(sh=sh, flat=flat, sel=sel, axis=axis, fin=fin, pos=pos, stat=stat, view=view, nmax=nmax)
            c.update(kw)
            return [c["sh"], c["flat"], c["sel"], c["axis"], c["fin"], c["pos"], c["stat"], c["view"], c["nmax"]] + tail
        # long arrays: halve the leading axis first (no selection / view that refers to positions)
        if len(flat) > 24 and sel is None and view is None and sh[0] > 4:
            h = sh[0] // 2
            rest = len(flat) // sh[0]
            yield mk(sh=[h] + sh[1:], flat=flat[:h * rest])
            yield mk(sh=[sh[0] - h] + sh[1:], flat=flat[h * rest:])
        if nmax != BIG and not (view is None and isinstance(axis, list)):
            yield mk(nmax=BIG)
        if stat != "sum":
            yield mk(stat="sum")
        if not fin or pos:
            yield mk(fin=True, pos=False)
        if sel is not None:
            if sel[0] in ("and", "or", "xor"):
                yield mk(sel=sel[1])
                yield mk(sel=sel[2])
            if sel[0] == "not":
                yield mk(sel=sel[1])
        if view == "E":
            yield mk(view=None)
        if isinstance(view, list):
            vnd = view_ndim(sh, view)
            for i, it in enumerate(view[1:], 1):
                if it[0] == "s" and it != ["s", None, None, None]:
                    v2 = [list(x) if isinstance(x, list) else x for x in view]
                    v2[i] = ["s", None, None, None]
                    yield mk(view=v2)
            if all(it == ["s", None, None, None] for it in view[1:]) and len(view) > 2:
                yield mk(view=view[:-1])
        # simplify data values
        for i, v in enumerate(flat):
            if v not in (0, 1):
                f2 = list(flat)
                f2[i] = 1 if v != 1 and (is_special(v) or dec(v) > 0) else 0
                yield mk(flat=f2)
                if i > 12:
                    break


# ------------------------------------------------------------------------------------------
# histogram
# ------------------------------------------------------------------------------------------

HPOOL = list(range(-4, 9)) + [qv(1, 2), qv(-3, 2), qv(5, 4), qv(13, 4), qv(-1, 4), qv(1, 4), 10, 16, 100]
LOGPOOL = [qv(1, 8), qv(1, 4), qv(1, 2), 1, 2, 3, 4, 5, 8, 10, 16, 25, 100, qv(3, 2)]


def crashes_fast_histogram(r0, r1, log):
    """Zero-width range whose (log-space) upper end is 0: the nudge is a denormal, the bin scale
    overflows and fast_histogram indexes with int(nan) (observed: segmentation fault)."""
    a, b = dec(r0), dec(r1)
    if a != b:
        return False
    return (a == 1) if log else (a == 0)


def fr(v):
    return Fraction(v[1], v[2]) if isinstance(v, list) else Fraction(v)


def has_interior_edge(case):
    """Generator-side stratification only (the verdict is the driver's): does some finite data value
    inside the range lie exactly on an interior bin edge?"""
    sh, flat, w, sel, r0, r1, bins, log = case[:8]
    lo, hi = sorted((fr(r0), fr(r1)))
    if lo == hi or (log and lo <= 0):
        return False
    for v in flat:
        if is_special(v):
            continue
        x = fr(v)
        if not (lo < x < hi):
            continue
        if log:
            if any((hi / lo) ** j == (x / lo) ** bins for j in range(1, bins)):
                return True
        elif ((x - lo) * bins / (hi - lo)).denominator == 1:
            return True
    return False


# typed histogram data: x = base + step*k (k = 0..5), ranges end half a step outside a data value and
# the bin width is a whole number of steps, so no value is on or near a bin edge (clean stratum) while
# neighbouring values fall into different bins — unless x is squeezed through a narrower format first.
HX = {
    "f2": [(2048, 2), (1000, 1), (-2058, 2)],
    "f4": [(2 ** 24, 2), (2 ** 24 - 8, 1), (-(2 ** 24) - 10, 2)],
    "f8": [(2 ** 24 + 1, 1), (2 ** 31 + 1, 1), (2 ** 40 + 1, 1), (-(2 ** 24) - 6, 1)],
    "i1": [(100, 1), (-128, 1), (122, 1)],
    "u1": [(250, 1), (0, 1)],
    "i2": [(32762, 1), (2049, 1), (-32768, 1)],
    "u2": [(65530, 1), (2049, 1)],
    "i4": [(2 ** 24 + 1, 1), (2 ** 31 - 6, 1), (-2 ** 31, 1), (-(2 ** 24) - 6, 1)],
    "u4": [(2 ** 32 - 6, 1), (2 ** 24 + 1, 1)],
    "i8": [(2 ** 24 + 1, 1), (2 ** 31 + 1, 1), (2 ** 40 + 1, 1), (-(2 ** 31) - 6, 1)],
    "u8": [(2 ** 24 + 1, 1), (2 ** 32 + 1, 1), (2 ** 40 + 1, 1)],
    "b1": [(0, 1)],
}
# weights whose double-precision sums are exact in any order (so the bins are compared exactly), but
# not their single / half precision sums
HW = {
    "f2": [2048, 1, 1, 3, qv(1, 2), 4096, 2, -1], "f4": [2 ** 24, 1, 1, 3, qv(1, 2), 2 ** 24 + 2, 2 ** 25, -1],
    "f8": [2 ** 24 + 1, 1, 3, qv(1, 2), 2 ** 31 + 1, 2 ** 40 + 1, -1, qv(5, 4)],
    "i1": [127, 127, 1, 100, -128, 2], "u1": [255, 255, 1, 200, 2], "i2": [32767, 32767, 1, 2049, -32768],
    "u2": [65535, 65535, 1, 2049], "i4": [2 ** 31 - 1, 2 ** 24 + 1, 1, 3, -2 ** 31], "u4": [2 ** 32 - 1, 2 ** 24 + 1, 1, 3],
    "i8": [2 ** 40 + 1, 2 ** 31 + 1, 2 ** 24 + 1, 1, -1], "u8": [2 ** 40 + 1, 2 ** 32 + 1, 2 ** 24 + 1, 1], "b1": [1, 0, 1],
}


def typed_hist_case(rng, xdt, wdt, base_step=None):
    b, st = base_step if base_step is not None else rng.choice(HX[xdt])
    kmax = 1 if xdt == "b1" else 5
    sh = rng.choice([[rng.randint(1, 8)], [2, 3], [3, 2], [2, 2, 2]])
    n = int(np.prod(sh))
    flat = [b + st * rng.randint(0, kmax) for _ in range(n)]
    if IS_FLOAT[xdt]:
        flat = [rng.choice(["nan", "pinf", "ninf"]) if rng.random() < 0.1 else v for v in flat]
    k0 = rng.randint(0, kmax)
    k1 = rng.randint(k0, kmax)
    width = k1 - k0 + 1
    bins = rng.choice([m for m in range(1, 7) if width % m == 0])
    r0 = qv(Fraction(b + st * k0) - Fraction(st, 2))
    r1 = qv(Fraction(b + st * k1) + Fraction(st, 2))
    if rng.random() < 0.15:
        r0, r1 = r1, r0
    w = None if wdt is None else [rng.choice(HW[wdt]) for _ in range(n)]
    sel = None if rng.random() < 0.6 else rand_sel(rng, sh, thr=safe_thresholds(xdt, flat))
    return [sh, flat, w, sel, r0, r1, bins, False, [xdt, wdt or "f8"]]


# closed-range ends that coincide EXACTLY with data values, at magnitudes from 1e-12 to 1e15 (the
# viewers' default range is the data minimum / maximum): the value on the upper end must be counted in
# the last bin — in log space this depends on the 10-ulp pad being applied to log10(xmax), where an ulp
# is up to 1e8 times coarser relative to xmax than an ulp of xmax itself.
XMAG = [float("%ge%d" % (m, e)) for e in (-12, -9, -5, -2, 0, 2, 4, 6, 8, 10, 12, 15) for m in (1, 2, 3, 5, 7, 2.5)]
XLIN = [(2459000.5, [0, qv(1, 4), qv(3, 2), 10, qv(1461, 4), 1000]), (1e15, [0, 2 ** 20, 3 * 2 ** 20, 2 ** 30, 5 * 2 ** 28 + 2 ** 19, 2 ** 40]),
        (1e10, [0, qv(1, 2), 1000, 123456, 2 ** 24 + 1, 10 ** 9]), (-1e12, [0, 2 ** 10, 2 ** 20, 3 * 2 ** 19, 10 ** 9, 2 ** 36])]
XW = [1, 2, 4, 8, 16, qv(1, 2), 3, qv(5, 4), 0, -1]


def near_log_edge(case, guard=1e-9):
    """generator-side stratification only: a kept value whose position in log space is within `guard`
    bins of an interior edge without lying exactly on it (np.log10 rounding would decide its bin)"""
    import math
    sh, flat, w, sel, r0, r1, bins, log = case[:8]
    lo, hi = sorted((fr(r0), fr(r1)))
    if not log or lo <= 0 or lo == hi:
        return False
    for v in flat:
        if is_special(v):
            continue
        x = fr(v)
        if not (lo < x < hi):
            continue
        t = bins * (math.log(x) - math.log(lo)) / (math.log(hi) - math.log(lo))
        k = round(t)
        # a log range that is narrow against the magnitude of log10(x): the distance to the edge must also be
        # resolvable by doubles (a few ulp of log10(x), in units of the bin width in log space)
        width = abs(math.log10(hi) - math.log10(lo)) / bins
        res = 16 * 2.0 ** -52 * max(1.0, abs(math.log10(lo)), abs(math.log10(hi))) / width if width > 0 else 1.0
        if 1 <= k <= bins - 1 and abs(t - k) < max(guard, res) and (hi / lo) ** k != (x / lo) ** bins:
            return True
    return False


def lin_clear_of_edges(case):
    """generator-side replica of `Stats.histP` (linear bins): the 10-ulp pad of the upper end is small
    against the range and no kept value lies within it above an interior edge (values exactly on an
    interior edge are the F10 stratum and handled separately)"""
    import math
    sh, flat, w, sel, r0, r1, bins, log = case[:8]
    lo, hi = sorted((fr(r0), fr(r1)))
    if log or lo == hi:
        return True
    eps = 10 * Fraction(math.ulp(float(hi)))
    if (bins - 1) * eps > hi - lo:
        return False
    for v in flat:
        if is_special(v):
            continue
        x = fr(v)
        if not (lo <= x < hi):
            continue
        k = ((x - lo) * bins / (hi - lo)).__floor__()
        if lo + k * (hi + eps - lo) / bins > x:
            return False
    return True


def extreme_hist_case(rng, log):
    if log:
        vals = [enc(v) for v in rng.sample(XMAG, rng.randint(2, 7))]
    else:
        base, offs = rng.choice(XLIN)
        vals = [qv(Fraction(base) + Fraction(dec(o)) if not isinstance(o, list) else Fraction(base) + fr(o))
                for o in rng.sample(offs, rng.randint(2, len(offs)))]
    vals = vals + [rng.choice(vals) for _ in range(rng.randint(0, 3))]      # repeated end values
    rng.shuffle(vals)
    fin = sorted(vals, key=fr)
    r = rng.random()
    if r < 0.6:
        r0, r1 = fin[0], fin[-1]                 # the viewer default: data minimum and maximum
    else:
        r0, r1 = sorted(rng.sample(vals, 2) if len(vals) > 1 else vals * 2, key=fr)
    if rng.random() < 0.25:
        r0, r1 = r1, r0
    flat = list(vals)
    if rng.random() < 0.3:
        flat.insert(rng.randrange(len(flat) + 1), rng.choice(["nan", "pinf", "ninf"]))
    sh = [len(flat)]
    if len(flat) in (4, 6, 8) and rng.random() < 0.3:
        sh = [2, len(flat) // 2]
    w = None if rng.random() < 0.55 else [rng.choice(XW) for _ in flat]
    sel = None if rng.random() < 0.7 else rng.choice([["pixgt", 0, 0], ["bits"] + [rng.random() < 0.8 for _ in flat],
                                                      ["ge", fin[len(fin) // 2]], ["le", fin[-1]]])
    return [sh, flat, w, sel, r0, r1, rng.randint(1, 6), log]


def hist_dts(case):
    return case[8] if len(case) > 8 else ["f8", "f8"]


class HistFamily(Family):
    name = "hist"
    exhaustive = False
    batch = 500
    known_findings_uncounted = True      # F10 stratum (see StatFamily)
    budget_share = 1.5

    def cases(self, tier, rng):
        # finding stratum (values on interior bin edges, F10) is capped so that it cannot exhaust the
        # per-family failure budget; everything else is the clean stratum
        nedge = 0
        for case in self._cases(tier, rng):
            if has_interior_edge(case):
                nedge += 1
                if nedge > 220 or (nedge > 110 and nedge % 2):
                    continue
            yield case

    def _cases(self, tier, rng):
        a = self._cases_f8(tier, rng)
        b = self._typed_cases(tier, rng)
        c = self._extreme_cases(tier, rng)
        while True:
            n = 0
            for it, k in ((c, 100), (b, 100), (a, 500)):
                for case in itertools.islice(it, k):
                    n += 1
                    yield case
            if n == 0:
                return

    def _extreme_cases(self, tier, rng):
        """range ends exactly on data values at magnitudes 1e-12 .. 1e15 (log space), and linear
        histograms at large magnitudes (2459000.5, 1e10, 1e15, -1e12); reversed ranges, weights,
        selections.  Values that np.log10 rounding (log) or the 10-ulp pad (linear) would move across an
        interior edge without lying on it are left out; values exactly on one are the capped F10 stratum."""
        quick = tier == "quick"
        # fixed: the shapes of the viewers' default ranges
        fixed = [([1e2, 3e4, 5e6, 7e8, 1e10], 4), ([1., 2e3, 5e6, 7e9, 1e12, 1e12], 4), ([5., 3e15, 2e7, 3e15], 3),
                 ([1e-12, 3e-9, 2e-5, 7e-2], 3), ([2.5e-12, 1e15], 5), ([7e8, 7e8], 1), ([3e-9, 5e6, 1e15, 1e15, 1e15], 6),
                 ([2e-12, 5e-12, 7e-12], 2), ([1e8, 3e8, 1e9], 2), ([1e-8, 3e-8, 1e-7], 2)]
        for vals, bins in fixed:
            flat = [enc(v) for v in vals]
            lo, hi = enc(min(vals)), enc(max(vals))
            for (r0, r1) in ((lo, hi), (hi, lo)):
                for w in (None, [XW[i % 5] for i in range(len(flat))]):
                    for log in (True, False):
                        for b in sorted({bins, 1, 2}):
                            case = [[len(flat)], flat, w, None, r0, r1, b, log]
                            if not near_log_edge(case) and (has_interior_edge(case) or lin_clear_of_edges(case)):
                                yield case
        for _ in range(1500 if quick else 30000):
            case = extreme_hist_case(rng, rng.random() < 0.75)
            if crashes_fast_histogram(case[4], case[5], case[7]) or near_log_edge(case):
                continue
            if not has_interior_edge(case) and not lin_clear_of_edges(case):
                continue
            yield case

    def _typed_cases(self, tier, rng):
        """every storage dtype for the attribute and for the weights (clean stratum: no value on or near an edge)"""
        quick = tier == "quick"
        per = 4 if quick else 40
        # finding stratum F10e (capped): log-space histograms of attributes whose np.log10 numpy evaluates in
        # half / single precision (float16, float32, 8- and 16-bit integers, bool); range ends on data values
        narrow_log = [("f4", [1, 16777218], 1, 16777218, 4), ("u1", [0, 7, 0, 1, 0, 2, 2, 3], 2, 7, 2),
                      ("f2", [2050, 32768], 2050, 32768, 5), ("i2", [3, 30000, 500, 7], 3, 30000, 3),
                      ("i1", [1, 100, 10, 3], 1, 100, 3), ("u2", [5, 40000, 300], 5, 40000, 2), ("f4", [3, 5, 7, 1000], 3, 1000, 3)]
        for k in range(3 if quick else 10):
            for xdt, flat, r0, r1, bins in narrow_log:
                b = 1 + (bins + k - 1) % 5
                case = [[len(flat)], flat, None, None, r0, r1, b, True, [xdt, "f8"]]
                if not has_interior_edge(case) and not near_log_edge(case):
                    yield case
        for xdt in ALL_DT:
            for bs in HX[xdt]:
                for j, wdt in enumerate([None] + ALL_DT):
                    for _ in range(per if wdt is None else max(1, per // 3)):
                        yield typed_hist_case(rng, xdt, wdt, bs)

    def _cases_f8(self, tier, rng):
        quick = tier == "quick"
        # (A) structured: fixed arrays, every bin count 1..6, ranges incl. reversed, zero-width, ends on data values
        arrays = [
            ([5], [0, 1, 2, 3, 4]),
            ([6], [-4, -3, -2, -1, "nan", "pinf"]),
            ([6], [qv(1, 2), 2, 2, "ninf", 5, qv(13, 4)]),
            ([2, 3], [1, 2, 4, 8, 16, 3]),
            ([2, 3], [qv(1, 4), qv(1, 2), 1, "nan", 10, 100]),
        ]
        ends = [-4, -1, 0, qv(1, 2), 1, 2, 3, 4, 5, 8] if quick else [-4, -3, -1, 0, qv(1, 4), qv(1, 2), 1, 2, 3, 4, 5, 8, 16, 100]
        for sh, flat in arrays:
            n = len(flat)
            wsets = [None, [((i * 3) % 5) - 1 for i in range(n)]]
            sels = [None, ["gt", 1], ["pixrange", len(sh) - 1, 1, 2], ["gt", 1000]]
            for r0 in ends:
                for r1 in ends:
                    for bins in range(1, 7):
                        for log in (False, True):
                            if crashes_fast_histogram(r0, r1, log):
                                continue
                            k = (bins + len(flat)) % 4
                            yield [sh, flat, wsets[k % 2], sels[k], r0, r1, bins, log]
        # (B) random
        nrand = 6000 if quick else 150000
        for _ in range(nrand):
            log = rng.random() < 0.35
            pool = LOGPOOL if log and rng.random() < 0.8 else HPOOL
            sh = rng.choice([[rng.randint(1, 7)], [2, 3], [3, 2], [2, 2, 2]])
            n = int(np.prod(sh))
            flat = [rng.choice(["nan", "pinf", "ninf"]) if rng.random() < 0.12 else rng.choice(pool) for _ in range(n)]
            finite = [v for v in flat if not is_special(v)]
            r = rng.random()
            if finite and r < 0.5:
                r0, r1 = rng.choice(finite), rng.choice(finite)     # ends on data values
            elif finite and r < 0.7:
                r0, r1 = rng.choice(finite), rng.choice(pool)
            else:
                r0, r1 = rng.choice(pool), rng.choice(pool)
            if rng.random() < 0.15:
                r0, r1 = r1, r0
            if crashes_fast_histogram(r0, r1, log):
                continue
            w = None if rng.random() < 0.6 else [rng.choice([0, 1, 2, -1, qv(1, 2), qv(5, 4), 3]) for _ in range(n)]
            sel = None if rng.random() < 0.5 else rand_sel(rng, sh)
            yield [sh, flat, w, sel, r0, r1, rng.randint(1, 6), log]

    def run_impl(self, case):
        sh, flat, w, sel, r0, r1, bins, log = case[:8]
        xdt, wdt = hist_dts(case)
        gc.disable()
        try:
            d = make_data(sh, flat, w, dt=xdt, wdt=wdt)
            st = make_sel(d, sel)
            try:
                h = d.compute_histogram([d.id["x"]], weights=None if w is None else d.id["w"],
                                        range=[(dec(r0), dec(r1))], bins=[bins], log=[log], subset_state=st)
            except ValueError:
                return "value-error"
            out = [enc_exact(v) for v in np.asarray(h).ravel().tolist()]
            del st, d
            return out
        finally:
            gc.enable()

    def nontrivial(self, case, po):
        return isinstance(po, list) and any(v != "0" for v in po)

    def signature(self, case, po, res):
        br = res.get("br") or ""
        return {"construct": "log-narrow-dtype" if str(br).endswith("-narrowlog") else
                "interior-edge" if str(br).endswith("-edge") else "none",
                "tot": res.get("tot"), "adm": res.get("adm"), "log": bool(case[7]),
                "weights": case[2] is not None, "dtypes": "/".join(hist_dts(case))}

    def shrink(self, case):
        sh, flat, w, sel, r0, r1, bins, log = case[:8]
        t = case[8:]
        if sel is not None:
            yield [sh, flat, w, None, r0, r1, bins, log] + t
        if w is not None:
            yield [sh, flat, None, sel, r0, r1, bins, log] + t
        if len(sh) > 1:
            yield [[len(flat)], flat, w, None if sel is not None else sel, r0, r1, bins, log] + t
        if len(sh) == 1 and len(flat) > 1 and sel is None:
            for i in range(len(flat)):
                f2 = flat[:i] + flat[i + 1:]
                w2 = None if w is None else w[:i] + w[i + 1:]
                yield [[len(f2)], f2, w2, sel, r0, r1, bins, log] + t
        if dec(r0) > dec(r1):
            yield [sh, flat, w, sel, r1, r0, bins, log] + t
        if not t:
            for b in range(1, bins):
                yield [sh, flat, w, sel, r0, r1, b, log]


# ------------------------------------------------------------------------------------------
# what the viewers plot: ProfileLayerState.profile / HistogramLayerState.histogram (headless states)
# ------------------------------------------------------------------------------------------

class ProfFamily(Family):
    """ProfileLayerState.profile == compute_statistic(function, axis=all axes but the x axis)."""
    name = "prof"
    exhaustive = False
    batch = 100
    budget_share = 0.6

    def cases(self, tier, rng):
        quick = tier == "quick"
        funcs = ["maximum", "minimum", "mean", "median", "sum"]
        cnt = 0
        for sh in ([3], [2, 3], [2, 2, 3]):
            flat = fixed_data(sh, salt=1)
            for sel in sels_for(sh, flat):
                if sel is not None and sel[0] == "slice":
                    continue
                for xa in range(len(sh)):
                    cnt += 1
                    yield [sh, flat, sel, xa, funcs[cnt % 5]]
        for i in range(500 if quick else 8000):
            nd = rng.choice([1, 2, 3, 3])
            sh = [rng.randint(1, 3) for _ in range(nd)]
            flat = [rand_value(rng, rng.choice([0.0, 0.2])) for _ in range(int(np.prod(sh)))]
            sel = None if rng.random() < 0.3 else rand_sel(rng, sh)
            yield [sh, flat, sel, rng.randrange(nd), rng.choice(funcs)]
            if i % 2 == 0:
                # the same through a component of another storage dtype, precision-stressing values
                dt = ALL_DT[(i // 2) % len(ALL_DT)]
                sh = [rng.randint(1, 4) for _ in range(nd)]
                flat = typed_random(rng, dt, int(np.prod(sh)))
                sel = None if rng.random() < 0.4 else rand_sel(rng, sh, thr=safe_thresholds(dt, flat))
                yield [sh, flat, sel, rng.randrange(nd), rng.choice(funcs + ["sum", "mean"]), dt]

    def _stat_case(self, case):
        sh, flat, sel, xa, func = case[:5]
        return [sh, flat, sel, ["t"] + [a for a in range(len(sh)) if a != xa], True, False, func, None, BIG] + case[5:]

    def run_impl(self, case):
        from glue.viewers.profile.state import ProfileViewerState, ProfileLayerState
        sh, flat, sel, xa, func = case[:5]
        gc.disable()
        try:
            d = make_data(sh, flat, dt=case[5] if len(case) > 5 else "f8")
            vs = ProfileViewerState()
            ls = ProfileLayerState(viewer_state=vs, layer=d)
            vs.layers.append(ls)
            vs.function = func
            vs.x_att = d.pixel_component_ids[xa]
            keep = [d, vs, ls]
            if sel is not None:
                sub = d.new_subset()
                sub.subset_state = make_sel(d, sel)
                ls = ProfileLayerState(viewer_state=vs, layer=sub)
                vs.layers.append(ls)
                keep += [sub, ls]
            prof = ls.profile
            if prof is None:      # the first access after adding a second layer only sets up callbacks
                prof = ls.profile
            x, y = prof
            if len(y) == 0 and len(x) == 0:
                out = ["res", [sh[xa]], ["nan"] * sh[xa]]     # all-NaN profiles are plotted as empty
            else:
                out = canon_result(y)
            del keep
            return out
        finally:
            gc.enable()

    def line(self, case, pyout):
        from harness.core import sx
        return sx(["prof", self._stat_case(case), pyout])

    def nontrivial(self, case, po):
        return isinstance(po, list) and case[2] is not None

    def signature(self, case, po, res):
        return {"construct": "plain-nan" if str(res.get("br")).endswith("plain-nan") else "none", "br": res.get("br")}

    def shrink(self, case):
        sh, flat, sel, xa, func = case[:5]
        if sel is not None:
            yield [sh, flat, None, xa, func] + case[5:]
        if func != "sum":
            yield [sh, flat, sel, xa, "sum"] + case[5:]


class HistStateFamily(Family):
    """HistogramLayerState.histogram == compute_histogram over the sorted viewer limits (clean stratum:
    no value on an interior bin edge)."""
    name = "histstate"
    exhaustive = False
    batch = 100
    budget_share = 0.5

    def cases(self, tier, rng):
        quick = tier == "quick"
        n = 0
        target = 500 if quick else 8000
        while n < target:
            log = rng.random() < 0.3
            pool = LOGPOOL if log else HPOOL
            sh = rng.choice([[rng.randint(1, 7)], [2, 3]])
            size = int(np.prod(sh))
            flat = [rng.choice(["nan", "pinf", "ninf"]) if rng.random() < 0.1 else rng.choice(pool) for _ in range(size)]
            r0, r1 = rng.choice(pool), rng.choice(pool)
            if dec(r0) == dec(r1):
                continue
            if log and (dec(r0) <= 0 or dec(r1) <= 0):
                continue
            sel = None if rng.random() < 0.5 else rand_sel(rng, sh)
            case = [sh, flat, None, sel, r0, r1, rng.randint(1, 6), log]
            if has_interior_edge(case):
                continue
            n += 1
            yield case
            if n % 3 == 0:
                c2 = typed_hist_case(rng, ALL_DT[(n // 3) % len(ALL_DT)], None)
                if dec(c2[4]) != dec(c2[5]):
                    yield c2
            if n % 3 == 1:
                # the layer's histogram over limits that sit exactly on data values at extreme magnitudes
                c3 = extreme_hist_case(rng, rng.random() < 0.75)
                c3[2] = None
                if dec(c3[4]) != dec(c3[5]) and not has_interior_edge(c3) and not near_log_edge(c3) and lin_clear_of_edges(c3):
                    yield c3

    def run_impl(self, case):
        from glue.viewers.histogram.state import HistogramViewerState, HistogramLayerState
        sh, flat, w, sel, r0, r1, bins, log = case[:8]
        gc.disable()
        try:
            d = make_data(sh, flat, dt=hist_dts(case)[0])
            vs = HistogramViewerState()
            ls = HistogramLayerState(viewer_state=vs, layer=d)
            vs.layers.append(ls)
            keep = [d, vs, ls]
            if sel is not None:
                sub = d.new_subset()
                sub.subset_state = make_sel(d, sel)
                ls = HistogramLayerState(viewer_state=vs, layer=sub)
                vs.layers.append(ls)
                keep += [sub, ls]
            vs.x_att = d.id["x"]
            vs.x_log = log
            vs.cumulative = False
            vs.normalize = False
            vs.hist_n_bin = bins
            vs.hist_x_min = dec(r0)
            vs.hist_x_max = dec(r1)
            edges, h = ls.histogram
            assert len(edges) == bins + 1
            out = [enc_exact(v) for v in np.asarray(h).ravel().tolist()]
            del keep
            return out
        finally:
            gc.enable()

    def line(self, case, pyout):
        from harness.core import sx
        return sx(["histstate", case, pyout])

    def nontrivial(self, case, po):
        return isinstance(po, list) and any(v != "0" for v in po)

    def signature(self, case, po, res):
        return {"tot": res.get("tot"), "adm": res.get("adm"), "br": res.get("br")}


class Hist2Family(Family):
    """Data.compute_histogram with two attributes (the 2-d path: histogram2d, second padded upper end).
    Clean stratum only: on neither axis does a value lie on / near an interior edge; range ends sit
    exactly on data values (the default), linear and log axes at magnitudes 1e-12 .. 1e15."""
    name = "hist2"
    exhaustive = False
    batch = 200
    budget_share = 0.4

    @staticmethod
    def _axis(rng, n):
        """values (length n), range and bin count of one axis, clean in the 1-d sense"""
        for _ in range(40):
            r = rng.random()
            if r < 0.45:
                log = True
                pool = [enc(v) for v in rng.sample(XMAG, min(len(XMAG), rng.randint(2, 5)))]
            elif r < 0.65:
                log = False
                base, offs = rng.choice(XLIN)
                pool = [qv(Fraction(base) + fr(o)) for o in rng.sample(offs, rng.randint(2, len(offs)))]
            else:
                log = rng.random() < 0.4
                pool = rng.sample(LOGPOOL if log else HPOOL, rng.randint(2, 5))
            vals = [rng.choice(pool) for _ in range(n)]
            fin = sorted(set(map(fr, vals)))
            if len(fin) < 2:
                continue
            if rng.random() < 0.7:
                r0, r1 = qv(fin[0]), qv(fin[-1])
            else:
                a, b = sorted(rng.sample(fin, 2))
                r0, r1 = qv(a), qv(b)
            if rng.random() < 0.2:
                r0, r1 = r1, r0
            if rng.random() < 0.2:
                vals[rng.randrange(n)] = rng.choice(["nan", "pinf", "ninf"])
            bins = rng.randint(1, 4)
            probe = [[n], vals, None, None, r0, r1, bins, log]
            if has_interior_edge(probe) or near_log_edge(probe) or not lin_clear_of_edges(probe):
                continue
            return vals, r0, r1, bins, log
        return [1, 2, 4][:n] + [1] * (n - 3), 1, 4, 1, False

    def cases(self, tier, rng):
        quick = tier == "quick"
        # the seeded shape: linear x, log y with the upper end on a data value at 1e12
        yield [[4], [0, 1, 2, 3], [1000, 200000, 700000000, 10 ** 12], None, None, 0, 3, 1000, 10 ** 12, 2, 3, False, True]
        yield [[4], [1000, 200000, 700000000, 10 ** 12], [0, 1, 2, 3], [1, 2, 4, 8], None, 10 ** 12, 1000, 0, 3, 3, 2, True, False]
        for _ in range(600 if quick else 12000):
            sh = rng.choice([[rng.randint(2, 7)], [2, 3], [2, 2]])
            n = int(np.prod(sh))
            xv, rx0, rx1, bx, lx = self._axis(rng, n)
            yv, ry0, ry1, by, ly = self._axis(rng, n)
            w = None if rng.random() < 0.6 else [rng.choice(XW) for _ in range(n)]
            sel = None if rng.random() < 0.7 else rng.choice([["pixgt", 0, 0], ["bits"] + [rng.random() < 0.7 for _ in range(n)]])
            yield [sh, xv, yv, w, sel, rx0, rx1, ry0, ry1, bx, by, lx, ly]

    def run_impl(self, case):
        sh, xv, yv, w, sel, rx0, rx1, ry0, ry1, bx, by, lx, ly = case
        gc.disable()
        try:
            d = make_data(sh, xv, w, yflat=yv)
            st = make_sel(d, sel)
            h = d.compute_histogram([d.id["x"], d.id["y"]], weights=None if w is None else d.id["w"],
                                    range=[(dec(rx0), dec(rx1)), (dec(ry0), dec(ry1))], bins=[bx, by],
                                    log=[lx, ly], subset_state=st)
            h = np.asarray(h)
            assert h.shape == (bx, by), h.shape
            out = [enc_exact(v) for v in h.ravel().tolist()]
            del st, d
            return out
        finally:
            gc.enable()

    def nontrivial(self, case, po):
        return isinstance(po, list) and any(v != "0" for v in po)

    def signature(self, case, po, res):
        return {"tot": res.get("tot"), "bin": res.get("bin"), "br": res.get("br")}

    def shrink(self, case):
        sh, xv, yv, w, sel, rx0, rx1, ry0, ry1, bx, by, lx, ly = case
        if sel is not None:
            yield [sh, xv, yv, w, None, rx0, rx1, ry0, ry1, bx, by, lx, ly]
        if w is not None:
            yield [sh, xv, yv, None, sel, rx0, rx1, ry0, ry1, bx, by, lx, ly]
        if sel is None and len(xv) > 1:
            for i in range(len(xv)):
                yield [[len(xv) - 1], xv[:i] + xv[i + 1:], yv[:i] + yv[i + 1:], None if w is None else w[:i] + w[i + 1:],
                       None, rx0, rx1, ry0, ry1, bx, by, lx, ly]
        if bx > 1:
            yield [sh, xv, yv, w, sel, rx0, rx1, ry0, ry1, 1, by, lx, ly]
        if by > 1:
            yield [sh, xv, yv, w, sel, rx0, rx1, ry0, ry1, bx, 1, lx, ly]


# ------------------------------------------------------------------------------------------
# round 3: SEQUENCES of calls on one dataset and shared subset-state objects
# ------------------------------------------------------------------------------------------
# case = [sh, comps, sels, calls]
#   comps : [[dtype, flat], ...]          attributes c0, c1, ...
#   sels  : [[att, sel], ...]             subset-state OBJECTS (inequality leaves refer to attribute `att`);
#                                         built once, shared by every call that names them
#   calls : ["stat", att, sid|None, axis, finite, positive, statistic, view, n_chunk_max]
#           ["hist", att, watt|None, sid|None, r0, r1, bins, log]
#           ["prof", att, sid|None, x_axis, function]           ProfileLayerState.profile (one viewer state per case)
#           ["hstate", att, sid|None, r0, r1, bins, log]        HistogramLayerState.histogram (idem)
# executed in order on the SAME Data / state / viewer-state objects.  The python observable is
# [results, final masks (to_mask(data, None) and get_mask(state) per state), final stored arrays]; the Lean
# driver judges every call on its own against the definition on the ORIGINAL data / selection and demands
# that the final masks and arrays are the original ones (statistics are read-only).

MEMO_KINDS = ("gt", "lt", "ge", "le", "pixgt", "and", "or", "xor", "not")
NARROW_LOG = ("f2", "f4", "i1", "u1", "i2", "u2", "b1")     # np.log10 is evaluated in half / single precision: finding F10e
SEQ_STATS = ["sum", "mean", "minimum", "maximum", "median", ["percentile", 50]]
FLAGS = [(True, False), (False, False), (True, True), (False, True)]


def comp_has(flat, what):
    return any(v in what for v in flat if isinstance(v, str))


def seq_fix_stat(call, comps, sels):
    """keep a statistic call inside the modelled / finding-free domain: the plain (non-NaN-aware) path
    with a NaN in the data is finding F10c (has its own capped stratum in `stat`), percentiles with an
    infinity and finite=False are outside numpy's modelled interpolation"""
    _, att, sid, axis, fin, pos, stat, view, nmax = call
    flat = comps[att][1]
    nomask = sid is None or (sels[sid][1][0] == "slice" and view is None)
    if not fin and not pos and nomask and comp_has(flat, ("nan",)):
        fin = True
    if not fin and isinstance(stat, list) and comp_has(flat, ("pinf", "ninf")):
        fin = True
    if sid is not None and sels[sid][1][0] == "slice" and isinstance(view, list):
        sh = None
    return ["stat", att, sid, axis, fin, pos, stat, view, nmax]


def hist_is_clean(sh, flat, r0, r1, bins, log):
    probe = [sh, flat, None, None, r0, r1, bins, log]
    if crashes_fast_histogram(r0, r1, log):
        return False
    if log and (fr(r0) <= 0 or fr(r1) <= 0):
        return False
    return not has_interior_edge(probe) and not near_log_edge(probe) and lin_clear_of_edges(probe)


def seq_normalize(case):
    """drop state objects / attributes that no call (and no remaining state) refers to"""
    sh, comps, sels, calls = case
    used_s = sorted({c[2] for c in calls if c[0] in ("stat", "prof", "hstate") and c[2] is not None} |
                    {c[3] for c in calls if c[0] == "hist" and c[3] is not None})
    smap = {s: i for i, s in enumerate(used_s)}
    sels2 = [sels[s] for s in used_s]
    used_c = {c[1] for c in calls} | {c[2] for c in calls if c[0] == "hist" and c[2] is not None} | {s[0] for s in sels2}
    used_c = sorted(used_c)
    cmap = {a: i for i, a in enumerate(used_c)}
    comps2 = [comps[a] for a in used_c]
    sels2 = [[cmap[a], sel] for a, sel in sels2]
    calls2 = []
    for c in calls:
        c = list(c)
        c[1] = cmap[c[1]]
        if c[0] == "hist":
            c[2] = None if c[2] is None else cmap[c[2]]
            c[3] = None if c[3] is None else smap[c[3]]
        else:
            c[2] = None if c[2] is None else smap[c[2]]
        calls2.append(c)
    return [sh, comps2, sels2, calls2]


def call_as_model(call, sh):
    """what the driver is sent for a call: the viewer-state calls are the statistic / histogram they stand for"""
    if call[0] == "prof":
        _, att, sid, xa, func = call
        return ["stat", att, sid, ["t"] + [a for a in range(len(sh)) if a != xa], True, False, func, None, BIG]
    if call[0] == "hstate":
        _, att, sid, r0, r1, bins, log = call
        return ["hist", att, None, sid, r0, r1, bins, log]
    return call


class SeqFamily(Family):
    name = "seq"
    exhaustive = False
    batch = 120
    budget_share = 1.6
    case_timeout = 30.0

    def reset(self):
        # the @memoize tables are process-wide and keyed by object identity: start every case empty
        try:
            from glue.core.decorators import clear_all_caches
            clear_all_caches()
        except Exception:
            pass

    # ---- generators --------------------------------------------------------------------
    def cases(self, tier, rng):
        a = self._core_pairs(tier, rng)
        b = self._core_triples(tier, rng)
        c = self._random(tier, rng)
        v = self._core_viewers(tier, rng)
        while True:
            n = 0
            for it, k in ((a, 300), (b, 120), (v, 12), (c, 180)):
                for case in itertools.islice(it, k):
                    n += 1
                    yield case
            if n == 0:
                return

    @staticmethod
    def _core_world(nd):
        """dataset of the exhaustive core: c0 has NaN / +inf / non-positive values INSIDE every selection,
        c1 is finite, positive and distinct (so a lost element always changes every statistic of c1)"""
        if nd == 1:
            sh = [5]
            c0 = [1, "nan", -4, "pinf", 6]
            c1 = [10, 20, 30, 40, 50]
            bits = [True, True, True, True, False]
            sl = ["slice", [0, 4, None]]
        else:
            sh = [2, 3]
            c0 = [1, "nan", 3, -4, "pinf", 6]
            c1 = [10, 20, 30, 40, 50, 60]
            bits = [True, True, True, True, True, False]
            sl = ["slice", [None, None, None], [0, 2, None]]
        top = c1[-1]
        kinds = {
            "ineq": ["lt", qv(2 * top - 5, 2)],                                   # memoised: all but the last element
            "and": ["and", ["gt", 5], ["lt", qv(2 * top - 5, 2)]],               # memoised composite
            "not": ["not", ["ge", qv(2 * top - 5, 2)]],                          # memoised invert
            "or": ["or", ["lt", 25], ["pixgt", nd - 1, 0]],                      # memoised composite over a pixel inequality
            "bits": ["bits"] + bits,                                             # MaskSubsetState (copies)
            "range": ["pixrange", nd - 1, 0, 1] if nd > 1 else ["pixrange", 0, 0, 3],   # RangeSubsetState (not memoised)
            "slice": sl,                                                         # SliceSubsetState
        }
        return sh, [["f8", c0], ["f8", c1]], kinds

    @staticmethod
    def _modes(nd, sel_kind):
        """(axis, view, nmax): no axis / reduction along all axes but one, un-chunked and chunked / a view"""
        if nd == 1:
            return [(None, None, BIG), (0, None, BIG), (None, ["v", ["s", 1, None, None]], BIG)]
        out = [(None, None, BIG), (["t", 1], None, BIG), (["t", 1], None, 2), (["t", 0], None, 3),
               (["t", 0], ["v", ["s", None, None, None], ["s", 0, 2, None]], BIG)]
        return out

    def _core_pairs(self, tier, rng):
        """every ordered pair of calls from {attribute} x {finite, positive} x {mode} on the SAME state
        object or on a twin object (equal selection, different object), per state kind; statistic rotates"""
        quick = tier == "quick"
        cnt = 0
        for nd in (2, 1):
            sh, comps, kinds = self._core_world(nd)
            for kname, sel in kinds.items():
                modes = self._modes(nd, kname)
                firsts = [(att, fl, m) for att in (0, 1) for fl in FLAGS for m in modes]
                seconds = [(att, fl, m, twin) for att in (1, 0) for fl in FLAGS for m in modes for twin in (False, True)]
                for i, (a1, f1, m1) in enumerate(firsts):
                    for j, (a2, f2, m2, twin) in enumerate(seconds):
                        cnt += 1
                        if quick:
                            # quick: every first call against a rotating third of the second calls; twins
                            # (no shared object: only the independence of distinct objects) more thinly
                            if (i + j) % 3 != cnt % 3 and not (a1 == 0 and a2 == 1 and not twin and f2 == (True, False)):
                                continue
                            if twin and (i + j) % 2:
                                continue
                        st1 = SEQ_STATS[cnt % len(SEQ_STATS)]
                        st2 = SEQ_STATS[(cnt // 7) % len(SEQ_STATS)]
                        sels = [[1, sel], [1, sel]]
                        calls = [["stat", a1, 0, m1[0], f1[0], f1[1], st1, m1[1], m1[2]],
                                 ["stat", a2, 1 if twin else 0, m2[0], f2[0], f2[1], st2, m2[1], m2[2]]]
                        calls = [seq_fix_stat(c, comps, sels) for c in calls]
                        yield seq_normalize([sh, comps, sels, calls])

    def _core_triples(self, tier, rng):
        """A (fills a cache: statistic / histogram / nothing) ; B (a call whose filter drops selected
        elements) ; C (observer: other attribute / other filter / histogram / profile) — same state object"""
        quick = tier == "quick"
        cnt = 0
        for nd in (2, 1):
            sh, comps, kinds = self._core_world(nd)
            top = comps[1][1][-1]
            clean = [b for b in (2, 3, 4, 5, 1) if hist_is_clean(sh, comps[1][1], 5, top + 5, b, False)]
            hist_c1 = ["hist", 1, None, 0, 5, top + 5, clean[1], False]
            hist_w = ["hist", 1, 1, 0, 5, top + 5, clean[0], False]
            for kname, sel in kinds.items():
                modes = self._modes(nd, kname)
                As = [None, ["stat", 1, 0, None, True, False, "sum", None, BIG], hist_c1,
                      ["stat", 1, 0, modes[1][0], False, False, "maximum", modes[1][1], modes[1][2]]]
                Bs = [["stat", 0, 0, m[0], fl[0], fl[1], None, m[1], m[2]] for m in modes for fl in ((True, False), (True, True), (False, True))]
                Cs = [["stat", 1, 0, m[0], True, False, None, m[1], m[2]] for m in modes] + \
                     [["stat", 0, 0, None, False, False, "maximum", None, BIG], ["stat", 0, 0, None, False, True, "minimum", None, BIG],
                      hist_c1, hist_w]
                if kname != "slice":
                    Cs += [["prof", 1, 0, nd - 1, "sum"], ["hstate", 1, 0, 5, top + 5, clean[1], False]]
                for A in As:
                    for B in Bs:
                        for C in Cs:
                            cnt += 1
                            if quick and cnt % 4 != 1 and C[0] in ("prof", "hstate"):
                                continue          # the viewer states are slow: a quarter of them in quick
                            if quick and cnt % 2 and A is not None and A[0] == "stat":
                                continue
                            calls = []
                            for k, c in enumerate([A, B, C]):
                                if c is None:
                                    continue
                                c = list(c)
                                if c[0] == "stat" and c[6] is None:
                                    c[6] = SEQ_STATS[(cnt + k) % len(SEQ_STATS)]
                                calls.append(c)
                            sels = [[1, sel]]
                            calls = [seq_fix_stat(c, comps, sels) if c[0] == "stat" else c for c in calls]
                            yield seq_normalize([sh, comps, sels, calls])

    def _core_viewers(self, tier, rng):
        """pairs of viewer-state reads on the SAME layer state (its cached profile / histogram must follow every
        setting: attribute, function, x axis / attribute, limits, bin count, log), optionally with a statistic whose
        filter drops selected elements in between; data layer and subset layers holding memoised / copied masks"""
        quick = tier == "quick"
        cnt = 0
        for nd in (2, 1):
            sh, comps, kinds = self._core_world(nd)
            ranges = {0: [(-5, 7), (qv(1, 2), qv(13, 2))], 1: [(5, comps[1][1][-1] + 5), (15, comps[1][1][-1] - 5)]}
            hsets = []
            for att in (0, 1):
                for (r0, r1) in ranges[att]:
                    for bins in (1, 2, 3, 4):
                        if hist_is_clean(sh, comps[att][1], r0, r1, bins, False):
                            hsets.append((att, r0, r1, bins, False))
                if att == 1:
                    for bins in (1, 3):
                        if hist_is_clean(sh, comps[att][1], 5, 100, bins, True):
                            hsets.append((att, 5, 100, bins, True))
            psets = [(att, xa, func) for att in (0, 1) for xa in range(nd) for func in ("sum", "maximum", "mean")]
            drop = ["stat", 0, 0, None, True, True, "sum", None, BIG]
            for kname in (None, "ineq", "and", "bits", "not", "range"):
                sels = [] if kname is None else [[1, kinds[kname]]]
                sid = None if kname is None else 0
                for i, p1 in enumerate(psets):
                    for j, p2 in enumerate(psets):
                        cnt += 1
                        if quick and cnt % 11:
                            continue
                        calls = [["prof", p1[0], sid, p1[1], p1[2]]]
                        if sid is not None and cnt % 3 == 0:
                            calls.append(drop)
                        calls.append(["prof", p2[0], sid, p2[1], p2[2]])
                        yield seq_normalize([sh, comps, sels, calls])
                for i, h1 in enumerate(hsets):
                    for j, h2 in enumerate(hsets):
                        cnt += 1
                        if quick and cnt % 11:
                            continue
                        calls = [["hstate", h1[0], sid, h1[1], h1[2], h1[3], h1[4]]]
                        if sid is not None and cnt % 3 == 0:
                            calls.append(drop)
                        calls.append(["hstate", h2[0], sid, h2[1], h2[2], h2[3], h2[4]])
                        if cnt % 5 == 0:
                            calls.append(["hist", h1[0], None, sid, h1[1], h1[2], h1[3], h1[4]])
                        yield seq_normalize([sh, comps, sels, calls])

    def _random(self, tier, rng):
        quick = tier == "quick"
        for _ in range(1500 if quick else 60000):
            case = self._random_case(rng, quick)
            if case is not None:
                yield case

    @staticmethod
    def _random_case(rng, quick):
        nd = rng.choice([1, 2, 2, 3])
        sh = [rng.randint(1, 4 if nd < 3 else 3) for _ in range(nd)]
        size = int(np.prod(sh))
        ncomp = rng.choice([2, 2, 3])
        comps = []
        for _ in range(ncomp):
            if rng.random() < 0.8:
                special = rng.choice([0.0, 0.2, 0.45])
                comps.append(["f8", [rand_value(rng, special) for _ in range(size)]])
            else:
                dt = rng.choice(["f4", "f2", "i4", "i1", "u1", "i8", "b1"])
                comps.append([dt, typed_random(rng, dt, size)])
        sels = []
        for _ in range(rng.choice([1, 1, 2, 2, 3, 4])):
            att = rng.randrange(ncomp)
            dt, flat = comps[att]
            thr = None if dt == "f8" else safe_thresholds(dt, flat)
            r = rng.random()
            if r < 0.12:
                sel = rand_slice_sel(rng, sh)
            elif r < 0.5:
                # memoised kinds, selections that tend to contain most elements
                c = rng.choice(thr if thr is not None else POOL + [qv(7, 2)])
                sel = rng.choice([["lt", c], ["ge", c], ["le", c], ["not", ["gt", c]], ["or", ["lt", c], ["pixgt", rng.randrange(nd), 0]],
                                  ["and", ["ge", -4 if dt in ("f8", "f4", "f2", "i4", "i1", "i8") else 0], ["pixgt", rng.randrange(nd), -1]]])
            else:
                sel = rand_sel(rng, sh, thr=thr)
            sels.append([att, sel])
        ncall = rng.choice([2, 3, 3, 4, 5, 6, 8]) if not quick else rng.choice([2, 3, 3, 4, 5, 6])
        calls = []
        # mostly one "hot" state object that most calls share
        hot = rng.randrange(len(sels))
        for _ in range(ncall):
            r = rng.random()
            sid = None if rng.random() < 0.15 else (hot if rng.random() < 0.7 else rng.randrange(len(sels)))
            att = rng.randrange(ncomp)
            is_slice = sid is not None and sels[sid][1][0] == "slice"
            if r < 0.68:
                view = None if rng.random() < 0.6 else rand_view(rng, sh)
                if is_slice and isinstance(view, list):
                    view = ["v"] + [["i", it[1] % h] if it[0] == "i" else it for it, h in zip(view[1:], sh)]
                vnd = view_ndim(sh, view)
                q = rng.random()
                if q < 0.3:
                    axis = None
                elif q < 0.45 and vnd > 0:
                    axis = rng.randrange(vnd)
                elif q < 0.8 and vnd > 1 and view is None:
                    keep = rng.randrange(vnd)
                    axis = ["t"] + [a for a in range(vnd) if a != keep]
                else:
                    axis = ["t"] + [a for a in range(vnd) if rng.random() < 0.5]
                stat = rng.choice(STATS + ["sum", "mean", ["percentile", rng.choice([0, 25, 50, qv(75, 2), 100])]])
                fin, pos = rng.choice(FLAGS + [(True, False)])
                nmax = rng.choice([BIG, BIG, 1, 2, 3, max(1, size - 1)])
                calls.append(seq_fix_stat(["stat", att, sid, axis, fin, pos, stat, view, nmax], comps, sels))
            else:
                viewer = r > 0.9 and not is_slice
                dt, flat = comps[att]
                finite = [v for v in flat if not is_special(v)]
                if r > 0.95 and not is_slice:
                    calls.append(["prof", att, sid, rng.randrange(nd), rng.choice(["sum", "mean", "maximum", "minimum", "median"])])
                    continue
                if not finite:
                    continue
                for _try in range(8):
                    log = rng.random() < 0.25 and dt not in NARROW_LOG
                    lo, hi = min(finite, key=fr), max(finite, key=fr)
                    pick = rng.random()
                    if pick < 0.4:
                        r0, r1 = qv(fr(lo) - Fraction(1, 2)), qv(fr(hi) + Fraction(1, 2))
                    elif pick < 0.7:
                        r0, r1 = lo, hi
                    else:
                        r0, r1 = rng.choice(finite), rng.choice(finite)
                    if fr(r0) == fr(r1):
                        continue
                    if abs(fr(r0)) > 2 ** 40 or abs(fr(r1)) > 2 ** 40:
                        break
                    if rng.random() < 0.15:
                        r0, r1 = r1, r0
                    bins = rng.randint(1, 5)
                    if hist_is_clean(sh, flat, r0, r1, bins, log):
                        if viewer:
                            calls.append(["hstate", att, sid, r0, r1, bins, log])
                        else:
                            # weights whose double-precision sums are exact in any order
                            wc = [a for a in range(ncomp) if not any(is_special(v) for v in comps[a][1])
                                  and all(abs(fr(v)) <= 2 ** 30 and (fr(v) * 1024).denominator == 1 for v in comps[a][1])]
                            watt = rng.choice(wc) if wc and rng.random() < 0.35 else None
                            calls.append(["hist", att, watt, sid, r0, r1, bins, log])
                        break
        if len(calls) < 2:
            return None
        return seq_normalize([sh, comps, sels, calls])

    # ---- execution ---------------------------------------------------------------------
    def run_impl(self, case):
        sh, comps, sels, calls = case
        gc.disable()
        try:
            d = Data(**{"c%d" % i: make_array(sh, flat, dt) for i, (dt, flat) in enumerate(comps)})
            cid = [d.id["c%d" % i] for i in range(len(comps))]
            states = [make_sel(d, sel, cid[att]) for att, sel in sels]
            keep = [d, states]
            ctx = {}
            outs = []
            for call in calls:
                try:
                    outs.append(self._do_call(d, cid, states, call, ctx, keep, sh))
                except ValueError:
                    outs.append("value-error")
                except Exception as e:     # an exception inside one call: recorded, the sequence goes on
                    if os.environ.get("VERIF_DEBUG"):
                        import traceback
                        traceback.print_exc()
                    outs.append(["py-exception", type(e).__name__])
            masks = []
            for st in states:
                m1 = np.broadcast_to(np.asarray(st.to_mask(d, None)), d.shape)
                m2 = np.broadcast_to(np.asarray(d.get_mask(st)), d.shape)
                masks.append([[bool(v) for v in m1.ravel().tolist()], [bool(v) for v in m2.ravel().tolist()]])
            datas = [[enc_exact(v) for v in np.asarray(d.get_component(c).data).ravel().tolist()] for c in cid]
            del keep, ctx, states, d
            return [outs, masks, datas]
        finally:
            gc.enable()

    @staticmethod
    def _do_call(d, cid, states, call, ctx, keep, sh):
        kind = call[0]
        if kind == "stat":
            _, att, sid, axis, fin, pos, stat, view, nmax = call
            kw = {}
            if isinstance(stat, list):
                sname, kw["percentile"] = "percentile", dec(stat[1])
            else:
                sname = stat
            r = d.compute_statistic(sname, cid[att], subset_state=None if sid is None else states[sid],
                                    axis=make_axis(axis), finite=fin, positive=pos, view=make_view(view),
                                    n_chunk_max=nmax, **kw)
            return canon_result(r)
        if kind == "hist":
            _, att, watt, sid, r0, r1, bins, log = call
            h = d.compute_histogram([cid[att]], weights=None if watt is None else cid[watt],
                                    range=[(dec(r0), dec(r1))], bins=[bins], log=[log],
                                    subset_state=None if sid is None else states[sid])
            return [enc_exact(v) for v in np.asarray(h).ravel().tolist()]
        if kind == "prof":
            from glue.viewers.profile.state import ProfileViewerState, ProfileLayerState
            _, att, sid, xa, func = call
            if "prof" not in ctx:
                vs = ProfileViewerState()
                ls = ProfileLayerState(viewer_state=vs, layer=d)
                vs.layers.append(ls)
                ctx["prof"] = (vs, {None: ls})
                keep += [vs, ls]
            vs, layers = ctx["prof"]
            if sid not in layers:
                sub = ctx.setdefault("subsets", {}).get(sid)
                if sub is None:
                    sub = d.new_subset()
                    sub.subset_state = states[sid]       # the subset holds the SAME state object
                    ctx["subsets"][sid] = sub
                ls = ProfileLayerState(viewer_state=vs, layer=sub)
                vs.layers.append(ls)
                layers[sid] = ls
                keep += [sub, ls]
            ls = layers[sid]
            vs.function = func
            vs.x_att = d.pixel_component_ids[xa]
            ls.attribute = cid[att]
            prof = ls.profile
            if prof is None:      # the first access after adding a layer only sets up callbacks
                prof = ls.profile
            x, y = prof
            if len(y) == 0 and len(x) == 0:
                return ["res", [sh[xa]], ["nan"] * sh[xa]]     # all-NaN profiles are plotted as empty
            return canon_result(y)
        if kind == "hstate":
            from glue.viewers.histogram.state import HistogramViewerState, HistogramLayerState
            _, att, sid, r0, r1, bins, log = call
            if "hist" not in ctx:
                vs = HistogramViewerState()
                ls = HistogramLayerState(viewer_state=vs, layer=d)
                vs.layers.append(ls)
                ctx["hist"] = (vs, {None: ls})
                keep += [vs, ls]
            vs, layers = ctx["hist"]
            if sid not in layers:
                sub = ctx.setdefault("subsets", {}).get(sid)
                if sub is None:
                    sub = d.new_subset()
                    sub.subset_state = states[sid]
                    ctx["subsets"][sid] = sub
                ls = HistogramLayerState(viewer_state=vs, layer=sub)
                vs.layers.append(ls)
                layers[sid] = ls
                keep += [sub, ls]
            ls = layers[sid]
            vs.x_att = cid[att]
            vs.x_log = log
            vs.cumulative = False
            vs.normalize = False
            vs.hist_n_bin = bins
            vs.hist_x_min = dec(r0)
            vs.hist_x_max = dec(r1)
            edges, h = ls.histogram
            assert len(edges) == bins + 1
            return [enc_exact(v) for v in np.asarray(h).ravel().tolist()]
        raise ValueError(call)

    def line(self, case, pyout):
        from harness.core import sx
        sh, comps, sels, calls = case
        return sx(["seq", [sh, comps, sels, [call_as_model(c, sh) for c in calls]], pyout])

    def nontrivial(self, case, po):
        sh, comps, sels, calls = case
        sids = [c[3] if c[0] == "hist" else c[2] for c in calls]
        return isinstance(po, list) and len(calls) >= 2 and any(s is not None and sids.count(s) > 1 for s in sids)

    def signature(self, case, po, res):
        sh, comps, sels, calls = case
        bad = res.get("bad")
        sig = {"bad": "none" if bad == "none" else ("final" if str(bad).startswith("final") else "call"),
               "hazard": res.get("hazard")}
        try:
            k = int(bad)
            sig["badkind"] = calls[k][0]
            sid = calls[k][3] if calls[k][0] == "hist" else calls[k][2]
            sig["badsel"] = "none" if sid is None else sels[sid][1][0]
        except Exception:
            pass
        return sig

    def describe(self, case):
        return case

    def shrink(self, case):
        sh, comps, sels, calls = case
        # 1. fewer calls
        if len(calls) > 1:
            for i in range(len(calls)):
                yield seq_normalize([sh, comps, sels, calls[:i] + calls[i + 1:]])
        # 2. simpler calls
        for i, c in enumerate(calls):
            def rep(c2):
                return seq_normalize([sh, comps, sels, calls[:i] + [c2] + calls[i + 1:]])
            if c[0] in ("prof", "hstate"):
                yield rep(call_as_model(c, sh))
            if c[0] == "stat":
                _, att, sid, axis, fin, pos, stat, view, nmax = c
                if view is not None:
                    vnd = view_ndim(sh, view)
                    if vnd == len(sh):
                        yield rep(["stat", att, sid, axis, fin, pos, stat, None, nmax])
                if nmax != BIG:
                    yield rep(["stat", att, sid, axis, fin, pos, stat, view, BIG])
                if stat != "sum":
                    yield rep(["stat", att, sid, axis, fin, pos, "sum", view, nmax])
                if axis is not None and view is None:
                    yield rep(["stat", att, sid, None, fin, pos, stat, view, BIG])
                if pos or not fin:
                    yield rep(seq_fix_stat(["stat", att, sid, axis, True, False, stat, view, nmax], comps, sels))
            if c[0] == "hist":
                _, att, watt, sid, r0, r1, bins, log = c
                if watt is not None:
                    yield rep(["hist", att, None, sid, r0, r1, bins, log])
                if bins > 1 and hist_is_clean(sh, comps[att][1], r0, r1, 1, log):
                    yield rep(["hist", att, None, sid, r0, r1, 1, log])
        # 3. simpler selections
        for i, (att, sel) in enumerate(sels):
            if sel[0] in ("and", "or", "xor"):
                for sub in (sel[1], sel[2]):
                    yield [sh, comps, sels[:i] + [[att, sub]] + sels[i + 1:], calls]
            if sel[0] == "not":
                yield [sh, comps, sels[:i] + [[att, sel[1]]] + sels[i + 1:], calls]
        # 4. simpler data (only attributes that no histogram refers to: bin edges depend on the values)
        hist_atts = {c[1] for c in calls if c[0] in ("hist", "hstate")} | {c[2] for c in calls if c[0] == "hist" and c[2] is not None}
        for a, (dt, flat) in enumerate(comps):
            if a in hist_atts or dt != "f8":
                continue
            for i, v in enumerate(flat[:10]):
                if v not in (0, 1) and not is_special(v):
                    f2 = list(flat)
                    f2[i] = 1 if dec(v) > 0 else 0
                    yield [sh, comps[:a] + [[dt, f2]] + comps[a + 1:], sels, calls]



PROP = Property(
    id="C10",
    title="Statistics and histograms equal their definition regardless of chunking or views",
    theorems=["C10.stat_bbox_eq", "C10.stat_bbox_shape", "C10.stat_chunked_eq", "C10.stat_chunked_shape",
              "C10.stat_slice_shortcut_eq", "C10.stat_refines_spec_partial", "C10.stat_shape", "C10.F10c_witness",
              "C10.reduce_partition_min", "C10.reduce_partition_max", "C10.reduce_partition_sum",
              "C10.spec_dtype_independent", "C10.spec_cell_reduce", "C10.accept_exact", "C10.stat_accepted_partial",
              "C10.accept_witness",
              "C10.stat_no_inplace_write", "C10.stat_heap_refines_pure", "C10.stat_sequence_independent",
              "C10.stat_sequence_operands_unchanged", "C10.seq_alias_witness",
              "C10.hist_total", "C10.hist_bin", "C10.hist_bin_top", "C10.hist_perbin_partial", "C10.F10_witness"],
    families=[SeqFamily(), StatFamily(), HistFamily(), ProfFamily(), HistStateFamily(), Hist2Family()],
    trusted_base=["numpy reducers (nanmin/nanmax/nansum/nanmean/nanmedian/nanpercentile and the plain ones) carried out "
                  "in IEEE double precision are assumed to stay within the standard forward error bounds that "
                  "Stats.specAccept computes exactly from the kept values of each cell (exact when every partial sum is "
                  "a double; correctly rounded for min/max/odd median; n*2^-52*sum|x| for sums, (n+1)*2^-52*sum|x|/n for "
                  "means, (4n+8)*2^-52*max|x| for percentiles); fast_histogram.histogram1d is assumed to agree with exact "
                  "arithmetic on the generated data (bins compared exactly; weights have exact double sums)",
                  "subset_state.to_mask(data, view) == full mask[view] (property C04) — the model evaluates "
                  "the selection to its full-shape mask",
                  "heap model (StatsSeq): np.ones / np.array(..., dtype=float) / fancy indexing / the nan-functions allocate fresh "
                  "arrays and the modelled &= / [~keep] = nan are the only writes — checked on the real code by the seq family "
                  "(every later call and the final masks / stored arrays)"],
    assumptions=["data values are exactly representable in the component's storage dtype (float16/32/64, int8..64, "
                 "uint8..64, bool; re-checked by the driver: DType.holds), NaN or ±inf for the float dtypes; exact results "
                 "stay inside the double range and integer sums inside int64; comparison constants of inequality "
                 "selections are representable in the dtype; zero-size views and zero-width histogram "
                 "ranges at 0 (fast_histogram crashes) are outside the generated domain"],
    rule="exhaustive small scope (3 shapes x 12 selection kinds x all axis subsets x all views from a per-axis item "
         "set x chunk limits, statistic/filter rotating) plus seeded random beyond (shapes <=4-d, dims <=3/4); "
         "typed strata: 12 storage dtypes x precision-stressing arrays x statistic x (selection x view x axis x chunking) "
         "core plus seeded random incl. long reduction axes, typed histogram attribute x weights dtypes; histogram ranges "
         "ending exactly on data values at magnitudes 1e-12..1e15 (log) and large linear magnitudes; 2-d histograms (clean stratum); "
         "sequences (family seq): exhaustive pairs / triples of calls on two core datasets x 7 state kinds (memoised and not) x "
         "{attribute with NaN/inf/non-positive values inside the selection} x {finite, positive} x {no axis, un-chunked, chunked, view} x "
         "{same object, twin object}, plus seeded random sequences of 2-8 statistic / histogram / profile-layer / histogram-layer calls; "
         "non-trivial = a selection, a view or a chunk limit is present / histogram has a non-zero bin / a state object is shared by two calls",
)
