"""C06 — every dataset in a collection carries exactly one subset per subset group.

A case is `[nData, nColors, ops]`; it is executed on a real `DataCollection` (with its `Hub`) next to
`nData` real `Data` objects, and a snapshot of everything the property talks about is taken before
the first operation and after every operation:

  D   dc.data (as dataset ids)                 G   dc.subset_groups (as group ids)
  R   the SubsetGroups subscribed to dc.hub, in subscription order
  n   (#datasets ever created, #groups ever created, dc._sg_count)
  ds  d.subsets for ALL datasets ever created  gs  g.subsets for ALL groups ever created
      (each subset as (canonical name, id of s.data, id of s.group))
  gv  (state, label, style) tokens per group   lb  dataset label tokens
  rd  per subset: the (state, label, style) read *through the subset* and whether the objects
      read are identical to the ones held by its group
  cs  the command and redo stacks of the AddData / RemoveData commands, with what each command
      object recorded at its last do() (AddData._added, RemoveData._index)

  h   the hub's delay state: (_delay_depth, queued DataCollectionAdd / Delete messages in order)

Ops `dopen` / `dclose` enter / leave a `with dc.hub.delay_callbacks():` block (they nest); collection
ops inside a block only queue their messages, the group handlers run when the outermost block
closes.  The Lean driver runs the same ops on the `Delay.Impl` model (comparison (a): snapshots
equal, inside blocks too) and evaluates the Spec predicate `specOk` on every python snapshot taken
while no block is open (comparison (c)).
"""
import gc
import itertools
import re

from harness.core import Family, Property, use_repo

use_repo()
from glue.core import Data, DataCollection  # noqa: E402
from glue.core.subset import ElementSubsetState, SubsetState  # noqa: E402
from glue.core.subset_group import SubsetGroup  # noqa: E402
from glue.core.visual import VisualAttributes  # noqa: E402
from glue.core.message import DataCollectionAddMessage, DataCollectionDeleteMessage  # noqa: E402
from glue.core.registry import Registry  # noqa: E402
from glue.core.state import GlueSerializer, GlueUnSerializer  # noqa: E402
from glue.core.command import CommandStack, AddData, RemoveData  # noqa: E402
from glue.core.session import Session  # noqa: E402
from glue.config import settings  # noqa: E402

USER_COLORS = ['#010101', '#020202', '#030303', '#040404', '#050505', '#060606']


def _val(kind, n):
    return [kind, n]


class World:
    """The real objects of one case + the bookkeeping that gives them stable ids / names."""

    def __init__(self, n):
        self.keep = []  # strong references to everything ever seen (Subset.__del__ broadcasts)
        self.shared_states = {}  # odd `ss` value -> the one state object shared by all groups given it
        self.data = [Data(x=[1, 2, 3], label='d%i' % i) for i in range(n)]
        self.did = {id(d): i for i, d in enumerate(self.data)}
        self.groups = []
        self.gid = {}
        self.names = {}
        self.blocks = []  # the open `hub.delay_callbacks()` context managers, innermost last
        self.dc = DataCollection()
        self.keep.extend(self.data)
        self.keep.append(self.dc)
        self._new_stack()

    def _new_stack(self):
        self.stack = CommandStack()
        self.stack.session = Session(data_collection=self.dc, command_stack=self.stack)
        self.keep.append(self.stack)

    # ---- operations -------------------------------------------------------------------------
    def apply(self, op):
        k = op[0]
        dc = self.dc
        nd, ng = len(self.data), len(self.groups)
        if k == 'app':
            if op[1] < nd:
                dc.append(self.data[op[1]])
        elif k == 'ext':
            # DataCollection.append(list) dispatches to extend
            dc.append([self.data[d] for d in op[1:] if d < nd])
        elif k == 'rem':
            if op[1] < nd:
                dc.remove(self.data[op[1]])
        elif k == 'clr':
            dc.clear()
        elif k == 'ng':
            g = dc.new_subset_group()
            self.gid[id(g)] = len(self.groups)
            self.groups.append(g)
            self.keep.append(g)
        elif k == 'rg':
            if op[1] < ng:
                dc.remove_subset_group(self.groups[op[1]])
        elif k == 'ss':
            if op[1] < ng:
                # odd values: ONE state object per value, shared by every group that is given it
                # (`g2.subset_state = g1.subset_state`); even values: a fresh object each time
                if op[2] % 2 == 1:
                    if op[2] not in self.shared_states:
                        self.shared_states[op[2]] = ElementSubsetState(indices=[op[2]])
                        self.keep.append(self.shared_states[op[2]])
                    self.groups[op[1]].subset_state = self.shared_states[op[2]]
                else:
                    self.groups[op[1]].subset_state = ElementSubsetState(indices=[op[2]])
        elif k == 'sl':
            if op[1] < ng:
                self.groups[op[1]].label = 'L%i' % op[2]
        elif k == 'sy':
            if op[1] < ng:
                if op[2] % 2 == 0:
                    self.groups[op[1]].style = VisualAttributes(color=USER_COLORS[op[2] % len(USER_COLORS)])
                else:
                    self.groups[op[1]].style.color = USER_COLORS[op[2] % len(USER_COLORS)]
        elif k == 'mrg':
            ds = op[1:]
            if len(ds) >= 2 and all(d < nd for d in ds):
                m = dc.merge(*[self.data[d] for d in ds])
                self.did[id(m)] = len(self.data)
                self.data.append(m)
                self.keep.append(m)
        elif k == 'ins':
            if op[2] < nd:
                dc.insert(op[1], self.data[op[2]])
        elif k == 'seti':
            if op[2] < nd:
                dc['d%i' % op[1]] = self.data[op[2]]
        elif k == 'rst':
            if not self.blocks:  # saving a session in the middle of a delay block is out of scope
                self.restore()
        elif k == 'dopen':
            cm = dc.hub.delay_callbacks()
            cm.__enter__()
            self.blocks.append(cm)
        elif k == 'dclose':
            if self.blocks:
                self.blocks.pop().__exit__(None, None, None)
        elif k in ('ca', 'cr'):
            if op[1] < nd:
                cls = AddData if k == 'ca' else RemoveData
                self.stack.do(cls(data=self.data[op[1]]))
        elif k in ('undo', 'redo'):
            try:
                getattr(self.stack, k)()
            except IndexError:
                pass  # empty stack: documented IndexError, nothing happens
        else:
            raise ValueError(op)

    def restore(self):
        old = self.dc
        gs = GlueSerializer(old)
        oid = gs.id(old)
        new = GlueUnSerializer.loads(gs.dumps()).object(oid)
        self.keep.append(new)
        # the restored objects stand for the saved ones, position by position
        for od, nw in zip(list(old.data), list(new.data)):
            i = self.did.get(id(od))
            if i is not None:
                self.data[i] = nw
                self.did[id(nw)] = i
            self.keep.append(nw)
            for os_, ns in zip(od.subsets, nw.subsets):
                if id(os_) in self.names:
                    self.names.setdefault(id(ns), self.names[id(os_)])
                self.keep.append(ns)
        for og, nw in zip(old.subset_groups, new.subset_groups):
            i = self.gid.get(id(og))
            if i is not None:
                self.groups[i] = nw
                self.gid[id(nw)] = i
            self.keep.append(nw)
            for os_, ns in zip(og.subsets, nw.subsets):
                if id(os_) in self.names:
                    self.names.setdefault(id(ns), self.names[id(os_)])
                self.keep.append(ns)
        # datasets outside the collection are not part of the session, and glue refuses to move a
        # Data object of the old session to another hub: fresh objects stand for them
        in_new = {id(d) for d in new.data}
        for i, d in enumerate(self.data):
            if id(d) not in in_new:
                nd = Data(x=[1, 2, 3], label=d.label)
                self.data[i] = nd
                self.did[id(nd)] = i
                self.keep.append(nd)
        self.dc = new
        self._new_stack()  # the restored session has its own, empty command stack

    # ---- observation ------------------------------------------------------------------------
    def _name(self, s):
        k = id(s)
        if k not in self.names:
            self.names[k] = len(set(self.names.values()))
            self.keep.append(s)
        return self.names[k]

    def _d(self, obj):
        if obj is None:
            return None
        return self.did.get(id(obj), 'X')

    def _g(self, obj):
        return self.gid.get(id(obj), 'X')

    @staticmethod
    def _state_tok(st):
        if type(st) is SubsetState:
            return _val('a', 0)
        if type(st) is ElementSubsetState and st._indices is not None and len(st._indices) == 1:
            return _val('u', int(st._indices[0]))
        return _val('x', 0)

    @staticmethod
    def _label_tok(lb):
        m = re.fullmatch(r'Subset (\d+)', lb or '')
        if m:
            return _val('a', int(m.group(1)))
        m = re.fullmatch(r'L(\d+)', lb or '')
        if m:
            return _val('u', int(m.group(1)))
        return _val('x', 0)

    @staticmethod
    def _style_tok(sty):
        c = getattr(sty, 'color', None)
        cols = [x.lower() for x in settings.SUBSET_COLORS]
        if isinstance(c, str) and c.lower() in cols:
            return _val('a', cols.index(c.lower()))
        if c in USER_COLORS:
            return _val('u', USER_COLORS.index(c))
        return _val('x', 0)

    def _vals(self, o):
        return [self._state_tok(o.subset_state), self._label_tok(o.label), self._style_tok(o.style)]

    def snapshot(self):
        dc = self.dc
        hub = dc.hub
        R = []
        for x in list(hub._subscriptions.keys()):
            if isinstance(x, SubsetGroup):
                a = hub.is_subscribed(x, DataCollectionAddMessage)
                b = hub.is_subscribed(x, DataCollectionDeleteMessage)
                if a and b:
                    R.append(self._g(x))
                elif a or b:
                    R.append('half')
        order = []
        ds = []
        for d in self.data:
            row = []
            for s in d.subsets:
                row.append([self._name(s), self._d(s.data), self._g(s.group)])
                order.append(s)
            ds.append(row)
        gs = []
        for g in self.groups:
            row = []
            for s in g.subsets:
                row.append([self._name(s), self._d(s.data), self._g(s.group)])
                order.append(s)
            gs.append(row)
        rd, seen = [], set()
        for s in order:
            nm = self._name(s)
            if nm in seen:
                continue
            seen.add(nm)
            grp = s.group
            same = (s.subset_state is grp.subset_state) and (s.style is grp.style) and (s.label == grp.label)
            rd.append([nm] + self._vals(s) + [bool(same)])
        lb = []
        for d in self.data:
            m = re.fullmatch(r'd(\d+)', d.label or '')
            lb.append(int(m.group(1)) if m else 'X')
        return [['D'] + [self._d(d) for d in dc.data],
                ['G'] + [self._g(g) for g in dc.subset_groups],
                ['R'] + R,
                ['n', len(self.data), len(self.groups), dc._sg_count],
                ['ds'] + ds, ['gs'] + gs,
                ['gv'] + [self._vals(g) for g in self.groups],
                ['lb'] + lb,
                ['rd'] + rd,
                ['cs', self._cmds(self.stack._command_stack), self._cmds(self.stack._undo_stack)],
                ['h', self._depth(hub)] + self._queued(hub)]

    @staticmethod
    def _depth(hub):
        k = getattr(hub, '_delay_depth', 'X')
        return k if type(k) is int and k >= 0 and bool(hub._paused) == (k > 0) else 'X'

    def _queued(self, hub):
        out = []
        for m in list(hub._queue):
            if type(m) is DataCollectionAddMessage and m.sender is self.dc:
                out.append(['A', self._d(m.data)])
            elif type(m) is DataCollectionDeleteMessage and m.sender is self.dc:
                out.append(['X', self._d(m.data)])
        return out

    def _cmds(self, cmds):
        # the command objects with what their last do() recorded (fix F4b): AddData._added,
        # RemoveData._index
        out = []
        for c in reversed(cmds):  # most recent first
            if type(c) is AddData:
                a = getattr(c, '_added', 'X')
                out.append(['a', self._d(c.data), a if isinstance(a, bool) else 'X'])
            elif type(c) is RemoveData:
                i = getattr(c, '_index', 'X')
                out.append(['r', self._d(c.data), i if (i is None or type(i) is int) else 'X'])
            else:
                out.append(['x', self._d(getattr(c, 'data', None)), 'X'])
        return out


# ---------------------------------------------------------------------------------------------
# generators
# ---------------------------------------------------------------------------------------------

ND, NG = 3, 2


def _canonical(ops):
    """Symmetry reduction: datasets are interchangeable until first mentioned, so the first
    mentions must come in the order 0, 1, 2."""
    nxt = 0
    for op in ops:
        if op[0] in ('app', 'rem', 'ca', 'cr'):
            args = [op[1]]
        elif op[0] == 'ins':
            args = [op[2]]
        elif op[0] in ('ext', 'mrg'):
            args = op[1:]
        elif op[0] == 'seti':
            args = [op[2]]  # the key refers to the *initial* label of a dataset: not symmetric, keep all
        else:
            args = []
        for d in args:
            if d > nxt:
                return False
            if d == nxt:
                nxt += 1
    return True


def _valid_refs(ops):
    """Group references must name a group that has been created (removed ones included), and at
    most NG groups are created."""
    made = 0
    for op in ops:
        if op[0] == 'ng':
            made += 1
            if made > NG:
                return False
        elif op[0] in ('rg', 'ss', 'sl', 'sy'):
            if op[1] >= made:
                return False
    return True


CORE = ([['app', d] for d in range(ND)] + [['rem', d] for d in range(ND)] +
        [['ng'], ['clr']] + [['rg', g] for g in range(NG)])

EXT = ([['ext', 0, 1], ['ext', 1, 0, 2], ['mrg', 0, 1], ['mrg', 1, 0], ['mrg', 0, 3], ['mrg', 0, 0],
        ['seti', 0, 0], ['seti', 0, 1], ['seti', 1, 0], ['seti', 5, 1], ['rst'],
        ['ins', 0, 0], ['ins', 0, 1], ['ins', 1, 2], ['ins', 7, 1],
        ['ss', 0, 1], ['sl', 0, 2], ['sy', 0, 2], ['sy', 1, 3], ['ss', 1, 4],
        ['ca', 0], ['cr', 0], ['cr', 1], ['undo'], ['redo']])

# the AddData / RemoveData commands through a CommandStack, with undo and redo
CMD = [['ca', 0], ['ca', 1], ['cr', 0], ['cr', 1], ['undo'], ['redo'], ['ng'], ['rg', 0], ['app', 1], ['rem', 0]]

# position-sensitive histories: from a collection of three datasets with a live group, removing the
# first / middle / last dataset by command, undo (which must re-insert at the recorded position, also
# when a direct remove / insert / group creation came in between and the position is stale), redo
POS_PREFIX = [['ext', 0, 1, 2], ['ng']]
POS = [['cr', 0], ['cr', 1], ['cr', 2], ['ca', 1], ['undo'], ['redo'], ['rem', 1], ['rem', 2], ['ins', 0, 2], ['ng']]


# ops tried inside delay blocks next to each other (pairs): everything that broadcasts a collection
# message, creates / removes a group, or reads the collection to decide what to do
INBLOCK = EXT + [['app', 1], ['app', 2], ['rem', 0], ['rem', 1], ['ng'], ['rg', 0], ['clr']]
BLOCK_PREFIXES = [[['ng']], [['app', 0], ['ng']], [['ext', 0, 1, 2], ['ng'], ['rg', 0], ['ng']]]


def with_block(ops, i, j):
    """`dopen` before ops[i], `dclose` after ops[j-1]."""
    return ops[:i] + [['dopen']] + ops[i:j] + [['dclose']] + ops[j:]


def placements(n, min_len=1):
    return [(i, j) for i in range(n) for j in range(i + min_len, n + 1)]


def two_blocks(ops):
    """All ways to put two delay blocks around sub-histories of `ops`: nested or one after the other."""
    n = len(ops)
    for (i1, j1) in placements(n):
        for (i2, j2) in placements(n):
            if i1 <= i2 and j2 <= j1:  # second inside the first (possibly the same span)
                inner = with_block(ops, i2, j2)
                # positions shift: the outer block opens before the inner `dopen`, closes after `dclose`
                yield inner[:i1] + [['dopen']] + inner[i1:j1 + 2] + [['dclose']] + inner[j1 + 2:]
            elif j1 <= i2:             # one after the other
                yield with_block(with_block(ops, i2, j2), i1, j1)


def sequences(alphabet, length):
    def rec(prefix):
        if len(prefix) == length:
            yield [list(o) for o in prefix]
            return
        for op in alphabet:
            p = prefix + [op]
            if _valid_refs(p):
                yield from rec(p)
    yield from rec([])


def random_op(rng, nd, made):
    r = rng.random()
    d = lambda: rng.randrange(nd)  # noqa: E731
    if r < 0.22:
        return ['app', d()]
    if r < 0.40:
        return ['rem', d()]
    if r < 0.50:
        return ['ng']
    if r < 0.58 and made:
        return ['rg', rng.randrange(made)]
    if r < 0.62:
        return ['clr']
    if r < 0.68:
        return ['ext'] + [d() for _ in range(rng.randint(0, 3))]
    if r < 0.74:
        return ['mrg'] + [d() for _ in range(rng.randint(2, 3))]
    if r < 0.80:
        return ['seti', rng.randrange(nd + 1), d()]
    if r < 0.84:
        return ['rst']
    if r < 0.86:
        return [rng.choice(['ca', 'cr']), d()]
    if r < 0.88:
        return ['ins', rng.randrange(5), d()]
    if r < 0.92:
        return [rng.choice(['undo', 'undo', 'redo'])]
    if made:
        return [rng.choice(['ss', 'sl', 'sy']), rng.randrange(made), rng.randrange(6)]
    return ['app', d()]


def random_seq(rng, length, max_groups=4, delay=0.0):
    """`delay` > 0: `dopen` / `dclose` are mixed in (nesting <= 3, blocks of ~4 ops; most histories
    end with all blocks closed)."""
    ops, nd, made, depth = [], ND, 0, 0
    while len(ops) < length:
        if delay and rng.random() < (delay if depth == 0 else 0.28):
            if depth and rng.random() < 0.7:
                ops.append(['dclose'])
                depth -= 1
            elif depth < 3:
                ops.append(['dopen'])
                depth += 1
            continue
        op = random_op(rng, nd, made)
        if op[0] == 'ng':
            if made >= max_groups:
                continue
            made += 1
        if op[0] == 'mrg':
            nd += 1
        ops.append(op)
    if depth and rng.random() < 0.8:
        ops.extend([['dclose']] * depth)
    return ops


class Seq(Family):
    name = "seq"
    exhaustive = True
    batch = 400
    budget_share = 3.0
    case_timeout = 30.0

    def __init__(self):
        self.colors = len(settings.SUBSET_COLORS)

    def reset(self):
        Registry().clear()
        self._n = getattr(self, "_n", 0) + 1
        if self._n % 250 == 0:
            gc.collect()  # gc is disabled while a case runs (Subset.__del__ broadcasts)

    def setup(self):
        gc.disable()

    def cases(self, tier, rng):
        nc = self.colors
        # regression: the F3 reproduction and its relatives, first
        for ops in ([['app', 0], ['app', 1], ['ng'], ['rem', 1], ['app', 1]],
                    [['app', 0], ['ng'], ['ng'], ['rem', 0], ['rg', 0], ['app', 0], ['rst'], ['rem', 0]],
                    [['app', 0], ['ng'], ['seti', 0, 0], ['seti', 0, 0]],
                    # two groups sharing one state object with equal (not identical) styles / labels
                    *[[['app', 0], ['ng'], ['ng'], ['ss', 0, 1], ['ss', 1, 1], ['sy', 0, 2], ['sy', 1, 2]] + tail
                      for tail in ([['app', 1], ['rg', 1], ['rem', 0], ['app', 0]],
                                   [['sl', 0, 3], ['sl', 1, 3], ['app', 1], ['rg', 0], ['rem', 1], ['app', 1]],
                                   [['rem', 0], ['app', 0], ['rg', 1], ['app', 1]],
                                   [['rg', 0], ['app', 1], ['rst'], ['rem', 0]],
                                   [['rst'], ['app', 1], ['rg', 1]],
                                   [['ca', 1], ['undo'], ['redo'], ['cr', 0], ['undo']])],
                    [['ext', 0, 1], ['ng'], ['mrg', 0, 1], ['app', 0], ['clr'], ['app', 3]],
                    # F4b-d (C13): undo of RemoveData re-inserts at the recorded position, commands
                    # without effect are undone without effect, a stale position is clamped
                    [['ext', 0, 1, 2], ['ng'], ['cr', 0], ['undo'], ['redo'], ['undo']],
                    [['ext', 0, 1, 2], ['ng'], ['cr', 1], ['ng'], ['cr', 0], ['undo'], ['undo'], ['rg', 0], ['redo']],
                    [['app', 0], ['ng'], ['ca', 0], ['undo'], ['cr', 1], ['undo'], ['redo'], ['redo']],
                    [['ext', 0, 1], ['ng'], ['cr', 1], ['rem', 0], ['undo'], ['ins', 0, 0], ['ins', 5, 2], ['rst'], ['rem', 1]],
                    [['ext', 0, 1, 2], ['cr', 2], ['clr'], ['ng'], ['undo'], ['ca', 2], ['undo'], ['redo']],
                    # F26: a group created inside a delay block after a dataset was appended in it
                    [['app', 0], ['ng'], ['dopen'], ['app', 1], ['ng'], ['dclose']],
                    [['dopen'], ['app', 0], ['dopen'], ['ng'], ['dclose'], ['rem', 0], ['app', 0], ['ng'], ['dclose'], ['rem', 0]],
                    # batched appends / removes (every queued message must reach the groups, in order)
                    [['ng'], ['ng'], ['dopen'], ['app', 0], ['app', 1], ['dclose'], ['dopen'], ['rem', 0], ['rem', 1], ['dclose']],
                    [['app', 0], ['ng'], ['dopen'], ['rem', 0], ['app', 0], ['rem', 0], ['dclose'], ['dopen'], ['app', 0], ['rem', 0], ['app', 0], ['dclose']],
                    [['ext', 0, 1], ['ng'], ['dopen'], ['mrg', 0, 1], ['rg', 0], ['ng'], ['dopen'], ['seti', 0, 2], ['dclose'], ['undo'], ['dclose'], ['rst']]):
            yield [ND, nc, ops]
        # exhaustive: one delay block around every non-empty sub-history of every core sequence
        # (quick: blocks around a single op only for the sequences one shorter)
        Lb = 4 if tier == "quick" else 5
        for ops in sequences(CORE, Lb - 1):
            if _canonical(ops) and tier == "quick":
                for (i, j) in placements(Lb - 1):
                    yield [ND, nc, with_block(ops, i, j)]
        for ops in sequences(CORE, Lb):
            if _canonical(ops):
                for (i, j) in placements(Lb, 2 if tier == "quick" else 1):
                    yield [ND, nc, with_block(ops, i, j)]
        # exhaustive: two delay blocks (nested or in a row) around sub-histories of shorter sequences
        # (quick: only sequences that create a group)
        for ops in sequences(CORE, Lb - 1):
            if _canonical(ops) and (tier != "quick" or ['ng'] in ops):
                for blocked in two_blocks(ops):
                    yield [ND, nc, blocked]
        # exhaustive: every pair of (extended or core) ops next to each other inside one block
        for pre in (BLOCK_PREFIXES[1:] if tier == "quick" else BLOCK_PREFIXES):
            for x in INBLOCK:
                for y in INBLOCK:
                    ops = [list(o) for o in pre] + [['dopen'], list(x), list(y), ['dclose']]
                    if _valid_refs(ops):
                        yield [ND, nc, ops]
                        if tier != "quick" or pre is BLOCK_PREFIXES[1]:
                            yield [ND, nc, ops[:-1] + [['rem', 1], ['dclose'], ['app', 1]]]
        # exhaustive: one extended op between two core ops, a block around it and a neighbour / both
        for pre in sequences(CORE, 1):
            for x in EXT:
                for post in sequences(CORE, 1 if tier == "quick" else 2):
                    ops = pre + [list(x)] + post
                    if _valid_refs(ops) and _canonical(ops):
                        for (i, j) in placements(len(ops), 2):
                            yield [ND, nc, with_block(ops, i, j)]
        # exhaustive: one extended op (extend / merge / setitem / restore / setters) at any position
        # of a core sequence of length L-1 (quick: L-2 around it)
        Lx = 3 if tier == "quick" else 4
        for n_before in range(0, Lx + 1):
            for pre in sequences(CORE, n_before):
                for x in EXT:
                    for post in sequences(CORE, Lx - n_before):
                        ops = pre + [list(x)] + post
                        if _valid_refs(ops) and _canonical(ops):
                            yield [ND, nc, ops]
        # exhaustive: command / undo / redo words mixed with group creation and direct append / remove
        Lc = 4 if tier == "quick" else 5
        for ops in sequences(CMD, Lc):
            if _canonical(ops) and any(o[0] in ('undo', 'redo') for o in ops):
                yield [ND, nc, ops]
        # exhaustive: position-sensitive command words (see POS)
        Lp = 4 if tier == "quick" else 5
        for ops in sequences(POS, Lp):
            if any(o[0] == 'undo' for o in ops):
                yield [ND, nc, [list(o) for o in POS_PREFIX] + ops]
        # two extended ops in a row after a short core prefix
        for pre in sequences(CORE, 1 if tier == "quick" else 2):
            for x in EXT:
                for y in EXT:
                    ops = pre + [list(x), list(y)]
                    if _valid_refs(ops) and _canonical(ops):
                        yield [ND, nc, ops]


        # exhaustive: every sequence of exactly L core ops (all shorter ones are its prefixes and
        # are checked through the per-step snapshots), modulo dataset symmetry.  Last, because it is
        # the largest block: a budget cut-off under machine load drops its tail only.
        L = 5 if tier == "quick" else 7
        for ops in sequences(CORE, L):
            if _canonical(ops):
                yield [ND, nc, ops]


class SeqRandom(Seq):
    name = "seqr"
    exhaustive = False
    batch = 100
    budget_share = 1.0

    def cases(self, tier, rng):
        nc = self.colors
        n_short, n_long = (5000, 400) if tier == "quick" else (150000, 15000)
        for k in range(n_short):
            yield [ND, nc, random_seq(rng, rng.randint(3, 10), delay=(0.0, 0.15, 0.3)[k % 3])]
        for k in range(n_long):
            yield [ND, nc, random_seq(rng, rng.randint(11, 60), max_groups=5, delay=(0.0, 0.1, 0.2)[k % 3])]


def _run(case):
    n, _nc, ops = case
    gc.disable()
    w = World(n)
    snaps = [w.snapshot()]
    for op in ops:
        w.apply(op)
        snaps.append(w.snapshot())
    while w.blocks:  # leave no block open (not observed: the history ends here)
        w.blocks.pop().__exit__(None, None, None)
    w.keep.clear()
    return snaps


def _shrink(case):
    n, nc, ops = case
    # drop a suffix (the failure is per snapshot), then single ops, then simplify arguments
    for k in range(len(ops) - 1, 0, -1):
        yield [n, nc, ops[:k]]
    for i in range(len(ops)):
        yield [n, nc, ops[:i] + ops[i + 1:]]
    for i, a in enumerate(ops):
        if a[0] == 'dopen':
            for j in range(i + 1, len(ops)):
                if ops[j][0] == 'dclose':
                    yield [n, nc, ops[:i] + ops[i + 1:j] + ops[j + 1:]]
    for i, op in enumerate(ops):
        if op[0] in ('ext', 'mrg') and len(op) > 3:
            yield [n, nc, ops[:i] + [op[:-1]] + ops[i + 1:]]
        if op[0] == 'clr':
            for d in range(n):
                yield [n, nc, ops[:i] + [['rem', d]] + ops[i + 1:]]


def _features(ops):
    in_dc, removed, groups, f = set(), set(), 0, set()
    depth = 0
    for op in ops:
        k = op[0]
        if k == 'dopen':
            depth += 1
        elif k == 'dclose':
            depth = max(0, depth - 1)
        elif depth:
            f.add('delay')
            if k == 'ng':
                f.add('delay-ng')
        if k == 'ng':
            groups += 1
        if k in ('app', 'ext', 'seti', 'ins'):
            ds = op[1:] if k not in ('seti', 'ins') else [op[2]]
            for d in ds:
                if d in removed and d not in in_dc and groups:
                    f.add('reappend-after-remove')
                in_dc.add(d)
                removed.discard(d)
        if k in ('rem',):
            if op[1] in in_dc:
                in_dc.discard(op[1])
                removed.add(op[1])
        if k == 'mrg':
            for d in op[1:]:
                if d in in_dc:
                    in_dc.discard(d)
                    removed.add(d)
        if k == 'clr':
            removed |= in_dc
            in_dc = set()
        if k in ('rst', 'mrg', 'seti', 'ins', 'rg', 'undo', 'redo'):
            f.add(k)
    return f


for _cls in (Seq, SeqRandom):
    _cls.run_impl = lambda self, case: _run(case)
    _cls.shrink = lambda self, case: _shrink(case)
    # VERIF_C06_MODEL=seqold / sequ: compare with the model of the code before fix F3 / before fix F26
    # (by hand, against an unfixed tree; see props.d/C06/design.md)
    _cls.line = lambda self, case, pyout: __import__("harness.core", fromlist=["sx"]).sx(
        [__import__("os").environ.get("VERIF_C06_MODEL", "seq"), case, pyout])
    _cls.nontrivial = lambda self, case, po: any(op[0] == 'ng' for op in case[2]) and any(op[0] in ('app', 'ext', 'ins', 'seti', 'mrg', 'ca') for op in case[2])
    _cls.signature = lambda self, case, po, res: {"construct": "+".join(sorted(_features(case[2]))) or "plain"}


PROP = Property(
    id="C06",
    title="Every dataset in a collection carries exactly one subset per subset group",
    theorems=["C06.inv_init", "C06.step_inv", "C06.reachable_inv", "C06.deliver_inv", "C06.close_restores_inv",
              "C06.depth_of_history", "C06.quiescent_inv", "C06.spec_of_inv", "C06.reachable_spec",
              "C06.reachable_ordered", "C06.restore_roundtrip", "C06.unguarded_group_in_block_duplicates",
              "C06.immediate_step_inv", "C06.immediate_reachable_inv", "C06.immediate_agrees", "C06.immediate_inv_quiescent",
              "C06.old_removed_dataset_keeps_subsets", "C06.old_reappend_duplicates"],
    families=[Seq(), SeqRandom()],
    trusted_base=["CPython list / dict-order semantics and WeakKeyDictionary iteration order (hub delivery order of the groups)",
                  "the hub fragment (delay depth, queue, flush when the outermost block closes) is transcribed from hub.py and compared on every snapshot (depth, queued Add / Delete messages); that hub.py implements that semantics for arbitrary programs is C07's theorem",
                  "GlueSerializer / GlueUnSerializer are exercised, not modelled: `restore` models their effect on the collection bookkeeping only"],
    assumptions=["datasets enter the collection without subsets of their own (clients create subsets only through new_subset_group, as the module docstring of subset_group.py demands)",
                 "after a session restore the restored objects stand for the saved ones; objects of the old session that were in the old collection are out of scope",
                 "a session is not saved / restored while a hub.delay_callbacks() block is open (queued messages are not part of a session); hub.ignore_callbacks(DataCollectionAddMessage / DeleteMessage) blocks are out of scope (the client asks for the handlers not to run)"],
    rule="exhaustive: all sequences of exactly L core ops (append/remove x3 datasets, new group (<=2), remove group, clear; L=5 quick, 6 thorough) modulo dataset symmetry, every prefix checked through per-step snapshots; one extended op (extend/insert/merge/setitem/restore/setters/AddData-RemoveData commands/undo/redo) at every position of every core sequence of length 3 (quick) / 4 (thorough); all command/undo/redo words of length 4/5; all position-sensitive words of length 4/5 over {RemoveData x3, AddData, undo, redo, direct remove x2, insert in front, new group} after extend[0,1,2] + new group (undo must re-insert at the recorded, possibly stale, position); all pairs of extended ops after 1 (quick) / 2 (thorough) core ops; seeded random sequences up to length 60 with up to 5 groups and merged datasets. Delay blocks (dopen / dclose = with hub.delay_callbacks()): one block around every sub-history of >= 2 ops of every core sequence of length 4 and around every non-empty sub-history of every core sequence of length 3 (quick) / every non-empty sub-history of every core sequence of length 5 (thorough); two blocks, nested or in a row, around sub-histories of every core sequence of length 3 that creates a group (quick) / of every core sequence of length 4 (thorough); every ordered pair of 32 extended / core ops next to each other inside one block after 2 (quick) / 3 prefixes, also followed by a remove inside and a re-append after the block (quick: for one of the prefixes); one extended op between two core ops with a block around it and a neighbour or both; two thirds of the random sequences mix in blocks nested up to 3. Snapshots (incl. hub depth and the queued Add / Delete messages) are compared after every op, inside blocks too; the Spec is evaluated at every snapshot with no block open. non-trivial = creates a group and adds a dataset",
)
