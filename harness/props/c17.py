"""C17 — a dataset stays structurally consistent and announces every structural change.

Families `seq` / `seqx` (same driver entry): a history of calls of the Data mutation API with *positional* arguments
("the k-th current component", "pool ComponentID j", "the current shape / a wrong shape", ...) is
run on a real `Data` (attached to a DataCollection's hub when the history says so, with a catch-all
listener); after every call the harness reads components (id, label, class, shape, value tag),
shape, pixel / world ids, coords, number of coordinate links, label, hub membership, externally
derivable ids, `find_component_id` for a probe list of labels, and the canonicalised messages.
Python objects are numbered by first appearance; the Lean driver renames the model's identifiers the
same way. The rules that turn a positional call into a concrete one (`resolve` in
lean/Drivers/C17.lean) are mirrored by `Runner._call` below.
"""
import gc
import itertools
import re

from harness.core import Family, Property, use_repo

use_repo()
import numpy as np  # noqa: E402
from glue.core import Data, DataCollection, ComponentID, HubListener  # noqa: E402
from glue.core.component import Component, DerivedComponent, CoordinateComponent  # noqa: E402
from glue.core.component_link import ComponentLink  # noqa: E402
from glue.core.coordinates import IdentityCoordinates  # noqa: E402
from glue.core.exceptions import IncompatibleAttribute  # noqa: E402
from glue.core import message as M  # noqa: E402

# ---------------------------------------------------------------------------------------------
# label codes (the Lean model works with numbers)
# ---------------------------------------------------------------------------------------------

USER = {0: "new", 1: "a", 2: "b", 3: "c", 4: "d", 5: "ghost"}   # 0 = a ComponentID made by the caller for one call
USER_INV = {v: k for k, v in USER.items()}
_PIX = re.compile(r"^Pixel Axis (\d+)(?: \[([xyz])\])?$")
_WORLD = re.compile(r"^World (\d+)$")


def label_str(code):
    if code in USER:
        return USER[code]
    if 200 <= code < 300:
        return "World %d" % (code - 200)
    if 100 <= code < 200:
        nd, i = divmod(code - 100, 10)
        if nd == 0:
            return "Pixel Axis %d" % i
        return "Pixel Axis %d [%s]" % (i, "xyz"[nd - 1 - i])
    raise ValueError("no label for code %r" % (code,))


def label_code(s):
    if s in USER_INV:
        return USER_INV[s]
    m = _PIX.match(s)
    if m:
        i = int(m.group(1))
        if m.group(2) is None:
            return 100 + i
        nd = i + 1 + "xyz".index(m.group(2))
        return 100 + 10 * nd + i
    m = _WORLD.match(s)
    if m:
        return 200 + int(m.group(1))
    return "unknown-label-" + re.sub(r"[\s()]", "_", s)


def dlabel_str(code):
    return "" if code == 0 else "data%d" % code


def dlabel_code(s):
    if s == "":
        return 0
    m = re.match(r"^data(\d+)$", s or "?")
    return int(m.group(1)) if m else "unknown-dlabel"


class Listener(HubListener):
    def __init__(self):
        self.log = []

    def notify(self, msg):
        self.log.append(msg)


def _first(*arrays):
    return arrays[0]


ERRORS = ((ValueError, "value"), (TypeError, "type"), (IncompatibleAttribute, "incompatible"), (KeyError, "key"))


ERROR_CLASSES = tuple(c for c, _ in ERRORS)


class Run(object):
    """One history on one real Data object."""

    def __init__(self, pool_labels, probe):
        self.d = Data()
        self.dc = DataCollection()
        self.listener = Listener()
        self.dc.hub.subscribe(self.listener, M.Message, handler=self.listener.notify)
        self.pool = [ComponentID(label_str(l)) for l in pool_labels]
        self.probe = probe
        self.objs = list(self.pool)          # strong references, index = number
        self.num = {id(c): i for i, c in enumerate(self.pool)}
        self.tokens = {}                      # id(coords object) -> token
        self.keep = []                        # everything created, kept alive for the whole case
        self.fresh = None                     # the ComponentID made for the current call (ref "x")

    # -- numbering ---------------------------------------------------------------------------
    def n(self, cid):
        k = self.num.get(id(cid))
        if k is None:
            k = len(self.objs)
            self.objs.append(cid)
            self.num[id(cid)] = k
        return k

    # -- positional references -----------------------------------------------------------------
    def ref(self, r):
        """Positional reference -> ComponentID object (None = the call is skipped); see `Ref` in
        lean/Drivers/C17.lean."""
        kind, k = r
        d = self.d
        if kind == "x":
            # a brand-new ComponentID (no parent, label "new"), the same object within one call; it is
            # numbered like every other object: when it first shows up in an observation / a message
            if self.fresh is None:
                self.fresh = ComponentID(label_str(0))
                self.keep.append(self.fresh)
            return self.fresh
        if kind == "o":
            return self.pool[k]
        if kind == "f":
            c = self.pool[k]
            used = any(c is x for x in d.components) or any(c is x for x in d.pixel_component_ids) \
                or any(c is x for x in d.world_component_ids)
            return None if used else c
        if kind in ("m", "n"):
            if kind == "m":
                xs = [c for c, comp in d._components.items() if not isinstance(comp, CoordinateComponent)]
            else:
                xs = [c for c, comp in d._components.items()
                      if not isinstance(comp, (CoordinateComponent, DerivedComponent))]
            return xs[k % len(xs)] if xs else self.pool[3]
        xs = {"c": d.components, "p": list(d.pixel_component_ids), "w": list(d.world_component_ids)}[kind]
        return xs[k % len(xs)] if xs else self.pool[0]

    @staticmethod
    def shape_of(cur, r):
        cur = list(cur)
        if r == "same":
            return cur if cur else [3]
        if r == "bump":
            return cur[:-1] + [cur[-1] + 1] if cur else [4]
        if r == "grow":
            return cur + [2] if cur else [2, 2]
        if r == "shrink":
            return cur[:-1] if len(cur) >= 2 else cur + [2]
        return list(r)

    def add_shape(self, r):
        d = self.d
        sh = self.shape_of(d.shape, r)
        if d.shape == () and d.coords is not None and len(sh) != 1:
            return [3]
        return sh

    def new_coords(self, ndim, token):
        c = IdentityCoordinates(n_dim=ndim)
        self.tokens[id(c)] = token
        self.keep.append(c)
        return c

    # -- one call -------------------------------------------------------------------------------
    def _call(self, tag, rop):
        d = self.d
        self.fresh = None
        if isinstance(rop, str):
            if rop == "attach":
                self.dc.append(d)
            elif rop == "detach":
                self.dc.remove(d)
            elif rop == "register":
                d.register_to_hub(self.dc.hub)
            else:
                raise RuntimeError("bad op " + rop)
            return
        name = rop[0]
        if name == "add":
            d.add_component(np.full(tuple(self.add_shape(rop[2])), 10 * tag, dtype=np.int64), label_str(rop[1]))
        elif name == "addAt":
            c = self.ref(rop[1])
            if c is None:
                return
            d.add_component(np.full(tuple(self.add_shape(rop[2])), 10 * tag, dtype=np.int64), c)
        elif name == "addDerived":
            froms = [self.ref(r) for r in rop[3]]
            to = ComponentID(label_str(rop[2]))
            link = ComponentLink(froms, to, using=_first)
            self.keep.append(link)
            if rop[1]:
                # add_component(link, 'label'): add_component_link makes its own target id
                d.add_component(link, label_str(rop[2]))
            else:
                # a ready-made DerivedComponent stored under its link's (brand-new) target id
                d.add_component(DerivedComponent(d, link), to)
        elif name == "remove":
            d.remove_component(self.ref(rop[1]))
        elif name == "reorder":
            cur = d.components
            k = rop[1]
            if k == "same":
                new = cur
            elif k == "rev":
                new = cur[::-1]
            elif k == "rot":
                new = cur[1:] + cur[:1]
            elif k == "short":
                new = cur[:-1]
            elif k == "dup":
                new = cur[:-1] + [cur[0]] if cur else []
            elif k == "foreign":
                new = cur[:-1] + [self.pool[3]]
            elif k == "fresh":
                new = cur[:-1] + [self.ref(["x", 0])]
            else:
                _, i, j = k
                new = list(cur)
                if cur:
                    a, b = i % len(cur), j % len(cur)
                    new = [cur[b] if t == a else cur[a] if t == b else cur[t] for t in range(len(cur))]
            d.reorder_components(new)
        elif name == "updateId":
            old = self.ref(rop[1])
            new = self.ref(rop[2])
            if new is None:
                return
            d.update_id(old, new)
        elif name == "updateComponents":
            mapping = {}
            for idx, (r, sh) in enumerate(rop[1]):
                c = self.ref(r)
                if c in mapping:
                    continue
                mapping[c] = np.full(tuple(self.shape_of(d.shape, sh)), 10 * tag + idx, dtype=np.int64)
            d.update_components(mapping)
        elif name == "updateFrom":
            _, l, comps, sh, coords = rop
            shape = [] if not comps else self.shape_of(d.shape, sh)
            if coords == "none" or not shape:
                c = None
            elif coords == "cur" and d.coords is not None and len(shape) == len(d.shape):
                c = d.coords
            else:
                c = self.new_coords(len(shape), 1000 + tag)
            other = Data(label=dlabel_str(l), coords=c)
            for idx, cl in enumerate(comps):
                other.add_component(np.full(tuple(shape), 10 * tag + idx, dtype=np.int64), label_str(cl))
            self.keep.append(other)
            d.update_values_from_data(other)
        elif name == "setCoords":
            if rop[1] == "none":
                d.coords = None
            elif rop[1] == "cur":
                d.coords = d.coords
            else:
                d.coords = self.new_coords(d.ndim if d.shape != () else 1, 1000 + tag)
        elif name == "rename":
            self.ref(rop[1]).label = label_str(rop[2])
        elif name == "setLabel":
            d.label = dlabel_str(rop[1])
        elif name == "setLinked":
            if d in self.dc:
                return
            comps = {}
            for j in rop[1]:
                link = ComponentLink([self.pool[3]], self.pool[j], using=_first)
                comps[self.pool[j]] = DerivedComponent(d, link)
            self.keep.append(comps)
            d._set_externally_derivable_components(comps)
        else:
            raise RuntimeError("bad op %r" % (rop,))

    def call(self, tag, rop):
        try:
            self._call(tag, rop)
        except ERROR_CLASSES as e:
            for cls, atom in ERRORS:
                if type(e) is cls:
                    return atom
            raise
        return None

    # -- observation ------------------------------------------------------------------------
    def messages(self):
        out = []
        for m in self.listener.log:
            if m.sender is self.dc:
                continue
            if m.sender is not self.d:
                out.append(["other-sender", type(m).__name__])
                continue
            t = type(m)
            if t is M.DataAddComponentMessage:
                out.append(["add", self.n(m.component_id)])
            elif t is M.DataRemoveComponentMessage:
                out.append(["rm", self.n(m.component_id)])
            elif t is M.ComponentReplacedMessage:
                out.append(["repl", self.n(m.old), self.n(m.new)])
            elif t is M.ComponentsChangedMessage:
                out.append("cc")
            elif t is M.DataReorderComponentMessage:
                out.append(["reord"] + [self.n(c) for c in m.component_ids])
            elif t is M.DataRenameComponentMessage:
                out.append(["ren", self.n(m.component_id)])
            elif t is M.DataUpdateMessage and m.attribute == "label":
                out.append("upd")
            elif t is M.NumericalDataChangedMessage:
                if m.components_changed is None:
                    out.append("numall")
                else:
                    out.append(["num"] + [self.n(c) for c in m.components_changed])
            elif t is M.ExternallyDerivableComponentsChangedMessage:
                # inside a collection the link manager owns these (C03); not part of this check
                if self.d not in self.dc:
                    out.append("ext")
            else:
                out.append(["other", t.__name__])
        del self.listener.log[:]
        return out

    def observe(self):
        d = self.d
        comps = []
        for cid, comp in d._components.items():
            if isinstance(comp, CoordinateComponent):
                kind = ["w" if comp.world else "p", int(comp.axis)]
                val = 0
            elif isinstance(comp, DerivedComponent):
                kind = None
                val = 0
            else:
                kind = "m"
                data = np.asarray(comp.data)
                val = int(data.flat[0]) if data.size else 0
            k = self.n(cid)
            if kind is None:
                kind = ["d"] + [self.n(c) for c in comp.link.get_from_ids()]
            comps.append([k, label_code(cid.label), kind, [int(x) for x in comp.shape], val])
        pix = [self.n(c) for c in d.pixel_component_ids]
        world = [self.n(c) for c in d.world_component_ids]
        coords = None if d.coords is None else self.tokens.get(id(d.coords), "unknown-coords")
        linked = [] if d in self.dc else [[self.n(c), label_code(c.label)] for c in d.externally_derivable_components]
        finds = []
        for l in self.probe:
            r = d.find_component_id(label_str(l))
            finds.append([l, None if r is None else self.n(r)])
        return [comps, [int(x) for x in d.shape], pix, world, coords, len(d.coordinate_links),
                dlabel_code(d.label), d.hub is not None, d in self.dc, linked, finds]

    def run(self, rops):
        out = [self.observe()]
        for tag, rop in enumerate(rops):
            err = self.call(tag, rop)
            msgs = self.messages()
            out.append([err, msgs, self.observe()])
        return out


# ---------------------------------------------------------------------------------------------
# generators
# ---------------------------------------------------------------------------------------------

POOL = [1, 2, 1, 5]            # labels of pool ids 0..3 (0 and 2 share a label; 3 is never added)
PROBE = [1, 2, 3, 110, 121, 200]


def alphabet(clean, level):
    """Calls offered at every position of the exhaustive part.
    clean = references `m`/`n`/`f`/`x` (never a coordinate component / an id in use where a new one is
    expected; `x` = a ComponentID made for the call); not clean = the abusive calls of F20-F22 (repaired:
    refused, or replaced and announced); level 0 = core, 1 = wider."""
    if clean:
        A = [
            ["add", 1, "same"], ["add", 2, "same"], ["add", 1, "bump"],
            ["addAt", ["f", 0], "same"],
            ["addDerived", True, 3, [["m", 0]]], ["addDerived", False, 3, [["p", 0]]],
            ["remove", ["m", 0]], ["remove", ["m", 1]], ["remove", ["o", 3]],
            ["reorder", "rev"], ["reorder", "same"], ["reorder", "short"],
            ["updateId", ["m", 0], ["f", 1]], ["updateId", ["p", 0], ["f", 2]],
            ["updateComponents", [[["n", 0], "same"]]], ["updateComponents", [[["n", 0], "same"], [["n", 1], "bump"]]],
            ["updateFrom", 1, [1], "same", "none"], ["updateFrom", 1, [1, 2], "bump", "new"],
            ["updateFrom", 0, [2], "grow", "none"],
            ["setCoords", "new"], ["setCoords", "none"],
            ["rename", ["m", 0], 2], ["setLabel", 1],
            "attach", "register",
            # formerly outside the theorems: 0-d arrays, ComponentIDs the dataset has never seen, ids that
            # are not components, components without an array
            ["add", 2, []], ["remove", ["x", 0]], ["updateId", ["m", 0], ["x", 0]],
            ["updateComponents", [[["c", 0], "same"]]], ["rename", ["o", 0], 2], ["updateId", ["o", 3], ["f", 1]],
        ]
        if level >= 1:
            A += [
                ["add", 3, [2, 2]], ["add", 110, "same"], ["add", 2, "grow"],
                ["addAt", ["f", 2], "same"], ["addAt", ["f", 1], "bump"],
                ["addDerived", True, 1, [["o", 3]]], ["addDerived", True, 2, [["m", 0], ["m", 1]]],
                ["addDerived", False, 2, [["w", 0]]], ["addDerived", True, 2, [["m", 1]]],
                ["remove", ["m", 2]], ["remove", ["m", 3]],
                ["reorder", "rot"], ["reorder", "dup"], ["reorder", "foreign"], ["reorder", ["swap", 0, 2]],
                ["updateId", ["o", 0], ["f", 1]], ["updateId", ["m", 1], ["m", 1]], ["updateId", ["w", 0], ["f", 2]],
                ["updateId", ["m", 1], ["f", 0]],
                ["updateComponents", []], ["updateComponents", [[["o", 3], "same"]]],
                ["updateComponents", [[["n", 1], "bump"], [["n", 0], "same"]]],
                ["updateFrom", 1, [], "same", "none"], ["updateFrom", 1, [1, 1], "same", "none"],
                ["updateFrom", 2, [2, 3], "shrink", "new"], ["updateFrom", 1, [1, 3], "same", "cur"],
                ["updateFrom", 1, [110, 1], "grow", "new"],
                ["setCoords", "cur"],
                ["rename", ["p", 0], 110], ["rename", ["m", 1], 1], ["rename", ["w", 0], 3], ["rename", ["m", 0], 200],
                ["rename", ["m", 0], 110],
                ["setLabel", 0],
                ["setLinked", [0]], ["setLinked", [0, 2]], ["setLinked", []],
                # 0-d
                ["add", 1, []], ["addAt", ["f", 1], []], ["updateComponents", [[["n", 0], []]]],
                ["updateFrom", 1, [1], [], "none"], ["updateFrom", 2, [1, 2], [], "new"],
                # brand-new / foreign ids
                ["addAt", ["x", 0], "same"], ["addAt", ["x", 0], []], ["reorder", "fresh"],
                ["updateId", ["x", 0], ["f", 1]], ["updateId", ["x", 0], ["x", 0]], ["updateId", ["o", 3], ["x", 0]],
                ["addDerived", False, 2, [["x", 0]]], ["addDerived", True, 2, [["x", 0]]], ["addDerived", False, 2, [["o", 3]]],
                ["updateComponents", [[["x", 0], "same"]]], ["rename", ["x", 0], 1], ["rename", ["o", 1], 1],
                ["rename", ["o", 3], 3],
                # update_components on components without an array (F24), update_id of (inputs of) derived components
                ["updateComponents", [[["p", 0], "same"]]], ["updateComponents", [[["m", 2], "same"]]],
                ["updateComponents", [[["n", 0], "same"], [["w", 0], "same"]]], ["updateComponents", [[["o", 0], "same"]]],
                ["updateId", ["m", 2], ["f", 1]], ["updateId", ["m", 1], ["x", 0]],
            ]
        return A
    # abuse stratum: remove_component of coordinate ids (F20), add_component onto ids in use (F21),
    # update_id onto ids in use (F22)
    return [
        ["addAt", ["c", 0], "same"], ["addAt", ["c", 1], "same"], ["addAt", ["o", 0], "same"], ["addAt", ["p", 0], "same"],
        ["addAt", ["c", 2], "bump"],
        ["remove", ["c", 0]], ["remove", ["c", 1]], ["remove", ["p", 0]], ["remove", ["w", 0]], ["remove", ["c", 3]],
        ["updateId", ["c", 0], ["c", 1]], ["updateId", ["c", 1], ["c", 0]], ["updateId", ["c", 2], ["p", 0]],
        ["updateId", ["c", 1], ["o", 0]], ["updateId", ["c", 2], ["w", 0]],
    ]


PREFIXES = [
    [],
    [["add", 1, "same"]],
    [["add", 1, "same"], "register"],
    ["attach", ["add", 1, [2, 2]], ["setCoords", "new"]],
    ["register", ["add", 1, "same"], ["add", 2, "same"], ["addDerived", True, 3, [["m", 0]]]],
    ["register", ["setCoords", "new"], ["addAt", ["f", 0], "same"], ["addAt", ["f", 2], "same"]],
    # a 0-d dataset; a dataset one of whose former ids (pool id 0) was removed, another (pool id 1) re-assigned
    ["register", ["add", 1, []], ["addDerived", False, 3, [["m", 0]]]],
    ["register", ["addAt", ["f", 0], "same"], ["addAt", ["f", 1], "same"], ["remove", ["o", 0]], ["updateId", ["o", 1], ["f", 2]]],
]


def rand_ref(rng, clean):
    """Any component."""
    r = rng.random()
    if clean:
        if r < 0.66:
            return ["m", rng.randint(0, 4)]
        if r < 0.76:
            return ["p", rng.randint(0, 1)]
        if r < 0.84:
            return ["w", rng.randint(0, 1)]
        if r < 0.89:
            return ["x", 0]
        return ["o", rng.choice([0, 1, 2, 3])]
    if r < 0.62:
        return ["c", rng.randint(0, 5)]
    if r < 0.72:
        return ["p", rng.randint(0, 1)]
    if r < 0.80:
        return ["w", rng.randint(0, 1)]
    return ["o", rng.choice([0, 1, 2, 3])]


def rand_shape(rng, valid=0.85):
    r = rng.random()
    if r < valid:
        return "same"
    return rng.choice(["bump", "grow", "shrink", [2, 2], [3], [2, 1, 2], [], []])


def rand_op(rng, clean):
    """One call; `clean` = no coordinate id / id in use where F20-F22 were (see `alphabet`)."""
    k = rng.random()
    if k < 0.16:
        return ["add", rng.choice([1, 2, 3, 1, 2, 3, 110, 200]), rand_shape(rng) if rng.random() < 0.8 else rng.choice([[3], [2, 2], [2, 1, 2], [4], []])]
    if k < 0.22:
        r = ["f", rng.choice([0, 1, 2])] if clean or rng.random() < 0.4 else rand_ref(rng, False)
        if rng.random() < 0.12:
            r = ["x", 0]
        return ["addAt", r, rand_shape(rng)]
    if k < 0.31:
        deps = [rand_ref(rng, True) for _ in range(rng.choice([1, 1, 2]))]
        return ["addDerived", rng.random() < 0.7, rng.choice([1, 2, 3, 4]), deps]
    if k < 0.42:
        if clean:
            r = ["m", rng.randint(0, 4)] if rng.random() < 0.88 else rng.choice([["o", 3], ["x", 0], ["o", 0]])
        else:
            r = rand_ref(rng, False)
        return ["remove", r]
    if k < 0.50:
        return ["reorder", rng.choice(["rev", "rot", "same", "rev", "rot", "short", "dup", "foreign", "fresh",
                                       ["swap", rng.randint(0, 5), rng.randint(0, 5)]])]
    if k < 0.58:
        old = rand_ref(rng, clean)
        if clean:
            u = rng.random()
            new = ["f", rng.choice([0, 1, 2])] if u < 0.8 else ["x", 0] if u < 0.93 else old
        else:
            new = ["f", rng.choice([0, 1, 2])] if rng.random() < 0.4 else rand_ref(rng, False)
        return ["updateId", old, new]
    if k < 0.66:
        n = rng.choice([0, 1, 1, 2, 3])
        ts = []
        for _ in range(n):
            u = rng.random()
            # mostly arrays; sometimes an id that is no component, or a component without an array (F24)
            r = ["n", rng.randint(0, 3)] if u > 0.2 else ["o", rng.choice([3, 3, 0])] if u > 0.12 else \
                ["x", 0] if u > 0.09 else rng.choice([["m", rng.randint(0, 3)], ["p", 0], ["w", 0]])
            ts.append([r, rand_shape(rng, 0.9)])
        return ["updateComponents", ts]
    if k < 0.76:
        n = rng.choice([0, 1, 2, 2, 3])
        labels = [rng.choice([1, 2, 3, 4]) for _ in range(n)]
        if rng.random() < 0.85:
            labels = list(dict.fromkeys(labels))
        if rng.random() < 0.05:
            labels.append(rng.choice([110, 200]))
        return ["updateFrom", rng.choice([0, 1, 2]), labels, rng.choice(["same", "same", "same", "bump", "grow", "shrink", [2, 2], [5], []]),
                rng.choice(["none", "none", "new", "cur"])]
    if k < 0.84:
        return ["setCoords", rng.choice(["new", "new", "none", "cur"])]
    if k < 0.90:
        return ["rename", rand_ref(rng, clean), rng.choice([1, 2, 3, 4, 1, 2, 110, 121, 200])]
    if k < 0.93:
        return ["setLabel", rng.choice([0, 1, 2])]
    if k < 0.97:
        return rng.choice(["attach", "register", "attach"])
    return ["setLinked", rng.choice([[0], [1], [0, 2], [], [2]])]


def _tuple(x):
    return tuple(_tuple(y) for y in x) if isinstance(x, list) else x


class Seq(Family):
    """Clean stratum: no call removes a coordinate component or targets an id in use (F20-F22); everything
    else - 0-d arrays, ComponentIDs the dataset has never seen, ids that are not (or no longer) components,
    components without an array, inputs of derived components - is exercised."""
    name = "seq"
    exhaustive = False
    batch = 400
    case_timeout = 20.0
    clean = True
    budget_share = 3.0

    def setup(self):
        gc.disable()
        self._count = 0

    def reset(self):
        self._count = getattr(self, "_count", 0) + 1
        if self._count % 500 == 0:
            gc.collect()

    def cases(self, tier, rng):
        seen = set()

        def emit(rops):
            rops = self.adapt(rops)
            key = _tuple(rops)
            if key in seen:
                return None
            seen.add(key)
            return [POOL, PROBE, rops]

        A0, A1 = alphabet(True, 0), alphabet(True, 1)
        X = alphabet(False, 0)
        if self.clean:
            # exhaustive: every prefix followed by every 1- and 2-call continuation over the wide
            # alphabet (second call from the core alphabet in quick), every 3-call continuation over
            # the core alphabet (thorough)
            for pre in PREFIXES:
                for a in A1:
                    c = emit(pre + [a])
                    if c:
                        yield c
            for pre in PREFIXES:
                for a in A1:
                    for b in (A1 if tier == "thorough" else A0):
                        c = emit(pre + [a, b])
                        if c:
                            yield c
            if tier == "thorough":
                for pre in PREFIXES[:4]:
                    for a, b, c3 in itertools.product(A0, repeat=3):
                        c = emit(pre + [a, b, c3])
                        if c:
                            yield c
        else:
            # abuse stratum: one abusive call after every prefix (+ one clean call before), then every
            # core call after it (a refused call must leave the dataset fully usable)
            for pre in PREFIXES[1:]:
                for x in X:
                    c = emit(pre + [x])
                    if c:
                        yield c
                    for b in A0:
                        for seq in (pre + [x, b], pre + [b, x]):
                            c = emit(seq)
                            if c:
                                yield c
        # seeded random, longer
        if self.clean:
            n = 6000 if tier == "quick" else 150000
        else:
            n = 1500 if tier == "quick" else 30000
        for i in range(n):
            ln = rng.randint(3, 8 if tier == "quick" else 12)
            rops = []
            if rng.random() < 0.7:
                rops.append(rng.choice(["register", "attach", "register"]))
            if rng.random() < 0.8:
                rops.append(["add", rng.choice([1, 2, 3]), rng.choice([[3], [3], [3], [2, 2], [2, 2], [2, 1, 2], [4, 1], []])])
            while len(rops) < ln:
                rops.append(rand_op(rng, self.clean or rng.random() < 0.75))
            pool = POOL if rng.random() < 0.8 else [rng.choice([1, 2, 3]) for _ in range(3)] + [5]
            yield [pool, PROBE, self.adapt(rops)]

    def adapt(self, rops):
        return rops

    def run_impl(self, case):
        pool, probe, rops = case
        return Run(pool, probe).run(rops)

    def line(self, case, pyout):
        from harness.core import sx
        return sx(["seq", case, pyout])  # both strata use the same driver entry

    def nontrivial(self, case, po):
        # at least two calls that announced something or raised
        return sum(1 for st in po[1:] if st[0] != "N" or st[1]) >= 2

    def signature(self, case, pyout, res):
        return {"construct": res.get("construct", "?")}

    def shrink(self, case):
        pool, probe, rops = case
        for i in range(len(rops)):
            yield [pool, probe, rops[:i] + rops[i + 1:]]
        if pool != POOL:
            yield [POOL, probe, rops]
        for i, r in enumerate(rops):
            if isinstance(r, list) and r[0] == "updateFrom" and len(r[2]) > 1:
                yield [pool, probe, rops[:i] + [[r[0], r[1], r[2][:-1], r[3], r[4]]] + rops[i + 1:]]
            if isinstance(r, list) and r[0] == "updateComponents" and len(r[1]) > 1:
                yield [pool, probe, rops[:i] + [[r[0], r[1][:-1]]] + rops[i + 1:]]
            if isinstance(r, list) and r[0] == "addDerived" and len(r[3]) > 1:
                yield [pool, probe, rops[:i] + [[r[0], r[1], r[2], r[3][:-1]]] + rops[i + 1:]]

    def describe(self, case):
        return case[2]


class SeqX(Seq):
    """Abuse stratum (regression corpus of F20-F22): remove_component of pixel / world ids, add_component
    onto ids in use (arrays, derived, coordinate), update_id onto ids in use - anywhere in a history,
    also inside a DataCollection."""
    name = "seqx"
    clean = False
    budget_share = 1.0


PROP = Property(
    id="C17",
    title="A dataset stays structurally consistent and announces every structural change",
    theorems=["C17.inv_init", "C17.inv_spec", "C17.find_spec", "C17.step_inv", "C17.inv_reachable",
              "C17.messages_exact", "C17.trace_ok",
              "C17.remove_coordinate_breaks", "C17.silent_replace", "C17.update_id_merges",
              "C17.scalar_dataset_breaks", "C17.rename_of_removed_id"],
    families=[Seq(), SeqX()],
    trusted_base=["CPython dict insertion order / object identity, the Hub delivering messages in broadcast order to a catch-all listener (delay_callbacks only postpones), IdentityCoordinates axis names"],
    assumptions=["the positional-argument resolution rules are the same in lean/Drivers/C17.lean and harness/props/c17.py (any difference shows as a model disagreement)"],
    rule="histories of Data mutation calls: every 1- and 2-call continuation of 8 set-up prefixes (incl. a 0-d dataset and a dataset with a removed / a re-assigned id) over a 92-call alphabet (second call from the 31-call core alphabet in quick; 3-call continuations over the core alphabet in thorough) + seeded random histories of 3..12 calls in clean / mixed / abusive (coordinate ids removed, ids in use re-added or targeted by update_id: F20-F22) strata; arguments include 0-d arrays, ComponentIDs made for the call, ids that are not (or no longer) components, components without an array, inputs and ids of derived components; non-trivial = at least two calls that announced something or raised",
)
