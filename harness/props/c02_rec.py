"""C02 family `rec`: ties the per-class transcriptions of Model/C02Records.lean to the code.

For every object of a class of the table that occurs in a generated session (named objects of the
serializer's registry, and — recursively — the objects they inline), three things are observed on
the REAL code and sent to the Lean driver:

  x   the object's fields (read through attribute accessors, in the order of the Lean structure)
  R   what the real saver returns: `GlueSerializer.do(obj)` after the serializer's literal
      pass-through and a JSON round trip (numpy scalars -> python, tuples -> lists)
  y   the fields of the object the real un-serializer restored in its place

The driver checks  R == encode(x)  (the transcribed saver is the real saver),  decode(R) == y  (the
transcribed loader is the real loader) and  y == x  (the round trip is the identity on the fields).

Canonical forms (S-expressions):
  python value  (lit n) literal interned per case: 0 -> 0, None -> 1, anything else by its JSON text;
                (str c..) a python str;  (obj k) any other object: k = its position in the serializer's
                registry when it is registered, a content id (>= 10000) for lists/tuples (by elements)
                and for everything that is only ever inlined (arrays, functions: by their record);
                (list v..) a list the class iterates itself (cids, pairs, states, contents)
  record value  (lit n) | (str c..) | (name k) a registered name | (inl k) a nested record |
                (list j..) under the keys the savers fill with context results
"""
import json
import operator

from harness.core import use_repo

use_repo()
import numpy as np  # noqa: E402

from glue.core.state import GlueSerializer, GlueUnSerializer  # noqa: E402
from harness.props import c02_sess as L  # noqa: E402

# keys whose value is a list built by the saver out of context results
CONTEXT_LIST_KEYS = {"cids", "atts", "states", "contents", "pairs"}
# keys whose (string) value is written and read as is: never a name, never `st__`-prefixed
RAW_STR_KEYS = {"ori", "op", "data_uuid"}

OPNAME = {operator.gt: ">", operator.ge: ">=", operator.lt: "<", operator.le: "<=", operator.eq: "==",
          operator.ne: "!=", operator.and_: "&", operator.or_: "|", operator.xor: "^"}


class LIST(list):
    """marker: a list the class iterates itself (its items are values)"""


def _name(o):
    t = type(o)
    return "%s.%s" % (t.__module__, t.__name__)


ACCESSORS = {
    "glue.core.roi.RectangularROI": lambda o: [o.xmin, o.xmax, o.ymin, o.ymax, o.theta],
    "glue.core.roi.RangeROI": lambda o: [o.ori, o.min, o.max],
    "glue.core.roi.XRangeROI": lambda o: [o.min, o.max],
    "glue.core.roi.YRangeROI": lambda o: [o.min, o.max],
    "glue.core.roi.CircularROI": lambda o: [o.xc, o.yc, o.radius],
    "glue.core.roi.CircularAnnulusROI": lambda o: [o.xc, o.yc, o.inner_radius, o.outer_radius],
    "glue.core.roi.EllipticalROI": lambda o: [o.xc, o.yc, o.radius_x, o.radius_y, o.theta],
    "glue.core.roi.PolygonalROI": lambda o: [np.asarray(o.vx), np.asarray(o.vy)],
    "glue.core.roi.Path": lambda o: [np.asarray(o.vx), np.asarray(o.vy)],
    "glue.core.roi.CategoricalROI": lambda o: [o.categories.tolist()],
    "glue.core.roi.Projected3dROI": lambda o: [o.roi_2d, np.asarray(o.projection_matrix).tolist()],
    "glue.core.subset.SubsetState": lambda o: [],
    "glue.core.subset.RangeSubsetState": lambda o: [o.lo, o.hi, o.att],
    "glue.core.subset.MultiRangeSubsetState": lambda o: [LIST(LIST([a, b]) for a, b in o.pairs), o.att],
    "glue.core.subset.InequalitySubsetState": lambda o: [o.left, o.right, OPNAME.get(o.operator, "?")],
    "glue.core.subset.CategorySubsetState": lambda o: [o._att, o._categories],
    "glue.core.subset.ElementSubsetState": lambda o: [o._indices, o._data_uuid],
    "glue.core.subset.SliceSubsetState": lambda o: [o.slices, o.reference_data],
    "glue.core.subset.MaskSubsetState": lambda o: [LIST(o.cids), o.mask],
    "glue.core.subset.RoiSubsetState": lambda o: [o.xatt, o.yatt, o.roi, o.pretransform],
    "glue.core.subset.RoiSubsetStateNd": lambda o: [LIST(o._atts), o.roi, o.pretransform],
    "glue.core.subset.RoiSubsetState3d": lambda o: [o.xatt, o.yatt, o.zatt, o.roi, o.pretransform],
    "glue.core.subset.CategoricalROISubsetState": lambda o: [o.att, o.roi],
    # per category a *set* of categories (json writes a set as a list in iteration order): compared as sets
    "glue.core.subset.CategoricalROISubsetState2D": lambda o: [_setdict(o.categories), o.att1, o.att2],
    "glue.core.subset.CategoricalMultiRangeSubsetState": lambda o: [o.ranges, o.cat_att, o.num_att],
    "glue.core.subset.AndState": lambda o: [o.state1, o.state2],
    "glue.core.subset.OrState": lambda o: [o.state1, o.state2],
    "glue.core.subset.XorState": lambda o: [o.state1, o.state2],
    "glue.core.subset.InvertState": lambda o: [o.state1, o.state2],
    "glue.core.subset.MultiOrState": lambda o: [LIST(o.states)],
    "glue.core.subset.FloodFillSubsetState": lambda o: [o.att, o.start_coords, o.threshold],
    "glue.core.coordinates.AffineCoordinates": lambda o: [o._matrix, o._labels, o._units],
    "glue.core.coordinates.IdentityCoordinates": lambda o: [o.pixel_n_dim],
    "glue.core.coordinates.Coordinates": lambda o: [],
    "glue.core.link_helpers.LinkCollection": lambda o: [o.data1, o.data2, o.cids1, o.cids2],
    "glue.core.link_helpers.MultiLink": lambda o: [o.data1, o.data2, o.cids1, o.cids2, o.forwards, o.backwards,
                                                   list(o.labels1), list(o.labels2)],
    "glue.core.link_helpers.LinkSame": lambda o: [o._cid1, o._cid2],
    "glue.core.link_helpers.LinkSameWithUnits": lambda o: [o._cid1, o._cid2],
    "glue.core.link_helpers.LinkTwoWay": lambda o: [o._cid1, o._cid2, o.forwards, o.backwards],
    "glue.core.link_helpers.LinkAligned": lambda o: [o.data1, o.data2],
    "glue.core.link_helpers.PartialResult": lambda o: [o.func, o.index],
    "builtins.slice": lambda o: [o.start, o.stop, o.step],
    "builtins.tuple": lambda o: [LIST(o)],
    "builtins.list": lambda o: [LIST(o)],
}

def _setdict(d):
    return {k: sorted(v) for k, v in d.items()} if isinstance(d, dict) else d


LITERAL_TYPES = (type(None), bool, int, float, bytes)


def _norm(v):
    """what json makes of a literal payload"""
    if isinstance(v, np.generic):
        return v.item()
    if isinstance(v, (list, tuple)):
        return [_norm(x) for x in v]
    if isinstance(v, (set, frozenset)):
        return sorted((_norm(x) for x in v), key=lambda t: json.dumps(t, sort_keys=True))
    if isinstance(v, dict):
        return {str(k): _norm(x) for k, x in v.items()}
    if isinstance(v, np.ndarray):
        return ["ndarray", str(v.dtype), list(v.shape), [_norm(x) for x in v.ravel().tolist()]]
    return v


def _is_literal(v):
    """number / None / bool / str-free nested list, tuple, set, dict of those (what passes `id`/`do`/json untouched),
    plus containers of plain strings written raw (categories, labels, units)"""
    if isinstance(v, np.generic):
        return not isinstance(v, (np.datetime64, np.timedelta64))
    if isinstance(v, LITERAL_TYPES):
        return True
    return False


def _is_raw_container(v):
    if isinstance(v, (list, tuple, set, frozenset)) and not isinstance(v, LIST):
        return all(_is_literal(x) or isinstance(x, str) or _is_raw_container(x) for x in v)
    if isinstance(v, dict):
        return all(isinstance(k, (str, int, float)) and (_is_literal(x) or isinstance(x, str) or _is_raw_container(x))
                   for k, x in v.items())
    return False


class Canon:
    """per-case tables of literal ids and content ids"""

    def __init__(self, gs, u):
        self.gs = gs
        self.u = u
        self.lits = {}
        self.contents = {}
        self.names = list(gs._objs.keys())
        self.index_by_id = {id(o): k for k, o in enumerate(gs._objs.values())}
        self.restored_index = {}
        for k, n in enumerate(self.names):
            if n in u._objs:
                self.restored_index.setdefault(id(u._objs[n]), k)
        self.pairs = []      # inlined objects of table classes: (original, restored) still to be checked
        self.keep = []

    def lit(self, v):
        v = _norm(v)
        if v is None:
            return ["lit", 1]
        if not isinstance(v, bool) and isinstance(v, (int, float)) and v == 0:
            return ["lit", 0]
        key = json.dumps(v, sort_keys=True)
        return ["lit", 2 + self.lits.setdefault(key, len(self.lits))]

    def content(self, key):
        return 10000 + self.contents.setdefault(key, len(self.contents))

    def inline_record(self, obj):
        """the JSON text of the record a fresh serializer writes for `obj` (content identity of what is only inlined)"""
        g = GlueSerializer(obj)
        self.keep.append(obj)
        rec = g.do(obj)
        return json.dumps(json.loads(json.dumps(rec, default=g.json_default, sort_keys=True)), sort_keys=True)

    def obj_id(self, o, restored):
        if isinstance(o, (list, tuple)):
            return self.content("L" + json.dumps([_strip(self.pv(x, restored)) for x in o]))
        table = self.restored_index if restored else self.index_by_id
        if id(o) in table:
            return table[id(o)]
        try:
            return self.content("R" + self.inline_record(o))
        except Exception as e:   # not serialisable on its own: identity by type only (flagged in the value)
            return self.content("X" + _name(o) + type(e).__name__)

    def pv(self, v, restored):
        if isinstance(v, LIST):
            return ["list"] + [self.pv(x, restored) for x in v]
        if isinstance(v, str):
            return ["str"] + [ord(c) for c in v]
        if _is_literal(v) or _is_raw_container(v):
            return self.lit(v)
        return ["obj", self.obj_id(v, restored)]

    def jv(self, key, v):
        """a value of a (JSON-round-tripped) record"""
        if isinstance(v, dict):
            if v.get("_type") in ("builtins.tuple", "builtins.list") and isinstance(v.get("contents"), list):
                return ["inl", self.content("L" + json.dumps([_strip(self.jv("contents", x)) for x in v["contents"]]))]
            if "_type" in v:
                return ["inl", self.content("R" + json.dumps(v, sort_keys=True))]
            if key == "categories":
                v = _setdict(v)
            return self.lit(v)
        if isinstance(v, str):
            if key in RAW_STR_KEYS or v.startswith("st__"):
                return ["str"] + [ord(c) for c in v]
            if v in self.gs._objs:
                o = self.gs._objs[v]
                if isinstance(o, (list, tuple)):
                    return ["name", self.obj_id(o, False)]
                return ["name", self.names.index(v)]
            return ["str"] + [ord(c) for c in v]
        if isinstance(v, list) and key in CONTEXT_LIST_KEYS:
            return ["list"] + [self.jv(key, x) for x in v]
        return self.lit(v)


def _strip(c):
    """canonical value with the three ways of pointing at an object identified"""
    if isinstance(c, list) and c and c[0] in ("obj", "inl", "name"):
        return ["o", c[1]]
    if isinstance(c, list) and c and c[0] == "list":
        return ["list"] + [_strip(x) for x in c[1:]]
    return c


def _flat(v):
    for x in v:
        if isinstance(x, (list, tuple, set, frozenset)):
            yield from _flat(x)
        else:
            yield x


def field_values(tag, o):
    return ACCESSORS[tag](o)


def instance(C, tag, o, o2):
    gs = C.gs
    n0 = len(gs._objs)
    rec = gs.do(o)
    if len(gs._objs) != n0:
        return [L.tok(tag), "registers-late"]
    if not isinstance(rec, dict):      # a container of literals: passed through, not a record
        return None
    rj = json.loads(json.dumps(rec, default=gs.json_default))
    typ = rj.pop("_type", None)
    rj.pop("_protocol", None)
    xs = field_values(tag, o)
    ys = field_values(tag, o2) if type(o2) is type(o) else None
    R = [[L.tok(k), C.jv(k, v)] for k, v in rj.items()]
    x = [C.pv(v, False) for v in xs]
    if ys is None:
        y = ["wrong-type", L.tok(_name(o2))]
    else:
        y = [C.pv(v, True) for v in ys]
        # objects that are only ever inlined and belong to a class of the table: checked in turn
        for a, b in zip(xs, ys):
            for p, q in _inlined_pairs(a, b):
                C.pairs.append((p, q))
    return [L.tok(tag), x, [L.tok(typ or "none"), R], y]


def _inlined_pairs(a, b):
    if isinstance(a, LIST) and isinstance(b, LIST) and len(a) == len(b):
        for p, q in zip(a, b):
            yield from _inlined_pairs(p, q)
    elif isinstance(a, (tuple, slice)) and type(a) is type(b) and _name(a) in ACCESSORS:
        yield a, b


def run(case):
    try:
        W = L.build_session(case)
    except L.Unbuildable:
        return ["unbuildable"]
    gs = GlueSerializer(W.dc, include_data=True)
    try:
        text = gs.dumps()
    except Exception:
        W.keep.clear()
        return ["save-error"]
    u = GlueUnSerializer.loads(text)
    try:
        dc1 = u.object("__main__")
    except Exception as e:
        W.keep.clear()
        return ["load-error", L.tok(type(e).__name__)]
    W.keep.append(dc1)
    C = Canon(gs, u)
    out = []
    seen = set()
    for n, o in list(gs._objs.items()):
        tag = _name(o)
        if tag not in ACCESSORS or n not in u._objs:
            continue
        r = instance(C, tag, o, u._objs[n])
        if r is not None:
            out.append(r)
    k = 0
    while k < len(C.pairs) and k < 64:
        a, b = C.pairs[k]
        k += 1
        if id(a) in seen:
            continue
        seen.add(id(a))
        r = instance(C, _name(a), a, b)
        if r is not None:
            out.append(r)
    W.keep.clear()
    return ["ok"] + out
