"""C09 — a drawn region becomes a selection of exactly the points the region contains.

Real glue objects: `Data` with `CategoricalComponent` / numeric `Component`s, the ROI classes of
glue/core/roi.py, `roi_to_subset_state`, `Data.get_mask`.  All coordinates are dyadic rationals
(exact in IEEE doubles); rotations are rational unit vectors (c, s), Python receives
theta = atan2(s, c).  The Lean driver decides which elements lie in the boundary band.

Categorical columns come in two forms: ["cat", l, ...] -- the category list handed to
roi_to_subset_state is np.unique(...) of the component's categories, as the viewer states do -- and
["catl", [c, ...], l, ...] -- the component is built with categories=[c, ...] (a custom order:
reversed, rotated, any permutation, extra categories without elements) and roi_to_subset_state is
handed component.categories, i.e. exactly this list in exactly this order (position i <-> c_i, which
is also the element's plotted position component.codes); lists with duplicates are passed as given.

Scale ladder (round 2, seeded defect class C09b: scale-dependent tolerances): the numeric axes of the
`sel`, `pli` and `mpl` families also run over region extents 2^-40 .. 2^40 and region centres 0,
+-2^-30, +-1, +-2^21, +-2^31, +-2^50 (exact dyadics: every vertex, data value and crossing ordinate is
a double).  Those cases carry eps = "auto" (`sel`) / "exact" (`pli`): the Lean driver decides from the
exact inputs whether the float path is exact (then eps = 0: boundary compared too, segment tables
compared exactly) or banded -- and then the band is RELATIVE to the local scale.
"""
import itertools
import math
from fractions import Fraction as Fr

from harness.core import Family, Property, use_repo, sx

use_repo()
import numpy as np  # noqa: E402
from matplotlib.path import Path as MplPath  # noqa: E402
from glue.core import Data  # noqa: E402
from glue.core.component import CategoricalComponent, Component  # noqa: E402
from glue.core.decorators import clear_cache  # noqa: E402
from glue.core import roi as R  # noqa: E402
from glue.core import subset as S  # noqa: E402
from glue.utils.geometry import points_inside_poly, polygon_line_intersections  # noqa: E402

# label id -> string; numpy / python order of the strings (code points) = integer order
NAMES = sorted(["7", "B", "Zz", "a", "aa", "ab", "b", "nan", "z"])
assert NAMES == sorted(NAMES) and len(set(NAMES)) == len(NAMES)
NAME_ID = {n: i for i, n in enumerate(NAMES)}

EPS_FLOAT = Fr(1, 2 ** 20)     # band for float-affected paths
GRID = 2 ** 20


def Q(x):
    """exact rational -> protocol atom"""
    f = Fr(x)
    return f.numerator if f.denominator == 1 else ["q", f.numerator, f.denominator]


def unQ(v):
    if isinstance(v, list):
        return Fr(int(v[1]), int(v[2]))
    return Fr(int(v))


def fl(v):
    f = unQ(v)
    return f.numerator / f.denominator


# ---- magnitude / offset ladder of a numeric axis ---------------------------------------------
LADDER_E = [-40, -30, -20, -10, -4, 0, 4, 10, 20, 30, 40]                  # region extents 2^e
LADDER_C = [Fr(0)] + [sg * Fr(2) ** k for k in (-30, 0, 21, 31, 50) for sg in (1, -1)]   # region centres


def ladder(max_ratio_log2=44):
    """(centre C, extent E) pairs such that every C + E*j/32 (|j| <= 256) is a double (53-bit window on
    both sides); `max_ratio_log2` bounds |C|/E further for float-affected paths (rounding of a vertex
    near C is |C| 2^-53, which must stay far below the relative band 2^-20 E)."""
    for C in LADDER_C:
        for e in LADDER_E:
            E = Fr(2) ** e
            if C != 0 and (abs(C) / E > 2 ** max_ratio_log2 or E / abs(C) > 2 ** 44):
                continue
            yield C, E


def build_roi(r):
    k = r[0]
    if k == "range":
        return R.XRangeROI(fl(r[2]), fl(r[3])) if r[1] == "x" else R.YRangeROI(fl(r[2]), fl(r[3]))
    if k == "rect":
        c, s = fl(r[5]), fl(r[6])
        theta = math.atan2(s, c)
        return R.RectangularROI(fl(r[1]), fl(r[2]), fl(r[3]), fl(r[4]), theta=theta)
    if k == "circle":
        return R.CircularROI(fl(r[1]), fl(r[2]), fl(r[3]))
    if k == "ellipse":
        c, s = fl(r[5]), fl(r[6])
        return R.EllipticalROI(fl(r[1]), fl(r[2]), fl(r[3]), fl(r[4]), theta=math.atan2(s, c))
    if k == "poly":
        return R.PolygonalROI([fl(p[0]) for p in r[1]], [fl(p[1]) for p in r[1]])
    if k == "cat":
        return R.CategoricalROI([NAMES[l] for l in r[1]])
    raise ValueError(k)


def roi_kind(r):
    if r[0] == "rect":
        return "rect0" if unQ(r[6]) == 0 else "rectrot"
    return {"range": "range", "circle": "circle", "ellipse": "ellipse", "poly": "poly", "cat": "catroi"}[r[0]]


def col_head(col):
    return col[:2] if col[0] == "catl" else col[:1]


def col_vals(col):
    return col[2:] if col[0] == "catl" else col[1:]


def col_kind(col):
    return "cat" if col[0] in ("cat", "catl") else "num"


def col_order(col):
    """kind of category order a column passes: None / sorted / unsorted / dup"""
    if col[0] == "num":
        return None
    if col[0] == "cat":
        return "sorted"
    o = list(col[1])
    if len(set(o)) != len(o):
        return "dup"
    return "sorted" if o == sorted(o) else "unsorted"


def build_component(col):
    if col[0] == "cat":
        return CategoricalComponent(np.array([NAMES[l] for l in col[1:]]))
    if col[0] == "catl":
        order = [NAMES[l] for l in col[1]]
        labels = np.array([NAMES[l] for l in col[2:]])
        if len(set(order)) == len(order):
            # custom category order: codes (= plotted positions) follow the list as given
            return CategoricalComponent(labels, categories=np.array(order))
        return CategoricalComponent(labels)
    return Component(np.array([float("nan") if v == "nan" else fl(v) for v in col[1:]], dtype=float))


def bits(vals):
    """mask -> one compact atom"""
    return "m" + "".join("T" if bool(v) else "F" for v in vals)


def labels_to_ids(arr):
    return [NAME_ID[str(x)] for x in arr]


class Sel(Family):
    """roi_to_subset_state + to_mask on a real Data, all region classes x axis kinds."""
    name = "sel"
    exhaustive = False
    batch = 200
    case_timeout = 30.0

    def reset(self):
        for cls in (S.CategoricalROISubsetState, S.CategoricalROISubsetState2D, S.CategoricalMultiRangeSubsetState):
            clear_cache(cls.to_mask)

    # ---- real glue -------------------------------------------------------------------------
    def run_impl(self, case):
        roi_c, xcol, ycol, use_pre, pre, _eps = case
        d = Data(label="d")
        xid = d.add_component(build_component(xcol), "x")
        yid = d.add_component(build_component(ycol), "y")
        roi = build_roi(roi_c)

        def cats(cid, col):
            if col[0] == "cat":
                # as the viewer states do: np.unique(np.hstack([layer categories]))
                return np.unique(np.hstack([d.get_data(cid).categories]))
            if col[0] == "catl":
                if col_order(col) == "dup":
                    return np.array([NAMES[l] for l in col[1]])
                # the component's own category list, in the order it was given
                return d.get_component(cid).categories
            return None

        def codes(cid, col):
            if col[0] == "num" or col_order(col) == "dup":
                return None
            c = np.asarray(d.get_component(cid).codes)
            return [int(v) if np.isfinite(v) and v == int(v) else -1 for v in c]
        xc, yc = cats(xid, xcol), cats(yid, ycol)
        try:
            state = S.roi_to_subset_state(roi, x_att=xid, y_att=yid, x_categories=xc, y_categories=yc,
                                          use_pretransform=bool(use_pre))
        except NotImplementedError:
            return "not-implemented"
        if pre is not None:
            a, b, t, c, dd, u = [fl(v) for v in pre[1:]]
            state.pretransform = lambda x, y: (a * x + b * y + t, c * x + dd * y + u)
        m = d.get_mask(state)
        m = np.asarray(m)
        if m.dtype != bool or m.shape != (len(col_vals(xcol)),):
            return ["bad-mask", str(m.dtype), list(m.shape)]
        att = {id(xid): "x", id(yid): "y"}
        return [None if xc is None else labels_to_ids(xc), None if yc is None else labels_to_ids(yc),
                self.describe_state(state, att, roi_c, "auto" if _eps == "auto" else unQ(_eps) == 0), bits(m),
                [codes(xid, xcol), codes(yid, ycol)]]

    def describe_state(self, st, att, roi_c, exact):
        if isinstance(st, S.RangeSubsetState):
            return ["Range", att[id(st.att)], Q(Fr(st.lo)), Q(Fr(st.hi))]
        if isinstance(st, S.CategoricalROISubsetState):
            return ["CatRoi", att[id(st.att)], labels_to_ids(st.roi.categories)]
        if isinstance(st, S.AndState):
            return ["And", self.describe_state(st.state1, att, roi_c, exact), self.describe_state(st.state2, att, roi_c, exact)]
        if isinstance(st, S.CategoricalROISubsetState2D):
            assert st.att1 is not None and att[id(st.att1)] == "x" and att[id(st.att2)] == "y"
            if not exact or exact == "auto":
                return ["Cat2D"]
            # canonical form of the dict of sets: sorted keys, sorted values
            return ["Cat2D", sorted([NAME_ID[str(k)], sorted(NAME_ID[str(x)] for x in v)] for k, v in st.categories.items())]
        if isinstance(st, S.CategoricalMultiRangeSubsetState):
            if exact == "auto":
                # ladder cases: the whole segment table as exact rationals (compared exactly by the
                # driver when the float path is exact on these inputs)
                table = sorted([NAME_ID[str(k)], [[Q(Fr(float(lo))), Q(Fr(float(hi)))] for lo, hi in v]]
                               for k, v in st.ranges.items())
                return ["CatMulti", att[id(st.cat_att)], att[id(st.num_att)], table]
            return ["CatMulti", att[id(st.cat_att)], att[id(st.num_att)]]
        if isinstance(st, S.RoiSubsetState):
            assert att[id(st.xatt)] == "x" and att[id(st.yatt)] == "y"
            cls = type(st.roi)
            if isinstance(st.roi, R.RangeROI):
                k = "range"
            elif cls is R.RectangularROI:
                k = roi_kind(roi_c) if roi_c[0] == "rect" else "rect?"
            else:
                k = {R.CircularROI: "circle", R.EllipticalROI: "ellipse", R.PolygonalROI: "poly"}.get(cls, cls.__name__)
            return ["Roi", k]
        return ["Other", type(st).__name__]

    def nontrivial(self, case, po):
        return isinstance(po, list) and len(po) == 5 and "T" in po[3] and "F" in po[3][1:]

    def signature(self, case, po, res):
        r = case[0]
        orders = {col_order(case[1]), col_order(case[2])}
        order = "dup" if "dup" in orders else "unsorted" if "unsorted" in orders else "sorted"
        sig = {"roi": roi_kind(r), "xk": col_kind(case[1]), "yk": col_kind(case[2]), "order": order}
        if case[5] == "auto":
            sig["scale"] = "ladder"
        return sig

    def describe(self, case):
        return sx(case) if len(sx(case)) < 400 else sx(case)[:400] + "…"

    def shrink(self, case):
        roi_c, xcol, ycol, use_pre, pre, eps = case
        xh, xv, yh, yv = col_head(xcol), col_vals(xcol), col_head(ycol), col_vals(ycol)
        n = len(xv)
        if n > 1:
            h = n // 2
            for keep in (range(0, h), range(h, n)):
                yield [roi_c, xh + [xv[i] for i in keep], yh + [yv[i] for i in keep], use_pre, pre, eps]
            if n <= 16:
                for j in range(n):
                    keep = [i for i in range(n) if i != j]
                    yield [roi_c, xh + [xv[i] for i in keep], yh + [yv[i] for i in keep], use_pre, pre, eps]
        # explicit category lists: drop a trailing category no remaining element uses (positions of
        # the others are unchanged)
        for which, (hd, vs) in enumerate(((xh, xv), (yh, yv))):
            if hd[0] == "catl" and len(hd[1]) > 1 and hd[1][-1] not in vs:
                nh = ["catl", hd[1][:-1]]
                yield [roi_c, (nh + xv) if which == 0 else xcol, (nh + yv) if which == 1 else ycol, use_pre, pre, eps]

    # ---- generators ------------------------------------------------------------------------
    @staticmethod
    def halfsteps(lo, hi, step=Fr(1, 2)):
        v, out = Fr(lo), []
        while v <= hi:
            out.append(v)
            v += step
        return out

    @staticmethod
    def numcol(vals):
        return ["num"] + [v if v == "nan" else Q(v) for v in vals]

    @staticmethod
    def catcol(labs):
        return ["cat"] + list(labs)

    @staticmethod
    def catlcol(order, labs):
        """categorical column with an explicit category list (passed in exactly this order)"""
        return ["catl", list(order)] + list(labs)

    @staticmethod
    def unsorted(order, rng):
        """a permutation of `order` that is not the sorted one (when there is one)"""
        order = list(order)
        if len(order) > 1 and order == sorted(order):
            order.reverse()
        return order

    @staticmethod
    def label_sets(k, rng, n_perm, all_perms):
        """label columns whose category set has size k: every order (or n_perm random ones),
        from different label pools"""
        pools = [list(range(k)), [1, 3, 4, 6, 8][:k] if k <= 5 else list(range(k))]
        for pool in pools[: 2 if k > 1 else 1]:
            perms = list(itertools.permutations(pool))
            if not all_perms and len(perms) > n_perm:
                perms = [perms[0], perms[-1]] + rng.sample(perms[1:-1], n_perm - 2)
            for p in perms:
                yield list(p)

    def product_elems(self, xk, yk, xlabs, ylabs, xvals, yvals, xorder=None, yorder=None):
        """element columns: every category (in the given order, which fixes nothing but the storage
        order) paired with every value / category of the other axis; `xorder` / `yorder` = explicit
        category list of that axis (passed to glue in that order)"""
        xs = xlabs if xk == "cat" else xvals
        ys = ylabs if yk == "cat" else yvals
        pairs = [(a, b) for a in xs for b in ys]

        def mk(kind, order, vals):
            if kind != "cat":
                return self.numcol(vals)
            return self.catcol(vals) if order is None else self.catlcol(order, vals)
        return mk(xk, xorder, [p[0] for p in pairs]), mk(yk, yorder, [p[1] for p in pairs])

    def case(self, roi, xcol, ycol, use_pre=False, pre=None, eps=0):
        return [roi, xcol, ycol, bool(use_pre), pre, Q(eps)]

    def eps_for(self, roi, xk, yk):
        k = roi_kind(roi)
        anycat = "cat" in (xk, yk)
        onecat = (xk == "cat") != (yk == "cat")
        if k in ("range", "rect0", "catroi"):
            return Fr(0)
        if k == "circle":
            if onecat:
                return unQ(roi[3]) / 900 + EPS_FLOAT
            return Fr(0) if anycat else EPS_FLOAT
        if k == "ellipse":
            if onecat:
                return min(unQ(roi[3]), unQ(roi[4])) / 900 + EPS_FLOAT
            return EPS_FLOAT
        if k == "poly":
            # dyadic vertices and points: matplotlib's products are exact, so the literal crossing rule
            # (validated by the mpl family, boundary included) predicts the mask everywhere
            return EPS_FLOAT if onecat else Fr(0)
        return EPS_FLOAT

    def cases(self, tier, rng):
        thorough = tier == "thorough"
        H = self.halfsteps
        nan = "nan"
        # ---------------- G. magnitude / offset ladder of the numeric axis (first: never cut by the budget) ----
        yield from self.ladder_cases(thorough)
        # ---------------- A. range x numeric ----------------
        vals = H(Fr(-3, 2), Fr(7, 2), Fr(1, 4)) + [nan]
        other = [Fr(i % 3) for i in range(len(vals))]
        other[3] = nan
        for ori in ("x", "y"):
            for lo in H(-1, 3):
                for hi in H(-1, 3):
                    xcol, ycol = (self.numcol(vals), self.numcol(other)) if ori == "x" else (self.numcol(other), self.numcol(vals))
                    yield self.case(["range", ori, Q(lo), Q(hi)], xcol, ycol)
        # with a pretransform: RoiSubsetState(RangeROI) on transformed coordinates
        pres = [["aff", 0, 1, 0, 1, 0, 0], ["aff", 1, Q(Fr(1, 2)), Q(Fr(-1, 4)), 0, 1, 0], ["aff", 2, 0, 1, -1, 1, Q(Fr(1, 2))]]
        for ori in ("x", "y"):
            for lo, hi in ((0, 2), (Fr(1, 2), Fr(3, 2)), (-1, Fr(1, 4)), (2, 1)):
                for pre in pres:
                    g = H(-1, 3, Fr(1, 2))
                    pairs = [(a, b) for a in g + [nan] for b in g + [nan]]
                    yield self.case(["range", ori, Q(lo), Q(hi)], self.numcol([p[0] for p in pairs]),
                                    self.numcol([p[1] for p in pairs]), True, pre)
        # ---------------- B. range x categorical ----------------
        for k in range(1, 6):
            cols = list(self.label_sets(k, rng, 6, k <= 3 or thorough))   # thorough: every order, k = 1..5
            for ci, labs in enumerate(cols):
                col = labs + [labs[0]] + ([labs[-1]] if k > 1 else [])      # duplicates
                # two of three unsorted permutations ARE the category list (custom order: every
                # permutation for k <= 3(5), reversed + random ones beyond); otherwise the permutation
                # is only the storage order and the list is np.unique(...) as in the viewers
                explicit = labs != sorted(labs) and ci % 3 != 2
                catcol_b = (lambda c, _o=list(labs): self.catlcol(_o, sorted(c))) if explicit else self.catcol
                edges = H(Fr(-3, 2), k + Fr(1, 2)) + [Fr(1, 4), Fr(7, 8), k - Fr(3, 4)]
                if ci >= 2 and not thorough:
                    edges = rng.sample(edges, min(len(edges), 5))
                elif ci >= 8 and thorough:
                    edges = rng.sample(edges, min(len(edges), 8))
                ovals = [Fr(i % 2) for i in range(len(col))]
                ovals[0] = nan
                for ori in ("x", "y"):
                    for lo in edges:
                        for hi in edges:
                            if ori == "x":
                                yield self.case(["range", ori, Q(lo), Q(hi)], catcol_b(col), self.numcol(ovals))
                            else:
                                yield self.case(["range", ori, Q(lo), Q(hi)], self.numcol(ovals), catcol_b(col))
                    # other axis categorical as well, and the use_pretransform route (polygon path)
                    if ci < 2:
                        for lo, hi in rng.sample([(a, b) for a in edges for b in edges], 10):
                            xcol, ycol = self.product_elems("cat", "cat", col, [0, 2], None, None,
                                                            list(labs) if explicit else None, [2, 0] if explicit else None)
                            if ori == "y":
                                xcol, ycol = ycol, xcol
                            yield self.case(["range", ori, Q(lo), Q(hi)], xcol, ycol)
                            # the polygon route (to_polygon) is only meaningful for ordered bounds
                            lo, hi = min(lo, hi), max(lo, hi)
                            yield self.case(["range", ori, Q(lo), Q(hi)], xcol, ycol, True, None, EPS_FLOAT)
                            yv = [Fr(-1), Fr(1, 2), Fr(7, 4)]   # no NaN: see design.md (range + use_pretransform + categorical)
                            if ori == "x":
                                xcol, ycol = self.product_elems("cat", "num", col, None, None, yv, list(labs) if explicit else None)
                            else:
                                xcol, ycol = self.product_elems("num", "cat", None, col, yv, None, None, list(labs) if explicit else None)
                            yield self.case(["range", ori, Q(lo), Q(hi)], xcol, ycol, True, None, EPS_FLOAT)
            # category lists that are not a permutation of the labels present: an extra category
            # without elements in front (shifts every position) / at the end, and duplicated entries
            for pool in ([list(range(k)), [1, 3, 4, 6, 8][:k]] if k > 1 else [[3]]):
                base = self.unsorted(pool if k < 3 else pool[1:] + pool[:1], rng)      # rotated / reversed
                extra = next(l for l in (7, 5, 2, 0) if l not in base)
                orders = [[extra] + base, base + [extra], base + [base[0]], [base[-1]] + base]
                for order in orders:
                    n = len(order)
                    edges = rng.sample(H(Fr(-3, 2), n + Fr(1, 2)), 4 if not thorough else 7)
                    ovals = [Fr(i % 2) for i in range(len(base))]
                    for lo in edges:
                        for hi in edges:
                            yield self.case(["range", "x", Q(lo), Q(hi)], self.catlcol(order, base), self.numcol(ovals))
                            yield self.case(["range", "y", Q(lo), Q(hi)], self.numcol(ovals), self.catlcol(order, base))
        # ---------------- C. rectangles ----------------
        rots0 = [(1, 0), (-1, 0)]
        rots = [(0, 1), (0, -1), (Fr(3, 5), Fr(4, 5)), (Fr(4, 5), Fr(-3, 5)), (Fr(-5, 13), Fr(12, 13))]
        fine = H(Fr(-3, 2), Fr(9, 2), Fr(1, 4)) + [nan]
        kinds = [("cat", "cat"), ("cat", "num"), ("num", "cat"), ("num", "num")]
        for xk, yk in kinds:
            for kx, ky in ((3, 2), (1, 4), (4, 3)) if not thorough else ((3, 2), (1, 4), (4, 3), (5, 5), (2, 1)):
                if xk == "num" and yk == "num" and (kx, ky) in ((3, 2), (1, 4)):
                    continue        # no categorical axis: a sub-sweep of the (4, 3) one (same points)
                xl = next(self.label_sets(kx, rng, 2, False))
                yl = list(reversed(next(self.label_sets(ky, rng, 2, False))))
                rng.shuffle(xl)
                # custom category order (x: the shuffled list, y: reversed) except for (4, 3) / (2, 1),
                # which keep the viewers' np.unique lists
                explicit = (kx, ky) not in ((4, 3), (2, 1))
                xcol, ycol = self.product_elems(xk, yk, xl, yl, fine if yk == "cat" else H(-1, 4, Fr(1, 2)) + [nan],
                                                fine if xk == "cat" else H(-1, 4, Fr(1, 2)) + [nan],
                                                self.unsorted(xl, rng) if explicit else None, list(yl) if explicit else None)
                xe = H(Fr(-1), kx + Fr(1, 2))
                ye = [(Fr(-1, 2), Fr(3, 2)), (0, 1), (Fr(1, 4), Fr(7, 2)), (2, Fr(1, 2)), (1, 3)]
                for c, s in rots0:
                    for xmin in xe:
                        for xmax in xe:
                            for ymin, ymax in (ye if thorough else ye[:4]) if c == 1 else ye[:2]:
                                roi = ["rect", Q(xmin), Q(xmax), Q(ymin), Q(ymax), Q(c), Q(s)]
                                yield self.case(roi, xcol, ycol, False, None, self.eps_for(roi, xk, yk))
                for c, s in rots:
                    for xmin, xmax in ((Fr(1, 2), Fr(5, 2)), (0, 3), (Fr(-1, 2), 1), (1, Fr(5, 4))):
                        for ymin, ymax in ((Fr(-3, 4), Fr(3, 4)), (0, 2), (Fr(1, 2), Fr(7, 2))):
                            roi = ["rect", Q(xmin), Q(xmax), Q(ymin), Q(ymax), Q(c), Q(s)]
                            yield self.case(roi, xcol, ycol, False, None, EPS_FLOAT)
        # ---------------- D. categorical regions ----------------
        for k in range(1, 6):
            for di, labs in enumerate(self.label_sets(k, rng, 4, k <= 3)):
                col = labs + labs[:1]
                catcol_d = (lambda c, _o=list(labs): self.catlcol(_o, c)) if (labs != sorted(labs) and di % 2 == 1) else self.catcol
                universe = sorted(set(labs)) + [l for l in (0, 2, 5, 8) if l not in labs][:2]
                subsets = [list(c) for n in range(0, min(len(universe), 3) + 1) for c in itertools.combinations(universe, n)]
                if not thorough and len(subsets) > 12:
                    subsets = rng.sample(subsets, 12)
                for sub in subsets:
                    sub = list(sub)
                    rng.shuffle(sub)
                    sub = sub + sub[:1]             # duplicated label in the region
                    yield self.case(["cat", sub], catcol_d(col), self.numcol([Fr(i) for i in range(len(col))]))
                    yield self.case(["cat", sub], catcol_d(col), self.catcol([labs[0]] * len(col)))
        # ---------------- E. polygon-like regions ----------------
        shapes = self.shapes()
        for xk, yk in kinds:
            combos = [(3, 3, False), (5, 2, True), (1, 1, False), (3, 3, True), (3, 3, "dup")]
            if thorough:
                combos += [(4, 5, True), (2, 4, False), (5, 2, False)]
            for kx, ky, explicit in combos:
                if explicit and xk == "num" and yk == "num" and (kx, ky) == (3, 3):
                    continue
                xl = next(self.label_sets(kx, rng, 2, False))
                yl = next(self.label_sets(ky, rng, 2, False))
                rng.shuffle(yl)
                # custom category order: x rotated (5) / reversed (3), y a non-sorted permutation
                xorder = self.unsorted(xl[2:] + xl[:2] if kx > 3 else xl, rng) if explicit else None
                yorder = self.unsorted(yl, rng) if explicit else None
                if explicit == "dup":       # lists with duplicated entries: a label has two positions
                    xorder, yorder = xorder + xorder[:1], yorder[:2] + yorder[1:]
                step = Fr(1, 8) if thorough else Fr(1, 4)
                off = Fr(1, 16)
                xv = [v + off for v in H(Fr(-3, 2), kx + Fr(1, 2), step)] + H(-1, kx, 1) + [nan]
                yv = [v + off for v in H(Fr(-3, 2), ky + Fr(1, 2), step)] + H(-1, ky, 1) + [nan]
                if xk == "num" and yk == "num":
                    xv = H(Fr(-3, 2), kx + Fr(1, 2), Fr(1, 2)) + [Fr(1, 16), nan]
                    yv = H(Fr(-3, 2), ky + Fr(1, 2), Fr(1, 2)) + [Fr(5, 16), nan]
                xcol, ycol = self.product_elems(xk, yk, xl, yl, xv, yv, xorder, yorder)
                offs = H(Fr(-1, 2), Fr(3, 2)) if not thorough else H(-1, 3)
                for shape in (shapes if explicit != "dup" else shapes[::3]):
                    for dx in offs:
                        for dy in (offs if thorough else offs[::2] + [Fr(1, 4)]):
                            roi = self.translate(shape, dx, dy)
                            yield self.case(roi, xcol, ycol, False, None, self.eps_for(roi, xk, yk))
                if xk == "num" and yk == "num":
                    for shape in shapes[::3]:
                        for pre in pres:
                            yield self.case(shape, xcol, ycol, True, pre, max(self.eps_for(shape, xk, yk), EPS_FLOAT))
        # ---------------- F. seeded random ----------------
        n = 1200 if not thorough else 40000
        for _ in range(n):
            yield self.random_case(rng)

    # ---- scale ladder -----------------------------------------------------------------------
    # Templates live in (k, u) coordinates: k = position on the other axis (categorical positions 0..4,
    # or a second numeric axis), u = the laddered numeric axis in units of the region's half extent
    # (region centred on u = 0, half extent 1).  u -> C + E u; every crossing ordinate of the "exact"
    # polygons on the lines k = 0..4 is a multiple of 1/2 (dyadic slopes / horizontal edges).
    h = Fr(1, 2)
    LADDER_EXACT = [
        ("range", "u", -1, 1),
        ("rect", h, 7 * h, -1, 1, 1, 0),
        ("rect", h, 7 * h, -1, 1, -1, 0),                                   # theta = pi
        ("poly", [(2, 1), (4, 0), (2, -1), (0, 0)]),                         # diamond: chords +-1/2 at k = 1, 3
        ("poly", [(-h, -1), (9 * h, -1), (9 * h, -h), (h, -h), (h, h), (9 * h, h), (9 * h, 1), (-h, 1)]),  # C: two segments per line
        ("poly", [(0, -1), (4, 1), (4, -1), (0, -1)]),                       # closed triangle, slope 1/2, edge on k = 4
        ("poly", [(0, -1), (4, 1), (4, -1), (0, 1)]),                        # bow-tie (double crossing at k = 2)
    ]
    LADDER_BAND = [
        ("poly", [(0, -1), (3, 1), (3, -1)]),                                # slope 2/3: crossing ordinates are not doubles
        ("ellipse", 2, 0, 2, 1, 1, 0),
        ("ellipse", 2, 0, 2, 1, -1, 0),
        ("range", "u", -1, 1, "pre"),                                        # use_pretransform: polygon route (+-1e100 box)
    ]
    LADDER_ROT = [
        ("rect", h, 7 * h, -1, 1, Fr(3, 5), Fr(4, 5)),
        ("rect", h, 7 * h, -1, 1, 0, 1),
        ("rect", 1, 3, -h, h, Fr(-5, 13), Fr(12, 13)),
        ("ellipse", 2, 0, 2, 1, Fr(3, 5), Fr(4, 5)),
        ("ellipse", 2, 0, h, 1, 0, 1),
        ("ellipse", 2, 0, 2, 1, Fr(12, 13), Fr(-5, 13)),
    ]
    LADDER_ISO = [("circle", 2, 0, 1), ("circle", 2, h, 2)]
    LADDER_U = [Fr(j, 4) for j in (0, 1, -1, 2, -2, 3, -3, 4, -4, 5, -5, 6, -6, 8, -8, 16, -16)]

    @staticmethod
    def place(tpl, swap, km, um):
        """template -> protocol region; k -> km[0] + km[1] k on x (y if swap), u -> um[0] + um[1] u"""
        K = lambda t: km[0] + km[1] * Fr(t)  # noqa: E731
        U = lambda t: um[0] + um[1] * Fr(t)  # noqa: E731
        kind = tpl[0]
        if kind == "range":
            on_u = tpl[1] == "u"
            f = U if on_u else K
            ori = "xy"[on_u != swap]
            return ["range", ori, Q(f(tpl[2])), Q(f(tpl[3]))]
        if kind == "rect":
            kr, ur = [Q(K(tpl[1])), Q(K(tpl[2]))], [Q(U(tpl[3])), Q(U(tpl[4]))]
            return ["rect"] + (ur + kr if swap else kr + ur) + [Q(tpl[5]), Q(tpl[6])]
        if kind == "poly":
            return ["poly", [[Q(U(u)), Q(K(k))] if swap else [Q(K(k)), Q(U(u))] for k, u in tpl[1]]]
        if kind == "ellipse":
            kc, uc, rk, ru = Q(K(tpl[1])), Q(U(tpl[2])), Q(km[1] * Fr(tpl[3])), Q(um[1] * Fr(tpl[4]))
            return ["ellipse"] + ([uc, kc, ru, rk] if swap else [kc, uc, rk, ru]) + [Q(tpl[5]), Q(tpl[6])]
        if kind == "circle":
            assert km[1] == um[1]
            kc, uc = Q(K(tpl[1])), Q(U(tpl[2]))
            return ["circle"] + ([uc, kc] if swap else [kc, uc]) + [Q(um[1] * Fr(tpl[3]))]
        raise ValueError(kind)

    def ladder_cases(self, thorough):
        nan = "nan"
        orders = [None, [4, 8, 1, 6, 3], None, [8, 6, 4, 3, 1]]     # None: np.unique list of labels 1 3 4 6 8
        idx = 0
        for band_only, pairs in ((False, list(ladder(44))), (True, list(ladder(26)))):
            for pi, (C, E) in enumerate(pairs):
                # axis assignments: (k kind, swap, k map); u always C + E u
                um = (C, E)
                combos = [("cat", False, (Fr(0), Fr(1))), ("cat", True, (Fr(0), Fr(1))),
                          ("num", idx % 2 == 1, (Fr(0), Fr(1))),      # second numeric axis of order 1
                          ("num", idx % 2 == 0, (C - E, E / 2))]      # ... in the same units (uniform)
                for ci, (kk, swap, km) in enumerate(combos):
                    if not band_only:
                        tpls = list(self.LADDER_EXACT)
                        if kk == "cat" and idx % 4 == 0:
                            tpls.append(("range", "k", Fr(1, 2), Fr(7, 2)))   # range on the categorical axis
                    else:
                        tpls = list(self.LADDER_BAND)
                        if kk == "num":
                            # numeric-numeric + use_pretransform: RoiSubsetState(RangeROI), comparisons only
                            tpls = [t for t in tpls if t[-1] != "pre" or idx % 3 == 0]
                        if (kk == "num" and km[1] * 2 == um[1]) or (kk == "cat" and E in (Fr(1, 16), 1, 16)):
                            tpls += self.LADDER_ROT
                        if kk == "num" and km[1] * 2 == um[1]:
                            # uniform units: k -> C + E (k - 2) / 2 has half the step of u; circles need one
                            # unit on both axes, so they are placed with k -> (C - 2E) + E k
                            tpls += self.LADDER_ISO
                        elif kk == "cat" and E >= Fr(1, 2 ** 30):
                            tpls += self.LADDER_ISO[:1]
                    for ti, tpl in enumerate(tpls):
                        idx += 1
                        # quick: every template on every ladder pair under two of the four axis
                        # assignments (alternating); thorough: the full product
                        if not thorough and (ci + ti + pi) % 2:
                            continue
                        use_pre = tpl[-1] == "pre"
                        kmap = km
                        if tpl[0] == "circle":
                            kmap = (C - 2 * E, E) if kk == "num" else km
                            if kmap[1] != um[1]:
                                # a circle over one categorical and one rescaled numeric axis is the
                                # unrotated ellipse rk = r, ru = E r
                                tpl = ("ellipse", tpl[1], tpl[2], tpl[3], tpl[3], 1, 0)
                        roi = self.place(tpl, swap, kmap, um)
                        # data: every k position x a ladder of u values (well inside / on / well outside
                        # at distances proportional to the extent) + NaN
                        us = self.LADDER_U if tpl[0] not in ("rect", "ellipse") or tpl[-1] == 0 else \
                            [Fr(j, 4) for j in range(-12, 13)]
                        ks = [0, 1, 2, 3, 4] if kk == "cat" else [0, 1, 2, 3, 4, Fr(1, 2), Fr(5, 2)]
                        pairs_ = [(k, u) for k in ks for u in us + [nan]]
                        ucol = self.numcol([u if u == nan else um[0] + um[1] * u for _k, u in pairs_])
                        if kk == "cat":
                            order = orders[idx % 4]
                            labs = sorted([1, 3, 4, 6, 8]) if order is None else order
                            kl = [labs[k] for k, _u in pairs_]
                            kcol = self.catcol(kl) if order is None else self.catlcol(order, kl)
                        else:
                            kcol = self.numcol([kmap[0] + kmap[1] * Fr(k) for k, _u in pairs_])
                        xcol, ycol = (ucol, kcol) if swap else (kcol, ucol)
                        yield [roi, xcol, ycol, use_pre, None, "auto"]

    def shapes(self):
        P = lambda pts: ["poly", [[Q(Fr(a)), Q(Fr(b))] for a, b in pts]]  # noqa: E731
        h = Fr(1, 2)
        return [
            P([(0, -h), (4, 3 + h), (4, 0), (1, -1), (0, -h)]),                  # closed, from the test-suite
            P([(h, h), (1 + h, h), (2 + h, 2 + h), (1, 3 + h)]),                  # open quadrilateral
            P([(-h, -h), (2 + h, 2 + h), (2 + h, -h), (-h, 2 + h)]),              # bow-tie (self-intersecting)
            P([(-h, -h), (3, -h), (3, 1), (1, 1), (1, 3), (-h, 3)]),              # L shape: edges on integer lines
            P([(0, 0), (2, 0), (2, 2), (0, 2)]),                                  # all vertices on category positions
            P([(Fr(1, 4), -1), (Fr(3, 4), 5), (Fr(5, 4), -1), (Fr(7, 4), 5), (Fr(9, 4), -1)]),  # zig-zag, several segments per line
            ["circle", Q(1), Q(1), Q(Fr(5, 4))],
            ["circle", Q(Fr(3, 2)), Q(h), Q(Fr(3, 4))],
            ["circle", Q(0), Q(2), Q(2)],
            ["ellipse", Q(1), Q(1), Q(Fr(3, 2)), Q(Fr(3, 4)), Q(1), Q(0)],
            ["ellipse", Q(1), Q(h), Q(Fr(7, 4)), Q(Fr(3, 4)), Q(Fr(3, 5)), Q(Fr(4, 5))],
            ["ellipse", Q(h), Q(1), Q(Fr(1, 2)), Q(Fr(5, 4)), Q(0), Q(1)],
            ["rect", Q(h), Q(Fr(5, 2)), Q(Fr(-3, 4)), Q(Fr(3, 4)), Q(0), Q(1)],   # F9
            ["rect", Q(0), Q(2), Q(0), Q(1), Q(Fr(3, 5)), Q(Fr(4, 5))],
        ]

    @staticmethod
    def translate(roi, dx, dy):
        k = roi[0]
        if k == "poly":
            return ["poly", [[Q(unQ(p[0]) + dx), Q(unQ(p[1]) + dy)] for p in roi[1]]]
        if k == "circle":
            return ["circle", Q(unQ(roi[1]) + dx), Q(unQ(roi[2]) + dy), roi[3]]
        if k == "ellipse":
            return ["ellipse", Q(unQ(roi[1]) + dx), Q(unQ(roi[2]) + dy)] + roi[3:]
        if k == "rect":
            return ["rect", Q(unQ(roi[1]) + dx), Q(unQ(roi[2]) + dx), Q(unQ(roi[3]) + dy), Q(unQ(roi[4]) + dy)] + roi[5:]
        return roi

    def random_case(self, rng):
        def dy(lo, hi, den):
            return Fr(rng.randint(lo * den, hi * den), den)
        xk, yk = rng.choice([("cat", "cat"), ("cat", "num"), ("num", "cat"), ("num", "num")])
        kx, ky = rng.randint(1, 5), rng.randint(1, 5)
        xl = rng.sample(range(len(NAMES)), kx)
        yl = rng.sample(range(len(NAMES)), ky)
        n = rng.randint(1, 40)
        den = rng.choice([1, 2, 4, 16])

        def col(kind, labs, k):
            if kind == "cat":
                c = [rng.choice(labs) for _ in range(n)]
                return self.catcol(c)
            return self.numcol(["nan" if rng.random() < 0.05 else dy(-2, k + 1, den) + rng.choice([0, 0, Fr(1, 32)]) for _ in range(n)])
        def relist(c):
            """half of the categorical columns get an explicit category list: a random permutation
            of the labels present, sometimes with extra categories, rarely with a duplicate"""
            if c[0] != "cat" or rng.random() < 0.5:
                return c
            order = sorted(set(c[1:]))
            if rng.random() < 0.3:
                order += rng.sample([l for l in range(len(NAMES)) if l not in order], rng.randint(1, 2))
            rng.shuffle(order)
            if rng.random() < 0.1:
                order.insert(rng.randrange(len(order) + 1), rng.choice(order))
            return self.catlcol(order, c[1:])
        xcol, ycol = relist(col(xk, xl, kx)), relist(col(yk, yl, ky))

        def ncat(c, k):
            return k if c[0] == "num" else len(c[1]) if c[0] == "catl" else len(set(c[1:]))
        kxe, kye = ncat(xcol, kx), ncat(ycol, ky)
        t = rng.choice(["range", "rect0", "rectrot", "circle", "ellipse", "poly", "poly", "cat"])
        use_pre, pre = False, None
        if t == "range":
            ori = rng.choice("xy")
            k = kxe if ori == "x" else kye
            lo, hi = dy(-2, k + 1, rng.choice([1, 2, 4])), dy(-2, k + 1, rng.choice([1, 2, 4]))
            use_pre = rng.random() < 0.2
            if use_pre:
                lo, hi = min(lo, hi), max(lo, hi)
            roi = ["range", ori, Q(lo), Q(hi)]
        elif t in ("rect0", "rectrot"):
            x0, x1 = sorted([dy(-2, kxe + 1, 4), dy(-2, kxe + 1, 4)])
            y0, y1 = sorted([dy(-2, kye + 1, 4), dy(-2, kye + 1, 4)])
            c, s = rng.choice([(1, 0), (-1, 0)]) if t == "rect0" else rng.choice(
                [(0, 1), (0, -1), (Fr(3, 5), Fr(4, 5)), (Fr(-4, 5), Fr(3, 5)), (Fr(5, 13), Fr(-12, 13)), (Fr(15, 17), Fr(8, 17))])
            roi = ["rect", Q(x0), Q(x1), Q(y0), Q(y1), Q(c), Q(s)]
        elif t == "circle":
            roi = ["circle", Q(dy(-1, kxe, 4)), Q(dy(-1, kye, 4)), Q(dy(1, 12, 4) / 1)]
            roi[3] = Q(Fr(rng.randint(1, 12), 4))
        elif t == "ellipse":
            c, s = rng.choice([(1, 0), (0, 1), (Fr(3, 5), Fr(4, 5)), (Fr(-4, 5), Fr(3, 5)), (Fr(12, 13), Fr(5, 13))])
            rx = Fr(rng.randint(2, 10), 4)
            ry = Fr(rng.randint(max(2, math.ceil(rx * 4 / 3)), min(10, math.floor(rx * 4 * 3))), 4)
            roi = ["ellipse", Q(dy(-1, kxe, 4)), Q(dy(-1, kye, 4)), Q(rx), Q(ry), Q(c), Q(s)]
        elif t == "poly":
            nv = rng.randint(3, 7)
            d = rng.choice([1, 2, 4])
            pts = [[dy(-2, kxe + 1, d), dy(-2, kye + 1, d)] for _ in range(nv)]
            if rng.random() < 0.3:
                pts.append(list(pts[0]))
            roi = ["poly", [[Q(a), Q(b)] for a, b in pts]]
        else:
            if xk != "cat":
                xk = "cat"
                xcol = relist(col("cat", xl, kx))
            roi = ["cat", [rng.randrange(len(NAMES)) for _ in range(rng.randint(0, 4))]]
        if xk == "num" and yk == "num" and t != "cat" and rng.random() < 0.25:
            use_pre = True
            pre = ["aff"] + [Q(Fr(rng.randint(-4, 4), 2)) for _ in range(6)]
        eps = self.eps_for(roi, xk, yk)
        if use_pre:
            eps = max(eps, EPS_FLOAT)
            if t == "range" and "cat" in (xk, yk):
                # polygon route of a range: the other coordinate must be a number (design.md)
                xcol = [v if v != "nan" else 0 for v in xcol]
                ycol = [v if v != "nan" else 0 for v in ycol]
        return self.case(roi, xcol, ycol, use_pre, pre, eps)


def grid_polys(rng, n, maxv=6):
    for _ in range(n):
        nv = rng.randint(3, maxv)
        d = rng.choice([1, 1, 2, 4])
        pts = [[Fr(rng.randint(-1 * d, 4 * d), d), Fr(rng.randint(-1 * d, 4 * d), d)] for _ in range(nv)]
        if rng.random() < 0.3:
            pts.append(list(pts[0]))
        yield pts


# polygons of the scale ladder in (k, u) template coordinates (see Sel.LADDER_EXACT / LADDER_BAND)
LADDER_POLYS = [t[1] for t in Sel.LADDER_EXACT + Sel.LADDER_BAND if t[0] == "poly"]

FIXED_POLYS = [
    [[0, 0], [2, 0], [2, 2], [0, 2]],
    [[0, 0], [2, 0], [2, 2], [0, 2], [0, 0]],
    [[0, 0], [3, 3], [3, 0], [0, 3]],
    [[0, 0], [4, 0], [4, 1], [1, 1], [1, 3], [0, 3]],
    [[0, 0], [2, 1], [4, 0], [2, 3]],
    [[1, 1], [1, 1], [3, 1], [2, 2]],
    [[0, 0], [1, 2], [2, 0], [3, 2], [4, 0], [4, 3], [0, 3]],
]


class Mpl(Family):
    """L0: the literal model of matplotlib's Path.contains_points crossing rule, and of glue's
    points_inside_poly prefilter, against the libraries (exact dyadic inputs, also ON the boundary)."""
    name = "mpl"
    exhaustive = False
    batch = 100

    def cases(self, tier, rng):
        # scale ladder: the y axis (every other pair: both axes, in the same units) at every magnitude /
        # offset; vertices and points exact doubles, all of matplotlib's differences and products exact
        for i, (C, E) in enumerate(ladder(44)):
            km = (C - E, E / 2) if i % 2 else (Fr(0), Fr(1))
            lpts = [[Q(km[0] + km[1] * Fr(a, 2)), Q(C + E * Fr(b, 4))] for a in range(-2, 11) for b in range(-6, 7)]
            for tpl in LADDER_POLYS:
                vs = [[Q(km[0] + km[1] * Fr(k)), Q(C + E * Fr(u))] for k, u in tpl]
                if i % 3 == 2:      # the ladder on x instead
                    yield [[[b, a] for a, b in vs], [[b, a] for a, b in lpts]]
                else:
                    yield [vs, lpts]
        pts = [[Q(Fr(a, 4)), Q(Fr(b, 4))] for a in range(-6, 19) for b in range(-6, 19)]
        polys = [[[Fr(a), Fr(b)] for a, b in p] for p in FIXED_POLYS] + list(grid_polys(rng, 100 if tier == "quick" else 3000))
        for p in polys:
            yield [[[Q(a), Q(b)] for a, b in p], pts]

    def run_impl(self, case):
        vs, pts = case
        vx = np.array([fl(p[0]) for p in vs])
        vy = np.array([fl(p[1]) for p in vs])
        x = np.array([fl(p[0]) for p in pts])
        y = np.array([fl(p[1]) for p in pts])
        a = MplPath(np.column_stack((vx, vy))).contains_points(np.column_stack((x, y)))
        b = points_inside_poly(x, y, vx, vy)
        return [bits(a), bits(b)]

    def nontrivial(self, case, po):
        return isinstance(po, list) and "T" in po[0]

    def describe(self, case):
        return sx(case[0]) + " x %d points" % len(case[1])


class Pli(Family):
    """polygon_line_intersections against the model (segments rounded to 2^-20 on both sides)."""
    name = "pli"
    exhaustive = False
    batch = 200

    def cases(self, tier, rng):
        # scale ladder: ordinates C + E u (every other pair: the line coordinate in the same units too);
        # segments travel as exact rationals ("exact": compared exactly when the driver finds the
        # float evaluation exact on these inputs -- all but the slope-2/3 triangle)
        for i, (C, E) in enumerate(ladder(44)):
            km = (C - E, E / 2) if i % 2 else (Fr(0), Fr(1))
            lys = [Q(C + E * Fr(j, 8)) for j in range(-20, 21)]
            for tpl in LADDER_POLYS:
                vs = [[Q(km[0] + km[1] * Fr(k)), Q(C + E * Fr(u))] for k, u in tpl]
                lines = (0, 1, 2, 3, 4, Fr(1, 2), Fr(5, 2), Fr(9, 2))
                if tier == "quick":     # half of the lines, alternating from pair to pair
                    lines = lines[i % 2::2]
                for k in lines:
                    yield [vs, Q(km[0] + km[1] * Fr(k)), lys, "exact"]
        ys = [Q(Fr(a, 8) + Fr(1, 32)) for a in range(-12, 40)]
        polys = [[[Fr(a), Fr(b)] for a, b in p] for p in FIXED_POLYS] + list(grid_polys(rng, 250 if tier == "quick" else 8000, 8))
        for p in polys:
            for xv in [Fr(a, 2) for a in range(-2, 9)] + [Fr(3, 4)]:
                yield [[[Q(a), Q(b)] for a, b in p], Q(xv), ys, Q(Fr(1, 2 ** 12))]

    def run_impl(self, case):
        vs, xv, _ys, _eps = case
        segs = polygon_line_intersections([fl(p[0]) for p in vs], [fl(p[1]) for p in vs], xval=fl(xv))
        if _eps == "exact":
            return [[Q(Fr(float(lo))), Q(Fr(float(hi)))] for lo, hi in segs]
        out = []
        for lo, hi in segs:
            a = math.floor(Fr(float(lo)) * GRID + Fr(1, 2))
            b = math.floor(Fr(float(hi)) * GRID + Fr(1, 2))
            if a != b:
                out.append([a, b])
        return out

    def nontrivial(self, case, po):
        return isinstance(po, list) and len(po) > 0


class FromRange(Family):
    """CategoricalROI.from_range + contains, exhaustively: category counts 1..6, bounds on every
    quarter position, foreign labels -- and the category list in EVERY order: all permutations of
    1..4 (5) categories, reversed / rotated / random permutations beyond, lists with duplicated
    entries; the position of a label is its index in the list as passed."""
    name = "frange"
    exhaustive = True
    batch = 1000

    def cases(self, tier, rng):
        K = 6 if tier == "quick" else 7
        probe = list(range(len(NAMES)))
        for k in range(1, K + 1):
            for pool in ([1, 2, 3, 4, 5, 6, 7][:k], [0, 2, 3, 5, 6, 7, 8][:k]):
                for lo4 in range(-6, 4 * k + 5):
                    for hi4 in range(-6, 4 * k + 5):
                        yield [pool, Q(Fr(lo4, 4)), Q(Fr(hi4, 4)), probe]
        # every order of the list (half-step bounds: between and on the positions)
        KP = 4 if tier == "quick" else 5
        for k in range(2, K + 1):
            pool = [0, 2, 3, 5, 6, 7, 8][:k] if k % 2 else [1, 2, 3, 4, 5, 6, 7][:k]
            if k <= KP:
                orders = [list(p) for p in itertools.permutations(pool)][1:]
            else:
                orders = [pool[::-1]] + [pool[i:] + pool[:i] for i in ((1, k - 1) if tier == "quick" else range(1, k))]
                orders += [rng.sample(pool, k) for _ in range(3 if tier == "quick" else 40)]
            # lists with duplicated entries (adjacent, far apart, everything twice)
            dups = [pool[::-1] + [pool[-1]], pool[1:] + pool[:2]] + ([pool[::-1] + pool] if k <= 3 or tier != "quick" else [])
            for order in orders + dups:
                n = len(order)
                for lo2 in range(-3, 2 * n + 3):
                    for hi2 in range(-3, 2 * n + 3):
                        yield [order, Q(Fr(lo2, 2)), Q(Fr(hi2, 2)), probe]
        # non-integer bounds on permuted lists
        for _ in range(400 if tier == "quick" else 5000):
            k = rng.randint(2, 7)
            order = rng.sample(range(len(NAMES)), k)
            if rng.random() < 0.15:
                order.insert(rng.randrange(k + 1), rng.choice(order))
            yield [order, Q(Fr(rng.randint(-8, 4 * k + 8), 4)), Q(Fr(rng.randint(-8, 4 * k + 8), 4)), probe]

    def run_impl(self, case):
        cats, lo, hi, probe = case
        roi = R.CategoricalROI.from_range(np.array([NAMES[l] for l in cats]), fl(lo), fl(hi))
        m = roi.contains(np.array([NAMES[l] for l in probe]), None)
        return [labels_to_ids(roi.categories), bits(m)]

    def nontrivial(self, case, po):
        return isinstance(po, list) and len(po[0]) > 0

    def signature(self, case, po, res):
        o = list(case[0])
        return {"order": "dup" if len(set(o)) != len(o) else "sorted" if o == sorted(o) else "unsorted"}


PROP = Property(
    id="C09",
    title="A drawn region becomes a selection of exactly the points the region contains",
    theorems=["C09.range_numeric", "C09.from_range_positions", "C09.range_categorical", "C09.from_range_unsorted",
              "C09.from_range_any_list", "C09.contains_needs_sorted", "C09.categorical_roi",
              "C09.rect_categorical", "C09.polygon_cat_cat", "C09.polygonised_cat_num", "C09.polygon_cat_num", "C09.rect_rotated_cat_num",
              "C09.numeric_numeric", "C09.category_order_irrelevant", "C09.categories_ok", "C09.roi_selection",
              "C09.selection_scale_equivariant",
              "C09.rect_categorical_rotated_witness"],
    families=[FromRange(), Mpl(), Pli(), Sel()],
    trusted_base=["numpy comparisons / searchsorted / unique, matplotlib Path.contains_points (literal crossing rule, validated by the mpl L0 family), IEEE doubles on exactly representable inputs"],
    assumptions=["float evaluation of polygon/line intersections, rotations and the 100-gon approximation of circles/ellipses agrees with exact arithmetic outside the recorded boundary band (strata with coordinates of order 1: eps per case 0 for exact paths, 2^-20 for float-affected paths, radius/900 for polygonised circles/ellipses; scale-ladder strata (extents 2^-40..2^40, centres up to +-2^50): decided by the Lean driver from the exact inputs -- 0 when every float intermediate is a double, otherwise RELATIVE to the local scale: 2^-20 of the region's extent on each numeric axis / of the radius / of the shorter side, radius/900 for polygonised circles and ellipses)"],
    rule="non-trivial = the mask contains both selected and unselected elements (sel), a non-empty category list (frange), some inside point (mpl), some segment (pli); distinct = distinct (family, input) hash",
)
for _f, _share in zip(PROP.families, (0.08, 0.08, 0.12, 0.72)):
    _f.budget_share = _share
