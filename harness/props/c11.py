"""C11 — key joins propagate selections by key membership, in all four join shapes.

Real `glue.core.Data` objects are joined with `join_on_key` (or `JoinLink`s through a
`DataCollection`), a selection that only some datasets can evaluate is asked of one dataset with
`Data.get_mask(state, view)`, and the mask / IncompatibleAttribute is sent to the Lean driver
together with the stored key items (integers, IEEE bit patterns, code points), so that the Lean
`Spec` (membership by value along an admissible join path) judges the implementation's output.
"""
import itertools
import warnings

from harness.core import Family, Property, sx, use_repo

use_repo()
warnings.filterwarnings("ignore")
import numpy as np  # noqa: E402
from glue.core import Data, DataCollection  # noqa: E402
from glue.core.exceptions import IncompatibleAttribute  # noqa: E402
from glue.core.link_helpers import JoinLink  # noqa: E402
from glue.core.subset import ElementSubsetState, SubsetState  # noqa: E402

# ------------------------------------------------------------------------------------------
# dtypes and items
# ------------------------------------------------------------------------------------------

INT_DT = ["i1", "i2", "i4", "i8", "u1", "u2", "u4"]
FLT_DT = ["f4", "f8"]
STR_DT = ["U1", "U2", "U3", "U6"]


def np_dtype(dt):
    return np.dtype("<" + dt)


def kind(dt):
    return "s" if dt[0] == "U" else ("f" if dt[0] == "f" else "i")


def fbits(x, dt):
    """IEEE bit pattern of python float x at dtype dt (must be exactly representable)."""
    a = np.array([x], dtype=np_dtype(dt))
    return int(a.view("<u4" if dt == "f4" else "<u8")[0])


def fits(v, dt):
    info = np.iinfo(np_dtype(dt))
    return info.min <= v <= info.max


def column_array(dt, cells):
    """stored items (ints / bit patterns / code point lists) -> numpy array of dtype dt"""
    if kind(dt) == "i":
        return np.array(cells, dtype=np_dtype(dt))
    if kind(dt) == "f":
        return np.array(cells, dtype="<u4" if dt == "f4" else "<u8").view(np_dtype(dt))
    return np.array(["".join(chr(c) for c in cs) for cs in cells], dtype=np_dtype(dt))


def exact_value(dt, cell):
    """the value a stored item denotes, as an exact python object"""
    k = kind(dt)
    if k == "i":
        return int(cell)
    if k == "f":
        x = column_array(dt, [cell])[0]
        return float("nan") if x != x else float(x)
    return "".join(chr(c) for c in cell).rstrip("\0")


INT_ALPHA = [0, 1, 2, 3, -1]
INT_BIG = [127, -128, 255, 256, 65535, 2 ** 31 - 1, 2 ** 32, 2 ** 33 + 1, -2 ** 31]
FLT_ALPHA = [0.0, 1.0, 2.0, 3.0, -1.0, 1.5]
FLT_SPECIAL = [-0.0, float("nan"), float("inf"), -float("inf")]
STR_ALPHA = ["", "a", "b", "ab", "ba", "abc", "a\0b"]
# the edges of exact representability: float32 (24-bit significand), int32/uint32 ranges, float64
# (53 bits; ties to even: 2**53+1 -> 2**53, 2**53+3 -> 2**53+4, 2**54-1 -> 2**54, 2**63-1 -> 2**63),
# the int64 range.  Integers travel as exact integers, floats as bit patterns - never as floats.
INT_EDGE = [2 ** 24 - 1, 2 ** 24, 2 ** 24 + 1, 2 ** 24 + 2, 2 ** 32 - 1, 2 ** 32 - 2,
            2 ** 53 - 1, 2 ** 53, 2 ** 53 + 1, 2 ** 53 + 2, 2 ** 53 + 3, 2 ** 53 + 4, 2 ** 54 - 1, 2 ** 54 + 2, 2 ** 54 + 6,
            -(2 ** 53), -(2 ** 53 + 1), -(2 ** 53 + 3), 2 ** 60 + 2 ** 7, 2 ** 60 + 2 ** 7 + 1, 2 ** 60 + 3 * 2 ** 7,
            1237648720693755904 + 14, 1237648720693755904 + 15, 2 ** 62 + 1, 2 ** 63 - 1, 2 ** 63 - 2, 2 ** 63 - 513, 2 ** 63 - 512,
            -2 ** 63, -2 ** 63 + 1]
FLT_EDGE = [0.5, 2.0 ** 24, 2.0 ** 24 + 2, 2.0 ** 24 + 1, 2.0 ** 32 - 1, 2.0 ** 53, 2.0 ** 53 + 2, 2.0 ** 53 + 4, -(2.0 ** 53), 2.0 ** 54,
            2.0 ** 60, 2.0 ** 62, 2.0 ** 63, -(2.0 ** 63), 2.0 ** 63 - 1024, 2.0 ** 64]


def representable(v, dt):
    """is the number v (python int or float, exact) an item of dtype dt?"""
    k = kind(dt)
    if k == "i":
        return v == int(v) and fits(int(v), dt)
    if k == "f":
        if dt == "f8":
            x = float(v)
        else:
            x = float(np.float32(v))
        return x == v and x not in (float("inf"), -float("inf"))     # python compares int with float exactly
    return False


def alphabet(dt, special=False, big=False, edge=False):
    k = kind(dt)
    if k == "i":
        vals = INT_ALPHA + (INT_BIG if big else []) + (INT_EDGE if edge else [])
        return [v for v in vals if fits(v, dt)]
    if k == "f":
        return [fbits(v, dt) for v in FLT_ALPHA + (FLT_SPECIAL if special else [])] + \
            ([fbits(v, dt) for v in FLT_EDGE if representable(v, dt)] if edge else [])
    w = int(dt[1:])
    out = [[ord(c) for c in s] for s in STR_ALPHA if len(s) <= w]
    if special and w >= 2:
        out.append([97, 0])      # 'a\0': numpy stores 'a'
    return out


# ------------------------------------------------------------------------------------------
# views: a descriptor -> numpy index object; the Lean side only sees the flat positions taken
# ------------------------------------------------------------------------------------------

def make_view(desc):
    if desc is None:
        return None
    t = desc[0]
    if t == "slice":
        return slice(desc[1], desc[2], desc[3])
    if t == "idx":
        return np.array(desc[1], dtype=int)
    if t == "list":
        return list(desc[1])
    if t == "bool":
        return np.array(desc[1], dtype=bool)
    if t == "int":
        return desc[1]
    if t == "tuple":
        return tuple(make_view(x) if x is not None else slice(None) for x in desc[1])
    raise ValueError(desc)


def view_positions(shape, desc):
    n = int(np.prod(shape)) if len(shape) else 1
    base = np.arange(n).reshape(shape)
    if desc is None:
        return None, tuple(shape)
    out = base[make_view(desc)]
    return [int(i) for i in np.ravel(out)], np.shape(out)


def views_1d(n, rng=None, exhaustive=False):
    vs = [None, ["slice", None, None, -1], ["slice", 1, None, 2], ["slice", 0, 0, None], ["tuple", [["slice", None, n - 1 if n else 0, None]]]]
    if n:
        vs += [["idx", [n - 1, 0, n - 1]], ["list", list(range(n))[::-1]], ["bool", [(i % 2 == 0) for i in range(n)]], ["int", n - 1], ["int", -1],
               ["idx", []], ["bool", [False] * n]]
    return vs


def random_view(rng, shape):
    n = int(np.prod(shape))
    if len(shape) == 1:
        if rng.random() < 0.45:
            return None
        c = rng.randrange(6)
        if c == 0:
            return ["slice", rng.choice([None, 0, 1, -2]), rng.choice([None, n, -1, 2]), rng.choice([None, 1, 2, -1, -2])]
        if c == 1:
            return ["idx", [rng.randrange(-n, n) for _ in range(rng.randint(0, n + 1))]] if n else ["idx", []]
        if c == 2:
            return ["bool", [rng.random() < 0.5 for _ in range(n)]]
        if c == 3 and n:
            return ["int", rng.randrange(-n, n)]
        if c == 4:
            return ["tuple", [["slice", rng.choice([None, 1]), None, rng.choice([None, 2])]]]
        return ["list", [rng.randrange(n) for _ in range(rng.randint(1, 3))]] if n else None
    # 2-d
    c = rng.randrange(6)
    a, b = shape
    if c == 0:
        return None
    if c == 1:
        return ["tuple", [["slice", None, None, rng.choice([1, -1])], ["int", rng.randrange(b)]]]
    if c == 2:
        return ["tuple", [["int", rng.randrange(a)], ["int", rng.randrange(-b, b)]]]
    if c == 3:
        return ["tuple", [["int", rng.randrange(a)]]]
    if c == 4:
        return ["bool", [[rng.random() < 0.5 for _ in range(b)] for _ in range(a)]]
    return ["tuple", [["idx", [rng.randrange(a) for _ in range(2)]], ["idx", [rng.randrange(b) for _ in range(2)]]]]


# ------------------------------------------------------------------------------------------
# the selection: evaluable on a given set of datasets only
# ------------------------------------------------------------------------------------------

class TableState(SubsetState):
    """A selection defined by an explicit mask on some datasets; incompatible with all others."""

    def __init__(self, table):
        super().__init__()
        self.table = table

    def to_mask(self, data, view=None):
        m = self.table.get(id(data))
        if m is None:
            raise IncompatibleAttribute()
        return m if view is None else m[view]

    def copy(self):
        return TableState(self.table)


# case layout (JSON-able lists):
#   [datasets, ops, [d, view_desc], skind]
#   datasets[i] = [dts, shape, rows, own]          rows: flat row-major list of rows of stored items
#   ops[k]      = ["join", a, b, ca, cb, how] | ["unjoin", a, b]      how in {"key","name","link"}
#   skind       = "table" | "ineq" | "elem"        (ineq/elem need exactly one evaluator)

def build(case):
    dsets, ops, _q, skind = case
    datas = []
    for i, (dts, shape, rows, own) in enumerate(dsets):
        d = Data(label="d%d" % i)
        for k, dt in enumerate(dts):
            arr = column_array(dt, [r[k] for r in rows]).reshape(tuple(shape))
            d.add_component(arr, "c%d" % k)
        datas.append(d)
    cid = lambda i, k: datas[i].id["c%d" % k]  # noqa: E731
    dc = None
    links = {}
    for op in ops:
        if op[0] == "join":
            _, a, b, ca, cb, how = op
            if how == "link":
                if dc is None:
                    dc = DataCollection(datas)
                l = JoinLink(cids1=[cid(a, ca[0])], cids2=[cid(b, cb[0])], data1=datas[a], data2=datas[b])
                dc.add_link(l)
                links[(a, b)] = l
            elif how == "name":
                x = "c%d" % ca[0] if len(ca) == 1 else tuple("c%d" % k for k in ca)
                y = "c%d" % cb[0] if len(cb) == 1 else tuple("c%d" % k for k in cb)
                datas[a].join_on_key(datas[b], x, y)
            else:
                x = cid(a, ca[0]) if len(ca) == 1 else tuple(cid(a, k) for k in ca)
                y = cid(b, cb[0]) if len(cb) == 1 else tuple(cid(b, k) for k in cb)
                datas[a].join_on_key(datas[b], x, y)
        else:
            _, a, b = op
            dc.remove_link(links.pop((a, b)))
    evaluators = [i for i, ds in enumerate(dsets) if ds[3] is not None]
    if skind in ("ineq", "elem") and len(evaluators) == 1:
        e = evaluators[0]
        m = np.array(dsets[e][3], dtype=bool).reshape(tuple(dsets[e][1]))
        if skind == "ineq":
            datas[e].add_component(m.astype(float), "sel")
            state = datas[e].id["sel"] > 0.5
        else:
            state = ElementSubsetState(indices=np.flatnonzero(m), data=datas[e])
    else:
        table = {}
        for e in evaluators:
            table[id(datas[e])] = np.array(dsets[e][3], dtype=bool).reshape(tuple(dsets[e][1]))
        state = TableState(table)
    return datas, dc, links, state


def run_case(case):
    datas, dc, links, state = build(case)
    d, vdesc = case[2]
    shape = case[0][d][1]
    _idx, vshape = view_positions(shape, vdesc)
    try:
        out = datas[d].get_mask(state, view=make_view(vdesc))
    except IncompatibleAttribute:
        out = None
    # the flags must all be cleared again, whatever happened
    stuck = [i for i, x in enumerate(datas) if getattr(x, "_recursing", False)]
    if stuck:
        return ["recursing-flag-left-set", stuck]
    if out is None:
        return "incompatible"
    out = np.asarray(out)
    if out.dtype != bool or tuple(out.shape) != tuple(vshape):
        return ["bad-shape", list(out.shape), str(out.dtype)]
    return ["mask", [bool(x) for x in out.ravel()]]


def lean_line(case, pyout):
    dsets, ops, (d, vdesc), _ = case
    L = []
    for dts, shape, rows, own in dsets:
        L.append(["ds", list(dts), [list(r) for r in rows], own])
    O = []
    for op in ops:
        O.append(["join", op[1], op[2], list(op[3]), list(op[4])] if op[0] == "join" else ["unjoin", op[1], op[2]])
    idx, _ = view_positions(dsets[d][1], vdesc)
    return sx(["g", [L, O, [d, idx]], pyout])


def shape_tag(ca, cb):
    if len(ca) == 1 and len(cb) == 1:
        return "11"
    if len(ca) == len(cb):
        return "nn"
    return "1n" if len(ca) == 1 else "n1"


def compared_columns(ca, cb):
    """the (left column, right column) pairs whose items a join of this shape compares"""
    if len(ca) == len(cb):
        return list(zip(ca, cb))
    return [(x, y) for x in ca for y in cb]      # 1-n / n-1: the single key against every key


def inexact_pairing(case):
    """Signature of F-C11d: some join compares an integer column holding a value that float64
    cannot represent with a floating-point column (numpy promotes the pair to float64)."""
    dsets, ops = case[0], case[1]
    live = {}
    for op in ops:
        if op[0] == "join":
            live[frozenset((op[1], op[2]))] = op
        else:
            live.pop(frozenset((op[1], op[2])), None)
    for op in live.values():
        _, a, b, ca, cb = op[:5]
        for x, y in compared_columns(ca, cb):
            for (di, ci), (dj, cj) in (((a, x), (b, y)), ((b, y), (a, x))):
                dti, dtj = dsets[di][0][ci], dsets[dj][0][cj]
                if kind(dti) == "i" and kind(dtj) == "f":
                    if any(int(float(r[ci])) != r[ci] for r in dsets[di][2]):
                        return True
    return False


class GraphFamily(Family):
    """Common machinery; subclasses provide `cases`."""
    batch = 400
    case_timeout = 20.0
    # failures that carry the signature of a listed known finding do not stop the family early
    known_findings_uncounted = True

    def run_impl(self, case):
        return run_case(case)

    def line(self, case, pyout):
        return lean_line(case, pyout)

    def nontrivial(self, case, po):
        return isinstance(po, list) and po[0] == "mask" and case[0][case[2][0]][3] is None and "T" in po[1]

    def signature(self, case, pyout, res):
        dsets, ops, (d, vdesc), skind = case
        shapes = sorted({shape_tag(op[3], op[4]) for op in ops if op[0] == "join"})
        kinds = set()
        widths_differ = False
        special = False
        for op in ops:
            if op[0] != "join":
                continue
            for ka, kb in zip(op[3], op[4]) if len(op[3]) == len(op[4]) else []:
                da, db = dsets[op[1]][0][ka], dsets[op[2]][0][kb]
                kinds.add(kind(da) + kind(db))
                if da != db:
                    widths_differ = True
        for dts, shape, rows, own in dsets:
            for k, dt in enumerate(dts):
                if kind(dt) == "f":
                    for r in rows:
                        x = column_array(dt, [r[k]])[0]
                        if x != x or (x == 0 and np.signbit(x)):
                            special = True
        # coarse on purpose: failures are grouped (and each group shrunk) by this signature
        return {"int64_float_inexact": inexact_pairing(case), "nn": "nn" in shapes, "self_join": any(op[0] == "join" and op[1] == op[2] for op in ops),
                "paired_dtypes_differ": widths_differ, "float_special": special,
                "py": pyout if isinstance(pyout, str) else pyout[0]}

    def shrink(self, case):
        dsets, ops, (d, vdesc), skind = case
        if vdesc is not None:
            yield [dsets, ops, [d, None], skind]
        if skind != "table":
            yield [dsets, ops, [d, vdesc], "table"]
        for k in range(len(ops)):
            if ops[k][0] == "join" and not any(o[0] == "unjoin" and (o[1], o[2]) == (ops[k][1], ops[k][2]) for o in ops):
                yield [dsets, ops[:k] + ops[k + 1:], [d, vdesc], skind]
            if ops[k][0] == "unjoin":
                yield [dsets, ops[:k] + ops[k + 1:], [d, vdesc], skind]
            if ops[k][0] == "join" and ops[k][5] != "key" and not any(o[0] == "unjoin" for o in ops):
                yield [dsets, ops[:k] + [ops[k][:5] + ["key"]] + ops[k + 1:], [d, vdesc], skind]
        # drop the last row of a 1-d dataset (when no view depends on it)
        if vdesc is None:
            for i, (dts, shape, rows, own) in enumerate(dsets):
                if len(shape) == 1 and shape[0] > 0:
                    for r in range(shape[0]):
                        nr = rows[:r] + rows[r + 1:]
                        no = None if own is None else own[:r] + own[r + 1:]
                        yield [dsets[:i] + [[dts, [shape[0] - 1], nr, no]] + dsets[i + 1:], ops, [d, None], skind]
        # deselect
        for i, (dts, shape, rows, own) in enumerate(dsets):
            if own is not None and any(own):
                for r in range(len(own)):
                    if own[r]:
                        yield [dsets[:i] + [[dts, shape, rows, own[:r] + [False] + own[r + 1:]]] + dsets[i + 1:], ops, [d, vdesc], skind]


# ------------------------------------------------------------------------------------------
# L0 families: numpy promotion / casting / bytes / equality
# ------------------------------------------------------------------------------------------

def _l0_pairs():
    num = INT_DT + FLT_DT
    for a in num:
        for b in num:
            yield a, b
    for a in STR_DT:
        for b in STR_DT:
            yield a, b


class CastV(Family):
    """L0: np.result_type + astype + item bytes against the model's common/cast/enc."""
    name = "castv"
    exhaustive = True
    batch = 2000

    def cases(self, tier, rng):
        for a, b in _l0_pairs():
            for c in alphabet(a, special=True, big=True, edge=True):
                yield [a, b, c]

    def run_impl(self, case):
        a, b, c = case
        dt = np.result_type(np_dtype(a), np_dtype(b))
        arr = column_array(a, [c]).astype(dt)
        name = dt.str.lstrip("<|=")
        if name[0] == "U":
            name = "U%d" % (dt.itemsize // 4)
        return [name, [int(x) for x in arr.tobytes()]]

    def line(self, case, pyout):
        return sx(["castv", case, pyout])

    def nontrivial(self, case, po):
        return case[0] != case[1]


class EqV(Family):
    """L0: numpy's equality of two stored items of (possibly) different dtypes, as `np.isin` and
    `==` compute it, against the model's `veq`; the driver also checks that the (repaired) n-n byte
    test of a single pair agrees with it."""
    name = "eqv"
    exhaustive = True
    batch = 4000

    def cases(self, tier, rng):
        for a, b in _l0_pairs():
            for x in alphabet(a, special=True, big=True, edge=True):
                for y in alphabet(b, special=True, big=True, edge=True):
                    yield [a, x, b, y]

    def run_impl(self, case):
        a, x, b, y = case
        A, B = column_array(a, [x]), column_array(b, [y])
        r1 = bool(np.isin(A, B)[0])
        r2 = bool((A == B)[0])
        r3 = bool(np.isin(np.repeat(A, 40), np.repeat(B, 40))[0])   # the sort-based code path
        if not (r1 == r2 == r3):
            return ["numpy-inconsistent", r1, r2, r3]
        # exact equality of the two stored values: python ints / python floats (int == float is exact
        # in CPython, float32 -> python float is exact), strings by code points; NaN equals nothing
        return [r1, exact_value(a, x) == exact_value(b, y)]

    def line(self, case, pyout):
        return sx(["eqv", case, pyout])

    def nontrivial(self, case, po):
        return isinstance(po, list) and po[0] == "T" and case[0] != case[2]


# ------------------------------------------------------------------------------------------
# two datasets, one join: the four shapes, exhaustive over small tables
# ------------------------------------------------------------------------------------------

# dtype assignments for (left columns, right columns) per shape; the i-th left key column is paired
# with the i-th right one in n-n joins
PAIR_DTYPES = {
    "11": [(["i8"], ["i8"]), (["i4"], ["i8"]), (["u1"], ["i2"]), (["i2"], ["f4"]), (["f4"], ["f8"]), (["i8"], ["f8"]),
           (["U1"], ["U1"]), (["U2"], ["U6"]), (["U3"], ["U1"])],
    "nn": [(["i8", "i8"], ["i8", "i8"]), (["i4", "i4"], ["i8", "i8"]), (["i8", "i2"], ["i1", "i8"]), (["u2", "i4"], ["i2", "u4"]),
           (["f8", "f8"], ["f8", "f8"]), (["f4", "i8"], ["f8", "f4"]), (["i4", "f8"], ["f8", "i1"]),
           (["U1", "U1"], ["U1", "U1"]), (["U3", "U1"], ["U6", "U2"]), (["U2", "i4"], ["U1", "i8"]), (["i2", "U6"], ["f4", "U3"])],
    "1n": [(["i8"], ["i8", "i8"]), (["i4"], ["i8", "i1"]), (["f8"], ["i2", "f4"]), (["U2"], ["U1", "U3"])],
    "n1": [(["i8", "i8"], ["i8"]), (["i2", "u4"], ["i4"]), (["f4", "i8"], ["f8"]), (["U1", "U6"], ["U2"])],
}


def small_alpha(dt):
    k = kind(dt)
    if k == "i":
        return [1, 2]
    if k == "f":
        return [fbits(1.0, dt), fbits(2.0, dt)]
    return [[97], [98]] if dt == "U1" else [[97], [97, 98]]


class Pair(GraphFamily):
    """Two datasets, one join; every table over a 2-letter alphabet with 2 rows each side (1 row for
    the widest shapes), every selection of partner rows, both call directions, asked of the dataset
    that cannot evaluate; then seeded random larger tables with views."""
    name = "pair"
    exhaustive = True
    budget_share = 3.0

    def cases(self, tier, rng):
        for tag, combos in PAIR_DTYPES.items():
            for (ldt, rdt) in combos:
                nl, nr = len(ldt), len(rdt)
                rowsL = [list(r) for r in itertools.product(*[small_alpha(dt) for dt in ldt])]
                rowsR = [list(r) for r in itertools.product(*[small_alpha(dt) for dt in rdt])]
                nrow = 2
                tabsL = list(itertools.product(rowsL, repeat=nrow))
                tabsR = list(itertools.product(rowsR, repeat=nrow))
                k = 0
                for tl in tabsL:
                    for tr in tabsR:
                        for sel in itertools.product([False, True], repeat=nrow):
                            k += 1
                            flip = (k % 2 == 0)
                            how = ("link" if tag == "11" and k % 3 == 0 else ("name" if k % 3 == 1 else "key"))
                            skind = ("ineq", "elem", "table")[k % 3]
                            left = [ldt, [nrow], [list(r) for r in tl], None]
                            right = [rdt, [nrow], [list(r) for r in tr], list(sel)]
                            ca, cb = list(range(nl)), list(range(nr))
                            op = ["join", 1, 0, cb, ca, how] if flip else ["join", 0, 1, ca, cb, how]
                            yield [[left, right], [op], [0, None], skind]
        # random: larger tables, full alphabets, views, both query directions
        n = 5000 if tier == "quick" else 60000
        tags = list(PAIR_DTYPES)
        for it in range(n):
            tag = rng.choice(tags)
            ldt, rdt = rng.choice(PAIR_DTYPES[tag])
            if rng.random() < 0.5:
                ldt, rdt = rdt, ldt
            nL, nR = rng.randint(0, 5), rng.randint(0, 5)
            if it % 25 == 0:
                # long tables with many duplicates: numpy's sort-based isin path
                nL, nR = rng.randint(20, 45), rng.randint(20, 45)
            alpha = make_alpha(rng, big=rng.random() < 0.2) if rng.random() < 0.7 else (lambda dt, _b=(rng.random() < 0.2): alphabet(dt, big=_b))
            rowsL = [[rng.choice(alpha(dt)) for dt in ldt] for _ in range(nL)]
            rowsR = [[rng.choice(alpha(dt)) for dt in rdt] for _ in range(nR)]
            sel = [rng.random() < rng.choice([0.0, 0.5, 0.5, 1.0]) for _ in range(nR)]
            ca, cb = list(range(len(ldt))), list(range(len(rdt)))
            if len(ca) == len(cb) and len(ca) > 1 and rng.random() < 0.3:
                # pair the columns in another order (kinds must still match pairwise)
                perm = list(range(len(ca)))
                rng.shuffle(perm)
                if all(kind(ldt[i]) == "s" and kind(rdt[perm[i]]) == "s" or kind(ldt[i]) != "s" and kind(rdt[perm[i]]) != "s" for i in range(len(ca))):
                    cb = perm
            how = rng.choice(["key", "name"] + (["link"] if len(ca) == 1 and len(cb) == 1 else []))
            op = ["join", 1, 0, cb, ca, how] if rng.random() < 0.5 else ["join", 0, 1, ca, cb, how]
            yield [[[ldt, [nL], rowsL, None], [rdt, [nR], rowsR, sel]], [op], [0, random_view(rng, [nL])], rng.choice(["table", "ineq", "elem"])]

    def describe(self, case):
        return {"left": case[0][0][:3], "right": case[0][1], "op": case[1], "query": case[2], "state": case[3]}


# ------------------------------------------------------------------------------------------
# join graphs: chains, cycles, self-joins, several evaluators, dict order, link removal
# ------------------------------------------------------------------------------------------

EDGE_CENTRES = [2 ** 24, 2 ** 24, 2 ** 31 - 2, 2 ** 32 - 2, 2 ** 53, 2 ** 53, 2 ** 53, 2 ** 54, -(2 ** 53) - 2, 2 ** 60 + 2 ** 7, 1237648720693755904 + 14,
                2 ** 62, 2 ** 63 - 3, -2 ** 63, -(2 ** 24) - 2]


def edge_cluster(rng):
    """a few neighbouring integers around an edge of exact representability: they differ in the low
    bits only, so any lossy promotion (to float32 / float64 / a narrower integer) makes them collide"""
    c = rng.choice(EDGE_CENTRES)
    return [v for v in (c - 1, c, c + 1, c + 2, c + 3) if -2 ** 63 <= v < 2 ** 63]


def make_alpha(rng, special=False, big=False, edge=False):
    """A small per-case alphabet shared by all datasets of the case (so that keys do match):
    3 numbers, 3 strings, plus big integers / special floats / an edge cluster when asked for."""
    nums = rng.sample(INT_ALPHA, 3)
    half = rng.random() < 0.3
    strs = rng.sample(STR_ALPHA, 3)
    bigs = rng.sample(INT_BIG, 2) if big else []
    specials = rng.sample(FLT_SPECIAL, 2) if special else []
    edges = rng.sample(edge_cluster(rng), 3) if edge else []
    if edge and rng.random() < 0.5:
        nums = nums[:1]          # mostly edge values, one small one ("small/large mix")

    def alpha(dt):
        k = kind(dt)
        if k == "i":
            return [v for v in nums + bigs + edges if fits(v, dt)] or [0]
        if k == "f":
            return [fbits(float(v), dt) for v in nums + [e for e in edges if representable(e, dt)]] + \
                ([fbits(1.5, dt)] if half else []) + [fbits(v, dt) for v in specials]
        w = int(dt[1:])
        out = [[ord(c) for c in x] for x in strs if len(x) <= w] or [[]]
        if special and w >= 2:
            out.append([97, 0])
        return out
    return alpha


def random_dataset(rng, alpha, nd=False):
    dts = [rng.choice(INT_DT + FLT_DT), rng.choice(INT_DT + ["i8", "i8"] + FLT_DT), rng.choice(STR_DT)]
    if nd and rng.random() < 0.3:
        shape = rng.choice([[2, 2], [2, 3], [1, 2]])
    else:
        shape = [rng.choice([0, 1, 2, 3, 3, 4, 5])]
    n = int(np.prod(shape))
    rows = [[rng.choice(alpha(dt)) for dt in dts] for _ in range(n)]
    return [dts, shape, rows, None]


def random_join(rng, a, b, dsets):
    """a join between datasets a and b over kind-compatible columns (columns 0,1 numeric, 2 string)"""
    c = rng.randrange(8)
    num = [0, 1]
    if c <= 2:
        if rng.random() < 0.25:
            ca, cb = [2], [2]
        else:
            ca, cb = [rng.choice(num)], [rng.choice(num)]
    elif c == 3:
        ca, cb = [0, 1], rng.choice([[0, 1], [1, 0]])
    elif c == 4:
        ca, cb = rng.choice([[0, 2], [2, 1], [1, 0, 2]]), None
        cb = [x if x == 2 else rng.choice(num) for x in ca]
        if len(cb) == 3:
            cb = [1, 0, 2] if rng.random() < 0.5 else [0, 1, 2]
    elif c == 5:
        ca, cb = [rng.choice(num)], rng.choice([[0, 1], [1, 0], [0, 0]])
    elif c == 6:
        ca, cb = rng.choice([[0, 1], [1, 0], [1, 1]]), [rng.choice(num)]
    else:
        ca, cb = [0, 1, 2], [1, 0, 2]
    if a == b and len(ca) == len(cb) == 1:
        how = "key"
    else:
        how = rng.choice(["key", "name"])
    return ["join", a, b, ca, cb, how]


def topologies(n):
    pairs = [(i, j) for i in range(n) for j in range(i + 1, n)]
    return pairs


class Graph(GraphFamily):
    """Join graphs over up to 4 datasets.
    Exhaustive part: 3 datasets with fixed 1-1 key columns — every set of joins (including
    self-joins on dataset 0), two creation orders, every set of evaluators, every queried dataset.
    Random part: chains, cycles, stars, arbitrary graphs over 2-4 datasets with all four shapes,
    mixed dtypes, 2-d data, views, JoinLink add/remove, re-joins that overwrite an entry."""
    name = "graph"
    exhaustive = True
    budget_share = 4.0

    def cases(self, tier, rng):
        # ---- exhaustive: 3 datasets, keys chosen so that every propagation step is informative
        keys = [[1, 2, 3], [2, 3, 4], [3, 4, 1]]
        owns = [[True, False, False], [False, True, False], [True, True, False]]
        edges = [(0, 1), (1, 2), (0, 2), (0, 0)]
        for present in itertools.product([False, True], repeat=len(edges)):
            es = [e for e, p in zip(edges, present) if p]
            orders = [es, es[::-1]] if len(es) > 1 else [es]
            if tier == "thorough" and len(es) > 2:
                orders = [list(p) for p in itertools.permutations(es)]
            for order in orders:
                for ev in itertools.product([False, True], repeat=3):
                    dsets = [[["i8", "i8"], [3], [[k, (k * 7) % 5] for k in keys[i]], owns[i] if ev[i] else None] for i in range(3)]
                    ops = [["join", a, b, [0], [1] if a == b else [0], "key"] for a, b in order]
                    for d in range(3):
                        yield [dsets, ops, [d, None], "table"]
        # ---- exhaustive: chains of 4 and the 4-cycle, both directions, one evaluator or none
        for cyc in (False, True):
            for e in (None, 0, 1, 2, 3):
                for rev in (False, True):
                    k4 = [[1, 2, 3, 9], [2, 3, 4, 1], [3, 4, 1, 2], [4, 1, 2, 3]]
                    dsets = [[["i4" if i % 2 else "i8"], [4], [[k] for k in k4[i]], ([True, False, True, False] if e == i else None)] for i in range(4)]
                    es = [(0, 1), (1, 2), (2, 3)] + ([(3, 0)] if cyc else [])
                    if rev:
                        es = [(b, a) for a, b in es[::-1]]
                    ops = [["join", a, b, [0], [0], "key"] for a, b in es]
                    for d in range(4):
                        yield [dsets, ops, [d, None], "ineq" if e is not None else "table"]
        # ---- random
        n = 8000 if tier == "quick" else 90000
        for _ in range(n):
            yield self.random_case(rng)

    def random_case(self, rng, special=False, edge=False):
        nds = rng.choice([1, 2, 3, 3, 4, 4])
        alpha = make_alpha(rng, special=special, big=rng.random() < 0.15, edge=edge)
        dsets = [random_dataset(rng, alpha, nd=True) for _ in range(nds)]
        pairs = topologies(nds)
        topo = rng.choice(["chain", "cycle", "star", "random", "random"])
        if topo == "chain":
            es = [(i, i + 1) for i in range(nds - 1)]
        elif topo == "cycle":
            es = [(i, (i + 1) % nds) for i in range(nds)] if nds > 2 else list(pairs)
        elif topo == "star":
            es = [(0, i) for i in range(1, nds)]
        else:
            es = [p for p in pairs if rng.random() < 0.6]
        es = [(a, b) if rng.random() < 0.5 else (b, a) for a, b in es]
        if rng.random() < 0.25:
            s = rng.randrange(nds)
            es.append((s, s))
        rng.shuffle(es)
        ops = [random_join(rng, a, b, dsets) for a, b in es]
        # JoinLinks through a DataCollection, one of them possibly removed again
        linkable = [k for k, op in enumerate(ops) if len(op[3]) == 1 and len(op[4]) == 1 and op[1] != op[2]]
        if linkable and rng.random() < 0.35:
            for k in linkable:
                if rng.random() < 0.6:
                    ops[k][5] = "link"
            linked = [k for k in linkable if ops[k][5] == "link"]
            if linked and rng.random() < 0.5:
                k = rng.choice(linked)
                pos = rng.randint(k + 1, len(ops))
                ops.insert(pos, ["unjoin", ops[k][1], ops[k][2]])
        elif ops and rng.random() < 0.3:
            # join the same pair again with other columns: the dict entry is overwritten in place
            k = rng.randrange(len(ops))
            a, b = ops[k][1], ops[k][2]
            if a != b:
                a, b = (a, b) if rng.random() < 0.5 else (b, a)
            ops.append(random_join(rng, a, b, dsets))
        # evaluators
        r = rng.random()
        if r < 0.12:
            ev = []
        elif r < 0.7:
            ev = [rng.randrange(nds)]
        else:
            ev = [i for i in range(nds) if rng.random() < 0.5]
        for i in ev:
            nrow = int(np.prod(dsets[i][1]))
            p = rng.choice([0.0, 0.5, 0.5, 0.5, 0.5, 1.0])
            dsets[i][3] = [rng.random() < p for _ in range(nrow)]
        d = rng.randrange(nds)
        others = [i for i in range(nds) if i not in ev]
        if others and rng.random() < 0.85:
            d = rng.choice(others)
        skind = rng.choice(["table", "ineq", "elem"]) if len(ev) == 1 else "table"
        return [dsets, ops, [d, random_view(rng, dsets[d][1])], skind]


class Special(Graph):
    """The special-value stratum, reported separately: -0.0 / NaN / infinities in float key columns,
    strings with embedded or trailing NULs, in all four shapes (random graphs as in `graph`)."""
    name = "special"
    exhaustive = False
    budget_share = 2.0

    def cases(self, tier, rng):
        z, nz, nan, one = fbits(0.0, "f8"), fbits(-0.0, "f8"), fbits(float("nan"), "f8"), fbits(1.0, "f8")
        z4, nz4, nan4 = fbits(0.0, "f4"), fbits(-0.0, "f4"), fbits(float("nan"), "f4")
        # hand-written core: every shape x {same dtype, mixed dtype} on +-0 / NaN rows
        L = [[z, one], [nz, one], [nan, one], [one, one]]
        for tag, ca, cb in (("11", [0], [0]), ("nn", [0, 1], [0, 1]), ("1n", [0], [0, 1]), ("n1", [0, 1], [0])):
            for rdt, R in ((["f8", "f8"], [[nz, one], [nan, one], [z, z]]), (["f4", "f4"], [[nz4, fbits(1.0, "f4")], [nan4, fbits(1.0, "f4")], [z4, z4]]),
                           (["i8", "i8"], [[0, 1], [1, 1], [0, 0]])):
                for sel in itertools.product([False, True], repeat=3):
                    left = [["f8", "f8"], [4], L, None]
                    right = [rdt, [3], R, list(sel)]
                    yield [[left, right], [["join", 0, 1, ca, cb, "key"]], [0, None], "table"]
                    yield [[right[:3] + [None], left[:3] + [[True, False, True, True]]], [["join", 0, 1, cb, ca, "key"]], [0, None], "table"]
        # strings: 'a' vs 'a\0' (numpy stores both as 'a'), embedded NUL, empty string
        S = [[[97], [97, 0, 98]], [[97, 0], []], [[], [97]], [[97, 0, 98], [97]]]
        for tag, ca, cb in (("11", [0], [1]), ("nn", [0, 1], [1, 0]), ("1n", [1], [0, 1]), ("n1", [0, 1], [0])):
            for ldt, rdt in ((["U3", "U3"], ["U3", "U3"]), (["U3", "U6"], ["U6", "U3"])):
                for sel in ([True, False, False, False], [False, True, True, False], [True] * 4):
                    yield [[[ldt, [4], S, None], [rdt, [4], S[::-1], sel]], [["join", 0, 1, ca, cb, "key"]], [0, None], "table"]
        n = 2500 if tier == "quick" else 30000
        for _ in range(n):
            yield self.random_case(rng, special=True)



# ------------------------------------------------------------------------------------------
# the edge stratum: key columns of DIFFERENT dtypes inside one dataset x values at the edges of exact
# representability, in all four shapes - any lossy promotion anywhere in the pipeline (across the
# columns of one dataset, to the left dtype, to float32 / float64) merges two keys and flips a mask
# ------------------------------------------------------------------------------------------

# (left columns, right columns); in n-n joins the i-th left column is paired with the i-th right one.
# No integer column wider than 32 bits is ever *compared with* a float column here (that is EDGE_KNOWN).
EDGE_DTYPES = {
    "11": [(["i8"], ["i8"]), (["i4"], ["f4"]), (["u4"], ["f8"]), (["i4"], ["i8"])],
    "nn": [(["i8", "f8"], ["i8", "f8"]), (["i8", "u4"], ["i8", "u4"]), (["i4", "U2"], ["i4", "U2"]), (["f4", "i8"], ["f4", "i8"]),
           (["i8", "f4"], ["i8", "f8"]), (["i8", "i4"], ["i8", "f4"]), (["u4", "f4"], ["i8", "f8"]), (["f8", "i8"], ["f4", "i4"])],
    "1n": [(["i8"], ["i8", "i4"]), (["i4"], ["f4", "i8"]), (["f8"], ["f4", "u4"])],
    "n1": [(["i8", "i4"], ["i8"]), (["f4", "i8"], ["i4"]), (["u4", "f8"], ["f8"])],
}
# known finding F-C11d: an int64 column compared with a float column
EDGE_KNOWN = {
    "11": [(["i8"], ["f8"])],
    "nn": [(["i8", "i8"], ["f8", "i8"])],
    "1n": [(["i8"], ["f8", "i8"])],
    "n1": [(["f4", "i8"], ["i8"])],
}
# two neighbouring values per dtype that a narrower significand cannot tell apart
EDGE_ALPHA = {"i8": [2 ** 53, 2 ** 53 + 1], "i4": [2 ** 24, 2 ** 24 + 1], "u4": [2 ** 32 - 1, 2 ** 32 - 2], "i2": [1, 2],
              "f8": [2.0 ** 53, 2.0 ** 53 + 2], "f4": [2.0 ** 24, 2.0 ** 24 + 2]}


def edge_alpha(dt):
    if kind(dt) == "s":
        return [[97], [97, 98]]
    vals = EDGE_ALPHA[dt]
    return list(vals) if kind(dt) == "i" else [fbits(v, dt) for v in vals]


# column classes for the random part: the dtypes a *pair* of compared columns may have
EDGE_PAIR_CLASSES = [("i8", "i8"), ("i8", "i8"), ("i8", "i4"), ("i8", "u4"), ("i4", "i4"), ("u4", "u4"), ("i4", "u4"), ("i2", "i8"),
                     ("f8", "f8"), ("f4", "f8"), ("f4", "f4"), ("i4", "f4"), ("i4", "f8"), ("u4", "f4"), ("u4", "f8"), ("i2", "f4"),
                     ("U2", "U2"), ("U1", "U3")]
EDGE_KNOWN_CLASSES = [("i8", "f8"), ("i8", "f4")]


class Edge(Graph):
    """Mixed dtypes inside one dataset x values at the edges of exact representability.
    Exhaustive core: per shape and dtype assignment every 2-row table over a 2-letter edge alphabet
    (2**53 / 2**53+1 in int64, 2**24 / 2**24+1 in int32, 2**32-1 / 2**32-2 in uint32, 2.0**53 / 2.0**53+2,
    2.0**24 / 2.0**24+2) on both sides x every selection, both call directions.
    Random: 2-3 key columns of different dtypes per dataset, values from a cluster of neighbouring
    integers around an edge plus small values, all four shapes, views; join graphs with edge alphabets.
    A small sub-stratum (EDGE_KNOWN) compares int64 with float columns: known finding F-C11d."""
    name = "edge"
    exhaustive = True
    budget_share = 3.0

    def core(self, table):
        for tag, combos in table.items():
            for (ldt, rdt) in combos:
                nl, nr = len(ldt), len(rdt)
                rowsL = [list(r) for r in itertools.product(*[edge_alpha(dt) for dt in ldt])]
                rowsR = [list(r) for r in itertools.product(*[edge_alpha(dt) for dt in rdt])]
                k = 0
                for tl in itertools.product(rowsL, repeat=2):
                    for tr in itertools.product(rowsR, repeat=2):
                        for sel in ([True, False], [False, True], [True, True]):
                            k += 1
                            how = "name" if k % 3 == 1 else "key"
                            skind = ("ineq", "elem", "table")[k % 3]
                            left = [ldt, [2], [list(r) for r in tl], None]
                            right = [rdt, [2], [list(r) for r in tr], list(sel)]
                            ca, cb = list(range(nl)), list(range(nr))
                            op = ["join", 1, 0, cb, ca, how] if k % 2 == 0 else ["join", 0, 1, ca, cb, how]
                            yield [[left, right], [op], [0, None], skind]

    def random_pair(self, rng, known=False):
        tag = rng.choice(["nn", "nn", "nn", "11", "1n", "n1"])
        ncol = rng.choice([2, 2, 3])
        pool = [v for v in edge_cluster(rng)]
        small = rng.sample([0, 1, 2, 3, -1], 2)

        def values(dt, n):
            if kind(dt) == "s":
                al = [[97], [98], [97, 98]][:2 + (int(dt[1:]) > 1)]
            elif kind(dt) == "i":
                al = [v for v in pool + small if fits(v, dt)]
            else:
                al = [fbits(float(v), dt) for v in pool + small if representable(v, dt)]
            return [rng.choice(al) for _ in range(n)]
        nL, nR = rng.randint(1, 5), rng.randint(1, 5)
        if tag == "nn":
            for _ in range(20):
                classes = [rng.choice(EDGE_PAIR_CLASSES) for _ in range(ncol)]
                if known:
                    classes[rng.randrange(ncol)] = rng.choice(EDGE_KNOWN_CLASSES)
                classes = [c if rng.random() < 0.5 else c[::-1] for c in classes]
                ldt, rdt = [c[0] for c in classes], [c[1] for c in classes]
                if len(set(ldt)) > 1 or len(set(rdt)) > 1:      # different dtypes inside a dataset
                    break
        else:
            # one key against 1-3 keys of different dtypes (numbers)
            for _ in range(50):
                single = rng.choice(["i8", "i4", "u4", "f8", "f4"])
                many = [rng.choice(["i8", "i8", "i4", "u4", "f8", "f4", "i2"]) for _ in range(1 if tag == "11" else ncol)]
                bad = any((single, m) in EDGE_KNOWN_CLASSES or (m, single) in EDGE_KNOWN_CLASSES for m in many)
                if bad == known and (tag == "11" or len(set(many)) > 1):
                    break
            ldt, rdt = ([single], many) if tag in ("11", "1n") else (many, [single])
        rowsL = [list(r) for r in zip(*[values(dt, nL) for dt in ldt])]
        rowsR = [list(r) for r in zip(*[values(dt, nR) for dt in rdt])]
        sel = [rng.random() < rng.choice([0.5, 0.5, 1.0]) for _ in range(nR)]
        ca, cb = list(range(len(ldt))), list(range(len(rdt)))
        how = rng.choice(["key", "name"] + (["link"] if len(ca) == 1 and len(cb) == 1 else []))
        op = ["join", 1, 0, cb, ca, how] if rng.random() < 0.5 else ["join", 0, 1, ca, cb, how]
        view = random_view(rng, [nL]) if rng.random() < 0.4 else None
        return [[[ldt, [nL], rowsL, None], [rdt, [nR], rowsR, sel]], [op], [0, view], rng.choice(["table", "ineq", "elem"])]

    def cases(self, tier, rng):
        yield from self.core(EDGE_DTYPES)
        yield from self.core(EDGE_KNOWN)
        n = 3000 if tier == "quick" else 40000
        for it in range(n):
            r = it % 20
            if r < 13:
                yield self.random_pair(rng)
            elif r == 13:
                yield self.random_pair(rng, known=True)
            else:
                # join graphs (chains, cycles, all shapes, 2-d data, views) over edge alphabets; a graph
                # that compares an unrepresentable int64 with a float column (F-C11d) is mostly redrawn
                case = self.random_case(rng, edge=True)
                if inexact_pairing(case) and rng.random() < 0.8:
                    case = self.random_case(rng, edge=True)
                    if inexact_pairing(case):
                        case = self.random_case(rng)
                yield case

    def describe(self, case):
        return {"datasets": [d[:3] for d in case[0]], "own": [d[3] for d in case[0]], "ops": case[1], "query": case[2], "state": case[3]}


PROP = Property(
    id="C11",
    title="Key joins propagate selections by key membership, in all four join shapes",
    theorems=["C11.join_terminates", "C11.join_terminates_flags", "C11.join_first_path", "C11.join_incompatible_iff", "C11.paths_iff_joinPath",
              "C11.join_1_1", "C11.join_1_n", "C11.join_n_1", "C11.join_n_n", "C11.enc_injective", "C11.stripZ_injective",
              "C11.bytes_eq_iff_tuple_eq", "C11.join_chain", "C11.join_view", "C11.impl_eq_np", "C11.np_eq_spec", "C11.impl_eq_spec",
              "C11.spec_rowMatch_imp_np", "C11.join_correct",
              "C11.nn_dtype_mismatch", "C11.nn_dtype_false_positive", "C11.nn_string_width_mismatch", "C11.nn_float_specials",
              "C11.nn_mixed_columns_exact", "C11.int64_float_promotion"],
    families=[CastV(), EqV(), Pair(), Graph(), Edge(), Special()],
    trusted_base=["numpy promotion (np.result_type), astype, item byte layout and == / np.isin are modelled (L0) and validated exhaustively on the generated alphabets by the castv / eqv families",
                  "a view is represented on the Lean side by the flat positions numpy takes for it (np.arange(n).reshape(shape)[view])"],
    assumptions=["numpy behaves as its L0 model (common / cast incl. round-to-nearest-even int64->float64 / enc / veq) on the explored dtypes: i1-i8, u1-u4, f4, f8, U1-U6; no float16, bool, uint64, datetime or object keys; a string key column is never paired with a numeric one",
                 "exact equality by value (veqX) = numpy's promoted comparison restricted to value-preserving promotions; validated against exact python int / float comparison by eqv on the edge alphabets"],
    rule="L0: every (dtype, dtype, item) over the alphabets; pair: every 2-row table over a 2-letter alphabet per shape and dtype assignment x every selection, then seeded random tables with views; graph: every join set / creation order / evaluator set / queried dataset on 3 datasets, 4-chains and 4-cycles both directions, then seeded random graphs (all shapes, mixed dtypes, 2-d data, views, JoinLink add/remove, overwritten joins, self-joins); edge: key columns of different dtypes inside one dataset x values at the edges of exact representability (2**24+-, 2**32-, 2**53+-, 2**63-, small/large mix) - every 2-row table over a 2-letter edge alphabet per shape and dtype assignment, then seeded random mixed-dtype tables and join graphs; special: -0.0 / NaN / inf / NUL strings. non-trivial = the queried dataset cannot evaluate the selection itself and at least one of its rows is selected through a join",
)
