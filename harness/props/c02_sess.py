"""C02 session library: builds real glue sessions from small JSON-able descriptors, takes the canonical
snapshot the Lean Spec judges, and runs save -> restore -> save -> restore.

Descriptors (everything is lists / ints / strings so that a case is JSON-able and shrinkable):

  dataset  [label, shape, comps, coords, style, meta]
     comps   list of [kind, name, seed]         kind in f i c t u d p l b (see `add_component`)
     coords  None | "id" | ["aff", k]
     style   None | k          meta  k
  state    tree, see `build_state`     roi  see `build_roi`     pre  see `build_pre`
  link     see `build_link`

Numbers are ints or [num, den] (exact dyadic rationals where possible): the *same* numpy code runs
before and after the round trip, so observables are compared exactly.
"""
import gc
import operator
import os
import shutil
import tempfile
import warnings
from fractions import Fraction

from harness.core import use_repo

use_repo()
import numpy as np  # noqa: E402

warnings.filterwarnings("ignore")

from glue.core import Data, DataCollection, ComponentID, ComponentLink  # noqa: E402
from glue.core import subset as S  # noqa: E402
from glue.core import roi as R  # noqa: E402
from glue.core import link_helpers as LH  # noqa: E402
from glue.core import roi_pretransforms as PT  # noqa: E402
from glue.core.coordinates import IdentityCoordinates, AffineCoordinates  # noqa: E402
from glue.core.exceptions import IncompatibleAttribute  # noqa: E402
from glue.core.parse import ParsedCommand, ParsedComponentLink, ParsedSubsetState  # noqa: E402
from glue.core.state import GlueSerializer, GlueUnSerializer  # noqa: E402
from glue.core.registry import Registry  # noqa: E402
from glue.core.component import Component, CategoricalComponent, DateTimeComponent, DerivedComponent, CoordinateComponent  # noqa: E402
from glue.core.application_base import Application  # noqa: E402


# ---------------------------------------------------------------------------------------------
# importable helper functions used as `using=` of links (the function saver stores module.name)
# ---------------------------------------------------------------------------------------------

def fn_double(x):
    return x * 2


def fn_half(x):
    return x / 2


def fn_sum2(x, y):
    return x + y


def fn_pair_fwd(x, y):
    return x + y, x - y


def fn_pair_bwd(u, v):
    return (u + v) / 2, (u - v) / 2


class HarnessUnknownState(S.SubsetState):
    """A selection class glue knows nothing about (no saver of its own): saving must refuse loudly."""

    def __init__(self, att=None):
        self.att = att

    def to_mask(self, data, view=None):
        return np.ones(data.shape, dtype=bool) if view is None else np.ones(data.shape, dtype=bool)[view]

    def copy(self):
        return HarnessUnknownState(self.att)


FUNCS = {"double": fn_double, "half": fn_half, "sum2": fn_sum2, "pfwd": fn_pair_fwd, "pbwd": fn_pair_bwd,
         "identity": LH.identity, "volume": LH.lengths_to_volume, None: None}


# ---------------------------------------------------------------------------------------------
# numbers / tokens
# ---------------------------------------------------------------------------------------------

def num(x):
    """descriptor number -> python number (ints stay ints, [n, d] -> float n/d)."""
    if x is None:
        return None
    if isinstance(x, (list, tuple)):
        return x[0] / x[1]
    return x


_SAFE = set("abcdefghijklmnopqrstuvwxyzABCDEFGHIJKLMNOPQRSTUVWXYZ0123456789_.-+[]{}<>=!*/@#$%&:;,'|~^?")


def tok(s):
    """arbitrary python string -> atom-safe token (readable when possible)."""
    if s is None:
        return "N"
    if not isinstance(s, str):
        s = repr(s)
    if s and all(c in _SAFE for c in s):
        return "s:" + s
    return "x:" + s.encode("utf-8").hex()


def numtok(v):
    """exact token of one scalar value."""
    if v is None:
        return "N"
    if isinstance(v, (bool, np.bool_)):
        return "T" if v else "F"
    if isinstance(v, (int, np.integer)):
        return "%d" % int(v)
    if isinstance(v, (float, np.floating)):
        f = float(v)
        if f != f:
            return "nan"
        if f in (float("inf"), float("-inf")):
            return "inf" if f > 0 else "-inf"
        fr = Fraction(f)
        return "%d" % fr.numerator if fr.denominator == 1 else "%d/%d" % (fr.numerator, fr.denominator)
    if isinstance(v, (str, np.str_, bytes)):
        return tok(v if isinstance(v, str) else v.decode("latin1"))
    if isinstance(v, np.datetime64):
        return "dt:%s:%d" % (np.datetime_data(v.dtype)[0], int(v.astype("int64")))
    return tok(repr(v))


def arrtok(a):
    """exact canonical form of an array: [kind, shape, values...]."""
    a = np.asarray(a)
    if a.dtype.kind == "M":
        unit = np.datetime_data(a.dtype)[0]
        return ["dt-" + unit, list(a.shape)] + ["%d" % int(x) for x in a.astype("int64").ravel()]
    if a.dtype.kind == "b":
        return ["b", list(a.shape), "m" + "".join("1" if x else "0" for x in a.ravel())]
    if a.dtype.kind in "iu":
        return ["i", list(a.shape)] + ["%d" % int(x) for x in a.ravel()]
    if a.dtype.kind == "f":
        return ["f", list(a.shape)] + [numtok(float(x)) for x in a.ravel()]
    return ["s", list(a.shape)] + [tok(str(x)) for x in a.ravel()]


def masktok(m):
    m = np.asarray(m)
    if m.dtype.kind != "b":
        return ["notbool"] + arrtok(m)
    return "m" + "".join("1" if x else "0" for x in np.broadcast_to(m, m.shape).ravel())


# ---------------------------------------------------------------------------------------------
# deterministic values
# ---------------------------------------------------------------------------------------------

def lcg(seed):
    x = (seed * 2654435761 + 12345) & 0xFFFFFFFF
    while True:
        x = (x * 1103515245 + 12345) & 0x7FFFFFFF
        yield x >> 8


CATS = ["a", "b", "cc", "d e", "st__z", "Z"]
COLORS = ["#010203", "#a0b0c0", "#ff0000", "0.35", "#1f77b4"]
MARKERS = ["o", "s", "^", "*", "+"]


def values(kind, seed, shape):
    n = int(np.prod(shape)) if len(shape) else 1
    g = lcg(seed)
    if kind in ("f", "u"):
        v = np.array([((next(g) % 65) - 32) / 4.0 for _ in range(n)])
        if seed % 5 == 3 and n:
            v[next(g) % n] = np.nan
        if seed % 7 == 5 and n:
            v[next(g) % n] = np.inf
        return v.reshape(shape)
    if kind == "i":
        return np.array([(next(g) % 21) - 10 for _ in range(n)], dtype=np.int64).reshape(shape)
    if kind == "c":
        k = 2 + seed % 4
        return np.array([CATS[next(g) % k] for _ in range(n)]).reshape(shape)
    if kind == "t":
        unit = ["D", "s", "ms"][seed % 3]
        return np.array([next(g) % 20000 for _ in range(n)], dtype="int64").astype("datetime64[%s]" % unit).reshape(shape)
    raise ValueError(kind)


# ---------------------------------------------------------------------------------------------
# world
# ---------------------------------------------------------------------------------------------

class Unbuildable(Exception):
    """The descriptor cannot be built on this tree (constructor refuses): recorded, not a failure."""


class World:
    def __init__(self):
        self.keep = []
        self.data = []
        self.dc = None
        self.used = set()   # class names of every object put into the session
        self.tmp = None

    def use(self, obj):
        self.used.add(type(obj).__name__)
        self.keep.append(obj)
        return obj

    def cid(self, di, name):
        d = self.data[di]
        if isinstance(name, list):  # ["pix", axis] / ["world", axis]
            ids = d.pixel_component_ids if name[0] == "pix" else d.world_component_ids
            if name[1] >= len(ids):
                raise Unbuildable("no axis")
            return ids[name[1]]
        for c in d.components:
            if c.label == name:
                return c
        raise Unbuildable("no component %r" % (name,))


def affine_matrix(k, ndim):
    m = np.identity(ndim + 1)
    g = lcg(k)
    for i in range(ndim):
        m[i, i] = [1.0, 2.0, 0.5, -1.0][next(g) % 4]
        m[i, ndim] = (next(g) % 9) - 4
    if k % 3 == 1 and ndim >= 2:
        m[0, 1] = 0.5
    return m


def make_style(obj, k):
    if k is None:
        return
    g = lcg(k)
    st = obj.style
    st.color = COLORS[next(g) % len(COLORS)]
    st.alpha = [0.25, 0.5, 1.0, 0.125][next(g) % 4]
    st.linewidth = [1, 2.5, 3][next(g) % 3]
    st.linestyle = ["solid", "dashed", "dotted"][next(g) % 3]
    st.marker = MARKERS[next(g) % len(MARKERS)]
    st.markersize = [3, 7, 10][next(g) % 3]


META = [
    {},
    {"a": 1, "b": "text", "c": 2.5},
    {"st__k": "st__v", "n": None, "t": True},
    {"lst": [1, 2, 3], "nested": [[1, 2], [3]], "s": "with space"},
    {"unserialisable": object, "kept": 7},
    {"arr": "see-build", "f": 0.1},
    {1: "intkey", "x": "y"},
]


def make_meta(d, k):
    m = dict(META[k % len(META)])
    if m.get("arr") == "see-build":
        m["arr"] = np.arange(4).reshape((2, 2))
    d.meta.update(m)


def add_component(W, d, di, spec):
    kind, name, seed = spec[0], spec[1], spec[2]
    if kind in ("f", "i", "c", "t"):
        d.add_component(values(kind, seed, d.shape), name)
    elif kind == "C":
        # categorical with an EXPLICIT category list, in every relation to the labels (the seed selects):
        # the order of the list is information of its own — it fixes the codes, and with them every
        # code-based selection — also when the list holds exactly the values that occur
        vals = values("c", seed, d.shape)
        used = sorted(set(vals.ravel().tolist()))
        variant = seed % 7
        if variant == 0:
            cats = used[::-1] + ["unused"]            # unsorted, an unused category at the end
        elif variant == 1:
            cats = ["unused"] + used                  # sorted, an unused category first
        elif variant == 2:
            cats = used[::-1]                         # unsorted, every category occurs
        elif variant == 3:
            cats = used[1:] + used[:1]                # rotated, every category occurs
        elif variant == 4:
            cats = list(used)                         # sorted, every category occurs (= what np.unique derives)
        elif variant == 5:
            cats = used[::-1] + used[:1]              # a category listed twice
        else:
            cats = used[:-1][::-1] if len(used) > 1 else list(used)   # a label that is not in the list (NaN code)
        jitter = "uniform" if (seed // 7) % 3 == 1 else None          # state on the component that is not its values
        units = [None, "m", "kg"][(seed // 21) % 3]
        d.add_component(CategoricalComponent(vals, categories=np.array(cats), jitter=jitter, units=units), name)
    elif kind == "u":
        d.add_component(Component(values("f", seed, d.shape), units=["m", "km", "deg", "s"][seed % 4]), name)
    elif kind == "d":   # derived through ComponentLink arithmetic (BinaryComponentLink)
        nums = [c for c in d.main_components if d.get_component(c).numeric and not d.get_component(c).datetime]
        if not nums:
            d.add_component(values("f", seed, d.shape), name)
            return
        a = nums[seed % len(nums)]
        b = nums[(seed // 3) % len(nums)]
        expr = [a + b, a * 2, a - 1, b / 4, (a + 1) * b, 2 - a, a ** 2][seed % 7]
        d.add_component(expr, name)
    elif kind == "p":   # derived through a parsed expression
        nums = [c for c in d.main_components if d.get_component(c).numeric and not d.get_component(c).datetime]
        if not nums:
            d.add_component(values("f", seed, d.shape), name)
            return
        a = nums[seed % len(nums)]
        b = nums[(seed // 3) % len(nums)]
        cmd = ["{x} + {y}", "{x} * 2 - {y}", "np.abs({x}) + 1", "({x} > 0) * {y}"][seed % 4]
        pc = ParsedCommand(cmd, {"x": a, "y": b})
        d.add_component_link(ParsedComponentLink(ComponentID(name), pc))
    elif kind == "l":   # derived through a ComponentLink with a function
        nums = [c for c in d.main_components if d.get_component(c).numeric and not d.get_component(c).datetime]
        if not nums:
            d.add_component(values("f", seed, d.shape), name)
            return
        a = nums[seed % len(nums)]
        b = nums[(seed // 3) % len(nums)]
        if seed % 2:
            # (no inverse: an inverse would open a second derivation route to `a` once `name` is linked
            #  to another dataset, and which route the link manager takes depends on set order — C03's subject)
            d.add_component_link(ComponentLink([a], ComponentID(name), using=fn_double))
        else:
            d.add_component_link(ComponentLink([a, b], ComponentID(name), using=fn_sum2))
    else:
        raise ValueError(kind)


def build_data(W, di, desc):
    label, shape, comps, coords, style, meta = desc
    if shape and shape[0] == "region":   # a RegionData: [“region”, n] — n boxes, centre components, an ExtendedComponent
        import shapely
        from glue.core.data_region import RegionData
        n = shape[1]
        g = lcg(meta + 7 * n)
        boxes = np.array([shapely.box(i, (next(g) % 5), i + 1 + (next(g) % 3), 6 + (next(g) % 4)) for i in range(n)])
        d = RegionData(label=label, boundary=boxes)
        for spec in comps:
            add_component(W, d, di, spec if spec[0] not in ("d", "p", "l") else ["f", spec[1], spec[2]])
        make_style(d, style)
        make_meta(d, meta)
        for c in d.components:
            W.use(d.get_component(c))
        return W.use(d)
    shape = tuple(shape)
    kw = {}
    if coords == "id":
        kw["coords"] = IdentityCoordinates(n_dim=len(shape))
    elif isinstance(coords, list) and coords[0] == "aff":
        kw["coords"] = AffineCoordinates(affine_matrix(coords[1], len(shape)),
                                         units=["u%d" % i for i in range(len(shape))] if coords[1] % 2 else None,
                                         labels=["w%d" % i for i in range(len(shape))] if coords[1] % 4 < 2 else None)
    d = Data(label=label, **kw)
    if kw:
        W.use(kw["coords"])
    first = True
    for spec in comps:
        if first and spec[0] in ("d", "p", "l"):
            spec = ["f", spec[1], spec[2]]
        if first:
            # the first component fixes the shape
            if spec[0] == "C":
                d.add_component(values("c", spec[2], shape), spec[1])
            else:
                d.add_component(values(spec[0] if spec[0] != "u" else "f", spec[2], shape), spec[1])
            first = False
        else:
            add_component(W, d, di, spec)
    make_style(d, style)
    make_meta(d, meta)
    for c in d.components:
        W.use(d.get_component(c))
    return W.use(d)


# ---------------------------------------------------------------------------------------------
# ROIs, pretransforms, subset states
# ---------------------------------------------------------------------------------------------

PROJ = [np.array([[1.0, 0, 0, 0], [0, 1, 0, 0], [0, 0, 1, 0], [0, 0, 0, 1]]),
        np.array([[0.5, 0.25, 0, 1], [0, 1, 0.5, 0], [0.25, 0, 1, 0], [0, 0, 0, 2]])]


def build_roi(W, r):
    k = r[0]
    a = [num(x) if not isinstance(x, str) else x for x in r[1:]] if k not in ("poly", "path", "vbase", "catr", "proj3") else r[1:]
    if k == "rect":
        out = R.RectangularROI(*a)
    elif k == "xr":
        out = R.XRangeROI(*a)
    elif k == "yr":
        out = R.YRangeROI(*a)
    elif k == "range":
        out = R.RangeROI(*a)
    elif k == "circ":
        out = R.CircularROI(*a)
    elif k == "ann":
        out = R.CircularAnnulusROI(*a)
    elif k == "ell":
        out = R.EllipticalROI(*a)
    elif k in ("poly", "path", "vbase"):
        cls = {"poly": R.PolygonalROI, "path": R.Path, "vbase": R.VertexROIBase}[k]
        if len(a) == 0:
            out = cls()
        else:
            out = cls([num(x) for x in a[0]], [num(x) for x in a[1]])
    elif k == "point":
        out = R.PointROI(*a)
    elif k == "proj3":
        out = R.Projected3dROI(build_roi(W, a[0]), PROJ[a[1] % len(PROJ)])
    elif k == "catr":
        out = R.CategoricalROI(list(a[0]) if len(a) else None)
    elif k == "roi":
        out = R.Roi()
    else:
        raise ValueError(k)
    return W.use(out)


def build_pre(W, p):
    if p is None:
        return None
    k = p[0]
    if k == "proj":
        out = PT.ProjectionMplTransform(p[1], [num(x) for x in p[2]], [num(x) for x in p[3]], p[4], p[5])
    elif k == "rad":
        out = PT.RadianTransform(list(p[1]), build_pre(W, p[2]))
    elif k == "fsl":
        out = PT.FullSphereLongitudeTransform(build_pre(W, p[1]))
    else:
        raise ValueError(k)
    return W.use(out)


OPS = {"gt": operator.gt, "ge": operator.ge, "lt": operator.lt, "le": operator.le, "eq": operator.eq, "ne": operator.ne}


def _pixel_state_cls():
    from glue.viewers.image.pixel_selection_subset_state import PixelSubsetState
    return PixelSubsetState


def build_state(W, s):
    k = s[0]
    if k == "base":
        out = S.SubsetState()
    elif k == "range":
        out = S.RangeSubsetState(num(s[3]), num(s[4]), W.cid(s[1], s[2]))
    elif k == "drange":   # datetime limits
        att = W.cid(s[1], s[2])
        arr = W.data[s[1]].get_component(att).data
        if arr.dtype.kind != "M":
            raise Unbuildable("not datetime")
        unit = np.datetime_data(arr.dtype)[0]
        out = S.RangeSubsetState(np.datetime64(int(s[3]), unit), np.datetime64(int(s[4]), unit), att)
    elif k == "mrange":
        out = S.MultiRangeSubsetState([(num(a), num(b)) for a, b in s[3]], W.cid(s[1], s[2]))
    elif k == "ineq":
        right = s[4]
        if isinstance(right, list) and right and right[0] == "cid":
            right = W.cid(right[1], right[2])
        elif isinstance(right, list) and right and right[0] == "str":
            right = right[1]
        else:
            right = num(right)
        out = S.InequalitySubsetState(W.cid(s[1], s[2]), right, OPS[s[3]])
        if len(s) > 5 and s[5]:   # number on the left
            out = S.InequalitySubsetState(right, W.cid(s[1], s[2]), OPS[s[3]])
    elif k == "roi2":
        out = S.RoiSubsetState(W.cid(s[1], s[2]), W.cid(s[1], s[3]), build_roi(W, s[4]), build_pre(W, s[5] if len(s) > 5 else None))
    elif k == "roind":
        out = S.RoiSubsetStateNd([W.cid(d, c) for d, c in s[1]], build_roi(W, s[2]), build_pre(W, s[3] if len(s) > 3 else None))
    elif k == "roi3":
        out = S.RoiSubsetState3d(W.cid(s[1], s[2]), W.cid(s[1], s[3]), W.cid(s[1], s[4]), build_roi(W, s[5]), build_pre(W, s[6] if len(s) > 6 else None))
    elif k == "catroi":
        out = S.CategoricalROISubsetState(W.cid(s[1], s[2]), build_roi(W, ["catr", s[3]]))
    elif k == "catroi2d":
        cats = {a: (set(b) if s[5] else list(b)) for a, b in s[4]}
        out = S.CategoricalROISubsetState2D(cats, W.cid(s[1], s[2]), W.cid(s[1], s[3]))
    elif k == "catmr":
        ranges = {a: [(num(lo), num(hi)) for lo, hi in b] for a, b in s[4]}
        out = S.CategoricalMultiRangeSubsetState(ranges, W.cid(s[1], s[2]), W.cid(s[1], s[3]))
    elif k in ("and", "or", "xor"):
        cls = {"and": S.AndState, "or": S.OrState, "xor": S.XorState}[k]
        out = cls(build_state(W, s[1]), build_state(W, s[2]))
    elif k == "inv":
        out = S.InvertState(build_state(W, s[1]))
    elif k == "mor":
        out = S.MultiOrState([build_state(W, x) for x in s[1]])
    elif k == "mask":
        d = W.data[s[1]]
        n = int(np.prod(d.shape))
        bits = np.array([(s[2] >> (i % 30)) & 1 for i in range(n)], dtype=bool).reshape(d.shape)
        out = S.MaskSubsetState(bits, d.pixel_component_ids)
    elif k == "flood":
        d = W.data[s[1]]
        start = [c % n for c, n in zip(list(s[3]) + [0] * d.ndim, d.shape)]
        out = S.FloodFillSubsetState(d, W.cid(s[1], s[2]), start, num(s[4]))
    elif k in ("slice", "pixel"):
        d = W.data[s[1]]
        sl = [slice(*x) for x in s[2]][:d.ndim]
        cls = S.SliceSubsetState if k == "slice" else _pixel_state_cls()
        out = cls(d, sl)
    elif k == "cat":
        out = S.CategorySubsetState(W.cid(s[1], s[2]), list(s[3]))
    elif k == "elem":
        d = None if s[1] is None else W.data[s[1]]
        out = S.ElementSubsetState(indices=list(s[2]), data=d)
    elif k == "parsed":
        refs = {t: W.cid(d, c) for t, d, c in s[2]}
        out = ParsedSubsetState(ParsedCommand(s[1], refs))
    elif k == "unknown-subclass":
        out = HarnessUnknownState()
        W.used.add("tag:unknown-subclass")
    else:
        raise ValueError(k)
    return W.use(out)


# ---------------------------------------------------------------------------------------------
# links
# ---------------------------------------------------------------------------------------------

def build_link(W, l):
    k = l[0]
    dc = W.dc
    if k == "clink":
        frm = [W.cid(d, c) for d, c in l[1]]
        to = W.cid(*l[2])
        link = ComponentLink(frm, to, using=FUNCS[l[3]], inverse=FUNCS[l[4]] if len(l) > 4 else None)
        dc.add_link(W.use(link))
    elif k == "clinkp":
        frm = [W.cid(d, c) for d, c in l[1]]
        to = W.cid(*l[2])
        dc.add_link(W.use(ComponentLink(frm, to, using=W.use(LH.PartialResult(fn_pair_fwd, l[3])))))
    elif k == "same":
        dc.add_link(W.use(LH.LinkSame(W.cid(l[1], l[2]), W.cid(l[3], l[4]))))
    elif k == "twoway":
        dc.add_link(W.use(LH.LinkTwoWay(W.cid(l[1], l[2]), W.cid(l[3], l[4]), FUNCS[l[5]], FUNCS[l[6]])))
    elif k == "multi":
        c1 = [W.cid(d, c) for d, c in l[1]]
        c2 = [W.cid(d, c) for d, c in l[2]]
        kw = {}
        if len(l) > 5 and l[5] is not None:
            kw["labels1"] = list(l[5])
        if len(l) > 6 and l[6] is not None:
            kw["labels2"] = list(l[6])
        try:
            dc.add_link(W.use(LH.MultiLink(c1, c2, forwards=FUNCS[l[3]], backwards=FUNCS[l[4]], **kw)))
        except (TypeError, ValueError) as e:
            raise Unbuildable("multi: %s" % type(e).__name__)
    elif k in ("offset", "affine"):
        # the wcs_autolinking helpers: their functions are bound methods computed from parameters
        # (offsets / an affine matrix), which is what their savers store
        from glue.plugins.wcs_autolinking.wcs_autolinking import OffsetLink, AffineLink
        c1 = [W.cid(d, c) for d, c in l[1]]
        c2 = [W.cid(d, c) for d, c in l[2]]
        d1, d2 = W.data[l[1][0][0]], W.data[l[2][0][0]]
        if k == "offset":
            # an array as wcs_autolink's least-squares fit produces (all-int -> int64, else float64); a python
            # list MIXING ints and floats is not generated: the saver stores np.asarray(offsets), so the int
            # entries come back as floats and integer pixel results change dtype (values stay equal)
            link = OffsetLink(data1=d1, data2=d2, cids1=c1, cids2=c2, offsets=np.array([num(x) for x in l[3]]))
        else:
            link = AffineLink(data1=d1, data2=d2, cids1=c1, cids2=c2, matrix=affine_matrix(l[3], len(c1)))
        dc.add_link(W.use(link))
    elif k == "aligned":
        try:
            dc.add_link(W.use(LH.LinkAligned(W.data[l[1]], W.data[l[2]])))
        except TypeError:
            raise Unbuildable("shapes differ")
    elif k == "units":
        try:
            dc.add_link(W.use(LH.LinkSameWithUnits(W.cid(l[1], l[2]), W.cid(l[3], l[4]))))
        except Exception as e:
            raise Unbuildable("units: %s" % type(e).__name__)
    elif k == "join":
        dc.add_link(W.use(LH.JoinLink(cids1=[W.cid(l[1], l[2])], cids2=[W.cid(l[3], l[4])], data1=W.data[l[1]], data2=W.data[l[3]])))
    elif k == "keyjoin":
        W.data[l[1]].join_on_key(W.data[l[3]], W.cid(l[1], l[2]), W.cid(l[3], l[4]))
    elif k == "mkeyjoin":
        W.data[l[1]].join_on_key(W.data[l[3]], tuple(W.cid(l[1], c) for c in l[2]), tuple(W.cid(l[3], c) for c in l[4]))
    elif k == "cel":
        import glue.plugins.coordinate_helpers.link_helpers as CH
        cls = getattr(CH, l[1])
        c1 = [W.cid(d, c) for d, c in l[2]]
        c2 = [W.cid(d, c) for d, c in l[3]]
        dc.add_link(W.use(cls(cids1=c1, cids2=c2, data1=c1[0].parent, data2=c2[0].parent)))
    else:
        raise ValueError(k)


# ---------------------------------------------------------------------------------------------
# building a session
# ---------------------------------------------------------------------------------------------

def build_session(case):
    """case = {"data": [...], "links": [...], "groups": [[state, label|None, style|None], ...],
               "files": optional list of [format, dataset-desc]}"""
    W = World()
    for di, desc in enumerate(case["data"]):
        W.data.append(build_data(W, di, desc))
    # "share": [[user, owner, k, seed], ...] - dataset `user` stores a component under the k-th main
    # ComponentID of dataset `owner` (which may come later in the collection)
    for user, owner, k, seed in case.get("share", []):
        if user != owner and user < len(W.data) and owner < len(W.data):
            du, do = W.data[user], W.data[owner]
            mains = list(do.main_components)
            if mains and mains[k % len(mains)] not in du.components:
                du.add_component(values("f", seed, du.shape), mains[k % len(mains)])
                W.use(du.get_component(mains[k % len(mains)]))
    W.dc = DataCollection(W.data)
    W.keep.append(W.dc)
    for l in case.get("links", []):
        build_link(W, l)
    for g in case.get("groups", []):
        st = build_state(W, g[0])
        kw = {}
        if len(g) > 1 and g[1] is not None:
            kw["label"] = g[1]
        grp = W.dc.new_subset_group(subset_state=st, **kw)
        if len(g) > 2 and g[2] is not None:
            make_style(grp, g[2])
        W.keep.append(grp)
    for d in W.data:
        for cid in d.components:
            comp = d.get_component(cid)
            W.used.add(type(comp).__name__)
            if isinstance(comp, DerivedComponent):
                W.used.add(type(comp.link).__name__)
    return W


# ---------------------------------------------------------------------------------------------
# snapshot
# ---------------------------------------------------------------------------------------------

STYLE_ATTS = ["color", "alpha", "linewidth", "linestyle", "marker", "markersize"]


def style_tok(st):
    out = []
    for a in STYLE_ATTS:
        v = getattr(st, a, None)
        out.append(numtok(v) if not isinstance(v, str) else tok(v))
    return out


def comp_kind(c):
    if isinstance(c, CoordinateComponent):
        return "coord-world" if c.world else "coord-pix"
    if isinstance(c, DerivedComponent):
        return "derived"
    if isinstance(c, CategoricalComponent):
        return "categorical"
    if isinstance(c, DateTimeComponent):
        return "datetime"
    return type(c).__name__


def meta_tok(v):
    if isinstance(v, dict):
        return ["dict"] + sorted([[meta_tok(k), meta_tok(x)] for k, x in v.items()], key=repr)
    if isinstance(v, (list, tuple)):
        return ["list"] + [meta_tok(x) for x in v]
    if isinstance(v, np.ndarray):
        return ["arr"] + arrtok(v)
    if isinstance(v, str):
        return tok(v)
    if v is None or isinstance(v, (bool, int, float, np.generic)):
        return numtok(v)
    return "unserialisable"


def serialisable(v):
    if isinstance(v, dict):
        return all(serialisable(k) and serialisable(x) for k, x in v.items())
    if isinstance(v, (list, tuple)):
        return all(serialisable(x) for x in v)
    return isinstance(v, (np.ndarray, str, bool, int, float, np.generic)) or v is None


def safe_get(d, cid):
    try:
        return arrtok(d[cid])
    except IncompatibleAttribute:
        return "X"
    except Exception as e:
        return "err:" + type(e).__name__


def digest(t):
    import hashlib
    from harness.core import sx
    return "h:" + hashlib.blake2b(sx(t).encode(), digest_size=8).hexdigest()


def _flag(c, attr):
    try:
        return bool(getattr(c, attr, False))
    except Exception as e:      # e.g. Component.numeric looks at data[0]: an empty component has none
        return "err:" + type(e).__name__


def snapshot(dc, full_access=False):
    """Canonical observation of a DataCollection (what C02 says must survive)."""
    datasets = list(dc)
    out = []
    for d in datasets:
        comps = []
        for cid in d.components:
            c = d.get_component(cid)
            row = [tok(cid.label), comp_kind(c), tok(getattr(c, "units", None) or ""), safe_get(d, cid)]
            # state that lives on the component but is not its values
            row.append(["flags"] + [_flag(c, a) for a in ("numeric", "categorical", "datetime")])
            if isinstance(c, CategoricalComponent):
                row.append(["cats"] + [tok(str(x)) for x in np.asarray(c.categories).tolist()])
                codes = np.asarray(c.codes, dtype=float).ravel()
                # `jitter('uniform')` adds fresh random numbers from [-0.5, 0.5) to the codes (also after a restore):
                # the method and the fact that it is applied must survive, the un-jittered codes must be the same
                jm = getattr(c, "jitter_method", None)
                base = np.floor(codes + 0.5)
                row.append(["jitter", tok(jm) if jm is not None else "N",
                            bool(np.any(codes[np.isfinite(codes)] != base[np.isfinite(codes)]))])
                row.append(["codes"] + [numtok(float(x)) for x in (base if jm is not None else codes)])
            comps.append(row)
        coords = "N" if d.coords is None else type(d.coords).__name__
        subsets = []
        for s in d.subsets:
            try:
                m = masktok(s.to_mask())
            except IncompatibleAttribute:
                m = "X"
            except Exception as e:   # an unusable selection (e.g. abstract Roi): must stay unusable the same way
                m = "err:" + type(e).__name__
            subsets.append([tok(s.label), style_tok(s.style), m])
        meta = sorted([[meta_tok(k), meta_tok(v)] for k, v in d.meta.items() if serialisable(k) and serialisable(v)], key=repr)
        joins = []
        for other, (c1, c2) in d._key_joins.items():
            joins.append([datasets.index(other) if other in datasets else "out",
                          [tok(c.label) for c in c1], [tok(c.label) for c in c2]])
        joins.sort(key=repr)
        out.append([["label", tok(d.label)], ["uuid", tok(str(d.uuid))], ["shape"] + list(d.shape), ["comps"] + comps,
                    ["main"] + [tok(c.label) for c in d.main_components],
                    # which dataset of the collection owns each ComponentID (shared ids keep their owner)
                    ["own"] + [(datasets.index(c.parent) if c.parent in datasets else "N") for c in d.main_components],
                    ["derived"] + [tok(c.label) for c in d.derived_components],
                    ["pix"] + [tok(c.label) for c in d.pixel_component_ids],
                    ["world"] + [tok(c.label) for c in d.world_component_ids],
                    ["coords", coords], ["style"] + style_tok(d.style), ["meta"] + meta,
                    ["subsets"] + subsets, ["joins"] + joins])
    # which attribute of which dataset is accessible from which other dataset (and with what values)
    access = []
    for i, d in enumerate(datasets):
        for j, e in enumerate(datasets):
            if i == j:
                continue
            row = []
            for cid in e.components:
                v = safe_get(d, cid)
                row.append(v if (v == "X" or full_access) else digest(v))
            access.append([i, j] + row)
    groups = [[tok(g.label), style_tok(g.style), len(g.subsets)] for g in dc.subset_groups]
    return [["data"] + out, ["access"] + access, ["groups"] + groups, ["sg", dc._sg_count], ["nlinks", len(dc.external_links)],
            ["links"] + [link_tok(l, datasets) for l in dc.external_links]]


def link_tok(l, datasets):
    """what a link helper in dc.external_links is, beyond the values it lets one dataset read from another
    (those are in `access`): class, the datasets and component ids it connects, the human-readable argument
    labels, the number of component links it expands to, and the parameters of the parametrised helpers"""
    def didx(d):
        return "N" if d is None else (datasets.index(d) if d in datasets else "out")

    def cids(cs):
        if cs is None:
            return "N"
        return [[didx(getattr(c, "parent", None)), tok(c.label)] for c in cs]

    def labels(x):
        return "N" if x is None else [tok(str(v)) for v in x]
    row = [type(l).__name__]
    if isinstance(l, LH.LinkCollection):
        row += [["d1", didx(l.data1)], ["d2", didx(l.data2)], ["c1", cids(l.cids1)], ["c2", cids(l.cids2)],
                ["l1", labels(getattr(l, "labels1", None))], ["l2", labels(getattr(l, "labels2", None))]]
        try:
            row.append(["n", len(list(l))])
        except Exception as e:
            row.append(["n", "err:" + type(e).__name__])
        if hasattr(l, "offsets"):
            row.append(["offsets"] + arrtok(np.asarray(l.offsets, dtype=float)))
        if hasattr(l, "_matrix"):
            row.append(["matrix"] + arrtok(np.asarray(l._matrix, dtype=float)))
    else:   # a bare ComponentLink
        row += [["from", cids(l.get_from_ids())], ["to", cids([l.get_to_id()])]]
    return row


# ---------------------------------------------------------------------------------------------
# save / restore
# ---------------------------------------------------------------------------------------------

class SaveRaised(Exception):
    pass


class LoadRaised(Exception):
    pass


def save_dc(dc, include_data=True, via_app=False, tmpdir=None):
    try:
        if via_app:
            app = Application(data_collection=dc)
            path = os.path.join(tmpdir, "s%d.glu" % len(os.listdir(tmpdir)))
            app.save_session(path, include_data=include_data)
            return path
        gs = GlueSerializer(dc, include_data=include_data)
        return gs.dumps()
    except Exception as e:
        raise SaveRaised(type(e).__name__)


def load_dc(text, via_app=False):
    try:
        if via_app:
            app = Application.restore_session(text)
            return app.data_collection, app
        return GlueUnSerializer.loads(text).object("__main__"), None
    except Exception as e:
        if os.environ.get("VERIF_DEBUG"):
            import traceback
            traceback.print_exc()
        raise LoadRaised(type(e).__name__)


def round_trip(W, include_data=True, via_app=False, full_access=False):
    """-> python observable: ["save-error", T] | ["load-error", k, T] | ["ok", before, after, after2]"""
    keep = W.keep
    tmp = None
    if via_app:
        tmp = tempfile.mkdtemp(prefix="c02s")
    try:
        before = snapshot(W.dc, full_access)
        try:
            text = save_dc(W.dc, include_data, via_app, tmp)
        except SaveRaised as e:
            return ["save-error", tok(str(e))]
        try:
            dc1, a1 = load_dc(text, via_app)
        except LoadRaised as e:
            return ["load-error", 1, tok(str(e))]
        keep.extend([dc1, a1])
        after = snapshot(dc1, full_access)
        try:
            text2 = save_dc(dc1, include_data, via_app, tmp)
        except SaveRaised as e:
            return ["resave-error", tok(str(e)), before, after]
        try:
            dc2, a2 = load_dc(text2, via_app)
        except LoadRaised as e:
            return ["load-error", 2, tok(str(e))]
        keep.extend([dc2, a2])
        after2 = snapshot(dc2, full_access)
        return ["ok", before, after, after2]
    finally:
        if tmp is not None:
            shutil.rmtree(tmp, ignore_errors=True)


def reset():
    Registry().clear()


def run_case(case):
    gc.disable()
    try:
        W = build_session(case)
    except Unbuildable as e:
        return ["unbuildable", tok(str(e))], set()
    out = round_trip(W, include_data=case.get("include_data", True), via_app=case.get("via_app", False),
                     full_access=case.get("full_access", False))
    used = set(W.used)
    W.keep.clear()
    return out, used
