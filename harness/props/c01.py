"""C01 — selections form a faithful Boolean algebra over membership masks.

Real glue objects (Data, DataCollection, SubsetGroup, EditSubsetMode, every SubsetState class found
by introspection) run programs of construct / & | ^ ~ / MultiOrState / copy() / to_mask (three call
forms) / edit modes; the Lean driver runs the same program on the heap model (`impl`) and on the
value semantics (`Spec`), and judges the *python* output with the Spec (`ok`).
"""
import ast
import gc
import importlib
import itertools
import operator
import os
import warnings

from harness.core import Family, Property, use_repo, sx, REPO

use_repo()
import numpy as np  # noqa: E402

warnings.filterwarnings("ignore")

from glue.core import Data, DataCollection  # noqa: E402
from glue.core import subset as S  # noqa: E402
from glue.core.subset import SubsetState  # noqa: E402
from glue.core.exceptions import IncompatibleAttribute  # noqa: E402
from glue.core import roi as R  # noqa: E402
from glue.core import edit_subset_mode as EM  # noqa: E402
from glue.core.registry import Registry  # noqa: E402


# ------------------------------------------------------------------------------------------
# class table: every SubsetState subclass defined anywhere in the tree (AST scan -> import)
# ------------------------------------------------------------------------------------------

# class -> model kind (elementary selections)
LEAF_KINDS = {
    "SubsetState": "base", "RoiSubsetStateNd": "roiNd", "RoiSubsetState": "roi2d",
    "RoiSubsetState3d": "roi3d", "CategoricalROISubsetState": "catRoi", "RangeSubsetState": "range",
    "MultiRangeSubsetState": "multiRange", "CategoricalROISubsetState2D": "catRoi2d",
    "CategoricalMultiRangeSubsetState": "catMultiRange", "MaskSubsetState": "mask",
    "FloodFillSubsetState": "floodFill", "SliceSubsetState": "slice", "PixelSubsetState": "pixel",
    "CategorySubsetState": "category", "ElementSubsetState": "element",
    "InequalitySubsetState": "inequality", "ParsedSubsetState": "parsed",
}
COMPOSITES = {"AndState": "and", "OrState": "or", "XorState": "xor", "InvertState": "inv", "MultiOrState": "mor"}
ABSTRACT = {"CompositeSubsetState"}  # op = None: cannot be evaluated, never instantiated by glue

# defining class of the decorated to_mask -> model memo table
MEMO_TABLES = {
    "CompositeSubsetState": "composite", "InvertState": "invert", "MultiOrState": "multiOr",
    "CategoricalROISubsetState": "catRoi", "CategoricalROISubsetState2D": "catRoi2d",
    "CategoricalMultiRangeSubsetState": "catMultiRange", "CategorySubsetState": "category",
    "ElementSubsetState": "element", "InequalitySubsetState": "inequality",
}
TABLE_ORDER = ["composite", "invert", "multiOr", "catRoi", "catRoi2d", "catMultiRange", "category", "element", "inequality"]
FORM_ORDER = {"pos": 0, "kw": 1, "bare": 2}

_SCAN = {}


def scan_subset_classes():
    """Import every non-test module of the tree that defines a (transitive) SubsetState subclass and
    return all subclasses.  New classes cannot silently escape: unknown names make `classes` fail."""
    if "classes" in _SCAN:
        return _SCAN["classes"]
    known = {"SubsetState"}
    defs = []  # (module, classname, base names)
    root = os.path.join(REPO, "glue")
    for dp, dn, fn in os.walk(root):
        if "tests" in dp.split(os.sep):
            continue
        for f in fn:
            if not f.endswith(".py"):
                continue
            path = os.path.join(dp, f)
            try:
                src = open(path, encoding="utf-8").read()
            except OSError:
                continue
            if "SubsetState" not in src and "OrState" not in src and "AndState" not in src:
                continue
            try:
                tree = ast.parse(src)
            except SyntaxError:
                continue
            mod = os.path.relpath(path, REPO)[:-3].replace(os.sep, ".")
            if mod.endswith(".__init__"):
                mod = mod[:-9]
            for node in ast.walk(tree):
                if isinstance(node, ast.ClassDef):
                    bases = [b.id if isinstance(b, ast.Name) else (b.attr if isinstance(b, ast.Attribute) else None) for b in node.bases]
                    defs.append((mod, node.name, bases))
    changed = True
    mods = set()
    while changed:
        changed = False
        for mod, name, bases in defs:
            if name not in known and any(b in known for b in bases):
                known.add(name)
                changed = True
            if name in known:
                mods.add(mod)
    for m in sorted(mods):
        try:
            importlib.import_module(m)
        except Exception:
            pass

    def walk(c):
        for s in c.__subclasses__():
            yield s
            yield from walk(s)
    seen, out = set(), [SubsetState]
    for c in walk(SubsetState):
        if c not in seen and c.__module__.startswith("glue.") and ".tests." not in c.__module__:
            seen.add(c)
            out.append(c)
    _SCAN["classes"] = out
    return out


def memo_cache_of(func):
    return getattr(func, "__memoize_cache", None)


def memo_tables():
    """table name -> the real `__memoize_cache` dict (identified through the class table)."""
    if "tables" in _SCAN:
        return _SCAN["tables"]
    tabs, by_id = {}, {}
    for c in scan_subset_classes():
        cache = memo_cache_of(c.to_mask)
        if cache is None:
            continue
        owner = [k for k in c.__mro__ if "to_mask" in k.__dict__][0]
        name = MEMO_TABLES.get(owner.__name__, "unknown-" + owner.__name__)
        if id(cache) not in by_id:
            by_id[id(cache)] = name
            tabs[name] = cache
    _SCAN["tables"] = tabs
    return tabs


def clear_memo():
    for cache in memo_tables().values():
        cache.clear()


def undecorated(cls):
    f = cls.to_mask
    return getattr(f, "__wrapped__", f) if memo_cache_of(f) is not None else f


# ------------------------------------------------------------------------------------------
# datasets, views, leaves
# ------------------------------------------------------------------------------------------

def make_data(key):
    nan, inf = float("nan"), float("inf")
    if key == "T16":   # truth-table dataset: element i has bits b0..b3 of i
        i = np.arange(16)
        d = Data(b0=(i & 1).astype(float), b1=((i >> 1) & 1).astype(float), b2=((i >> 2) & 1).astype(float),
                 b3=((i >> 3) & 1).astype(float), x=i.astype(float), y=(15 - i).astype(float), z=(i % 3).astype(float),
                 c=np.array(list("abcdabcdabcdabcd")), label="T16")
    elif key == "A6":
        d = Data(x=np.array([1.0, 2.0, 3.0, nan, inf, -inf]), y=np.array([6.0, 5.0, 4.0, 3.0, 2.0, 1.0]),
                 z=np.array([0.0, 1.0, 0.0, 1.0, 2.0, 2.0]),
                 c=np.array(["a", "b", "a", "c", "b", "a"]), c2=np.array(["u", "v", "v", "u", "u", "v"]), label="A6")
    elif key == "A34":
        x = np.arange(12.0).reshape(3, 4)
        x[1, 2] = nan
        from glue.core.coordinates import AffineCoordinates
        d = Data(x=x, y=(np.arange(12.0).reshape(3, 4) % 5), z=(np.arange(12.0).reshape(3, 4) // 3), label="A34",
                 coords=AffineCoordinates(np.array([[2.0, 0, 1], [0, 1.0, 0], [0, 0, 1.0]])))
    elif key == "A232":
        d = Data(x=np.arange(12.0).reshape(2, 3, 2), y=(np.arange(12.0).reshape(2, 3, 2) % 4),
                 z=(np.arange(12.0).reshape(2, 3, 2) % 3), label="A232")
    elif key == "B4":
        d = Data(u=np.array([3.0, 1.0, 2.0, 0.0]), w=np.array([0.0, 1.0, 0.0, 1.0]), label="B4")
    else:
        raise KeyError(key)
    if key != "B4":
        d["s"] = d.id["x"] + d.id["y"]       # derived component
    return d


def view_obj(v):
    """A *fresh* Python object for the view spec (equal specs give equal, not identical, objects)."""
    t = v[0]
    if t == "none":
        return None
    if t == "ell":
        return Ellipsis
    if t == "sl":
        return slice(v[1], v[2], v[3])
    if t == "tup":
        return tuple(x[1] if x[0] == "i" else slice(x[1], x[2], x[3]) for x in v[1:])
    if t == "list":
        return list(v[1:])
    if t == "arr":
        return np.array(v[1:], dtype=int)
    raise KeyError(t)


def view_hashable(v):
    return v[0] not in ("list", "arr")


def view_desc(v):
    t = v[0]
    if t in ("none", "ell"):
        return t
    if t == "sl":
        return ["b", ["s", v[1], v[2], v[3]]]
    if t == "tup":
        return ["b"] + [list(x) for x in v[1:]]
    return ["f", len(v) - 1]


def att(d, name):
    if name.startswith("pix"):
        return d.pixel_component_ids[int(name[3:])]
    if name.startswith("wor"):
        return d.world_component_ids[int(name[3:])]
    return d.id[name]


def make_leaf(spec, datas):
    """spec = [kind, variant, data index] -> a new SubsetState object (deterministic)."""
    kind, var, di = spec
    d = datas[di]
    nd = d.ndim
    tt = d.label == "T16"
    if kind == "base":
        return SubsetState()
    if kind == "roiNd":
        if var == 0:
            return S.RoiSubsetStateNd([att(d, "x"), att(d, "y")], R.RectangularROI(0.5, 7.5, 0.5, 9.5))
        if var == 1 and nd >= 2:   # pixel-space special case
            return S.RoiSubsetStateNd([att(d, "pix1"), att(d, "pix0")], R.RectangularROI(-0.5, 1.5, 0.5, 2.5))
        return S.RoiSubsetStateNd([att(d, "y"), att(d, "z")], R.CircularROI(3.0, 1.0, 2.1))
    if kind == "roi2d":
        roi = [R.RectangularROI(1.5, 8.5, -0.5, 4.5), R.CircularROI(4.0, 3.0, 3.1),
               R.PolygonalROI([0.5, 9.5, 9.5, 0.5], [0.5, 0.5, 3.5, 6.5])][var % 3]
        return S.RoiSubsetState(att(d, "x"), att(d, "y"), roi)
    if kind == "roi3d":
        proj = np.array([[1.0, 0, 0, 0], [0, 1.0, 0, 0], [0, 0, 1.0, 0], [0, 0, 0, 1.0]])
        return S.RoiSubsetState3d(att(d, "x"), att(d, "y"), att(d, "z"),
                                  R.Projected3dROI(R.RectangularROI(0.5, 6.5, 0.5, 5.5), proj))
    if kind == "catRoi":
        return S.CategoricalROISubsetState(att(d, "c"), R.CategoricalROI(["a", "c"] if var % 2 == 0 else ["b"]))
    if kind == "range":
        if tt and var >= 10:
            return S.RangeSubsetState(0.5, 1.5, att(d, "b%d" % (var % 4)))
        a = [("x", 1.5, 3.5), ("s", 6.5, 9.0), ("pix0", 0.5, 2.5), ("z", 0.5, 1.5), ("y", -1.0, 2.5)][var % 5]
        if var == 5:
            a = ("wor1", 1.5, 5.5)    # world coordinate (datasets with coords only)
        return S.RangeSubsetState(a[1], a[2], att(d, a[0]))
    if kind == "multiRange":
        return S.MultiRangeSubsetState([(0.5, 1.5), (2.5, 4.0)] if var % 2 == 0 else [(5.0, 100.0)], att(d, "y"))
    if kind == "catRoi2d":
        return S.CategoricalROISubsetState2D({"a": {"u"}, "b": {"u", "v"}}, att(d, "c"), att(d, "c2"))
    if kind == "catMultiRange":
        return S.CategoricalMultiRangeSubsetState({"a": [(0.0, 2.5), (5.5, 7.0)], "c": [(2.5, 3.5)]}, att(d, "c"), att(d, "y"))
    if kind == "mask":
        if tt and var >= 10:
            return S.MaskSubsetState((np.arange(16) >> (var % 4)) & 1 == 1, d.pixel_component_ids)
        m = (np.arange(d.size).reshape(d.shape) % (2 + var % 3)) == 0
        return S.MaskSubsetState(m, d.pixel_component_ids)
    if kind == "floodFill":
        return S.FloodFillSubsetState(d, att(d, "y"), (0,) * nd, 1.5 + (var % 2))
    if kind in ("slice", "pixel"):
        sl = [slice(1, None)] + [slice(None)] * (nd - 1) if var % 2 == 0 else [slice(0, 2)] + [slice(None, None, 2)] * (nd - 1)
        if kind == "slice":
            return S.SliceSubsetState(d, sl)
        from glue.viewers.image.pixel_selection_subset_state import PixelSubsetState
        return PixelSubsetState(d, sl)
    if kind == "category":
        if tt and var >= 10:
            return S.CategorySubsetState(att(d, "b%d" % (var % 4)), [1])
        return S.CategorySubsetState(att(d, "c"), [0, 2] if var % 2 == 0 else [1])
    if kind == "element":
        if tt and var >= 10:
            return S.ElementSubsetState(indices=[i for i in range(16) if i & (1 << (var % 4))], data=d)
        return S.ElementSubsetState(indices=[0, 2, 3] if var % 2 == 0 else [1], data=d if var % 4 < 2 else None)
    if kind == "inequality":
        if tt and var >= 10:
            return att(d, "b%d" % (var % 4)) > 0.5
        return [att(d, "x") > 2.0, att(d, "y") <= att(d, "x"), att(d, "x") != 3.0, att(d, "s") >= 7.0,
                att(d, "pix0") < 1.0, att(d, "z") == 1.0][var % 6]
    if kind == "parsed":
        from glue.core.parse import ParsedCommand, ParsedSubsetState
        return ParsedSubsetState(ParsedCommand("{a} > 2.5", {"a": att(d, "y")}))
    raise KeyError(kind)


def param_obj(st):
    """The primary parameter *object* of a leaf (identity is observable); None for by-value classes."""
    n = type(st).__name__
    if n in ("RoiSubsetStateNd", "RoiSubsetState", "RoiSubsetState3d", "CategoricalROISubsetState"):
        return st.roi
    if n == "MultiRangeSubsetState":
        return st.pairs
    if n == "CategoricalROISubsetState2D":
        return st.categories
    if n == "CategoricalMultiRangeSubsetState":
        return st.ranges
    if n in ("MaskSubsetState", "FloodFillSubsetState"):
        return st.mask
    if n in ("SliceSubsetState", "PixelSubsetState"):
        return st.slices
    if n == "CategorySubsetState":
        return st._categories
    if n == "ElementSubsetState":
        return st._indices
    if n == "ParsedSubsetState":
        return st._parsed
    return None


# which leaf specs make sense on which dataset (others raise at construction)
def leaf_specs_for(dkey, di):
    nd = {"T16": 1, "A6": 1, "A34": 2, "A232": 3, "B4": 1}[dkey]
    out = [["base", 0, di]]
    if dkey == "B4":
        return out + [["element", 2, di], ["mask", 0, di], ["slice", 0, di]]
    out += [["roiNd", 0, di], ["roiNd", 2, di], ["roi2d", 0, di], ["roi2d", 1, di], ["roi2d", 2, di], ["roi3d", 0, di] if dkey != "T16" else ["roi2d", 0, di],
            ["range", 0, di], ["range", 1, di], ["range", 2, di], ["range", 3, di], ["range", 4, di],
            ["multiRange", 0, di], ["multiRange", 1, di], ["mask", 0, di], ["mask", 1, di], ["floodFill", 0, di],
            ["slice", 0, di], ["slice", 1, di], ["pixel", 0, di], ["element", 0, di], ["element", 1, di], ["element", 2, di],
            ["inequality", 0, di], ["inequality", 1, di], ["inequality", 2, di], ["inequality", 3, di], ["inequality", 4, di],
            ["parsed", 0, di]]
    if dkey != "T16":
        out += [["inequality", 5, di]]
    if nd >= 2:
        out += [["roiNd", 1, di]]
    if dkey == "A34":
        out += [["range", 5, di], ["range", 5, di]]
    if dkey in ("A6", "T16"):
        out += [["catRoi", 0, di], ["catRoi", 1, di], ["category", 0, di], ["category", 1, di]]
    if dkey == "A6":
        out += [["catRoi2d", 0, di], ["catMultiRange", 0, di]]
    return out


VIEWS_BY_NDIM = {
    1: [["none"], ["sl", 1, 5, None], ["sl", None, None, 2], ["tup", ["s", 0, 3, None]], ["ell"], ["list", 0, 2, 3], ["arr", 1, 3],
        ["sl", None, None, -1]],   # (no integer index on 1-d data: 0-d results are numpy scalar singletons)
    2: [["none"], ["tup", ["s", 0, 2, None], ["s", 1, None, 2]], ["sl", 1, None, None], ["tup", ["i", 1], ["s", None, None, None]],
        ["ell"], ["list", 0, 2], ["arr", 1, 2], ["tup", ["s", None, None, None], ["i", -1]]],
    3: [["none"], ["tup", ["s", None, None, None], ["s", 0, 2, None], ["s", None, None, None]], ["tup", ["i", 1]],
        ["tup", ["s", 0, 1, None], ["i", 2], ["s", None, None, -1]], ["list", 1, 0], ["arr", 0]],
}

EXC_ATOMS = {}


def exc_atom(e):
    if isinstance(e, IncompatibleAttribute):
        return "incompatible"
    if isinstance(e, ValueError) and "broadcast" in str(e):
        return "shape"
    return "other"


def bits_atom(m):
    """Mask values as one atom `b0110…` (row-major)."""
    return "b" + "".join("1" if x else "0" for x in np.asarray(m).ravel())


def mask_out(m):
    m = np.asarray(m)
    if m.dtype != bool:
        return ["err", "other"]
    return ["ok", [int(s) for s in m.shape], bits_atom(m)]


# ------------------------------------------------------------------------------------------
# running a program on real glue objects
# ------------------------------------------------------------------------------------------

MODES = {"replace": EM.ReplaceMode, "new": EM.NewMode, "and": EM.AndMode, "or": EM.OrMode, "xor": EM.XorMode,
         "andNot": EM.AndNotMode}
BINOPS = {"and": operator.and_, "or": operator.or_, "xor": operator.xor}


def measure(st, datas, views):
    """Behaviour of one elementary selection on every dataset and view, through the *undecorated*
    to_mask (nothing is cached by measuring)."""
    f = undecorated(type(st))
    rows = []
    for di, d in enumerate(datas):
        for vi, v in enumerate(views):
            try:
                r = mask_out(f(st, d, view_obj(v)))
            except Exception as e:  # noqa
                r = ["err", exc_atom(e)]
            rows.append([di, vi, r])
    return rows


class World:
    def __init__(self, case):
        self.dkeys, self.views, self.leaves, self.prog = case
        self.datas = [make_data(k) for k in self.dkeys]
        self.dc = DataCollection(self.datas)
        self.grp = self.dc.new_subset_group()
        self.mode = EM.EditSubsetMode()
        self.mode.data_collection = self.dc
        self.mode.edit_subset = [self.grp]
        self.keep = []          # strong references to everything created


def run_program(case):
    w = World(case)
    datas, views = w.datas, w.views
    # the leaf environment: measured on separately constructed probe objects
    probes = [make_leaf(ls, datas) for ls in w.leaves]
    env = [measure(p, datas, views) for p in probes]
    env_keys = [repr(r) for r in env]
    clear_memo()
    vars_, hist, returned = [], [w.grp.subset_state], []   # returned: (op index, array, bits at return)
    obs = []
    for oi, op in enumerate(w.prog):
        t = op[0]
        try:
            if t == "leaf":
                vars_.append(make_leaf(w.leaves[op[1]], datas))
                obs.append(None)
            elif t == "bin":
                vars_.append(BINOPS[op[1]](vars_[op[2]], vars_[op[3]]))
                obs.append(None)
            elif t == "inv":
                vars_.append(~vars_[op[1]])
                obs.append(None)
            elif t == "mor":
                try:
                    vars_.append(S.MultiOrState([vars_[a] for a in op[1:]]))
                    obs.append(None)
                except ValueError:
                    obs.append("bad")
            elif t == "copy":
                vars_.append(vars_[op[1]].copy())
                obs.append(None)
            elif t == "usecur":
                vars_.append(w.mode.edit_subset[0].subset_state)
                obs.append(None)
            elif t == "child":
                st, i = vars_[op[1]], op[2]
                if isinstance(st, S.MultiOrState):
                    ch = st.states[i] if i < len(st.states) else None
                elif isinstance(st, S.InvertState):
                    ch = st.state1 if i == 0 else None
                elif isinstance(st, S.CompositeSubsetState):
                    ch = st.state1 if i == 0 else (st.state2 if i == 1 else None)
                else:
                    ch = None
                if ch is None:
                    obs.append("bad")
                else:
                    vars_.append(ch)
                    obs.append(None)
            elif t == "edit":
                w.mode.mode = MODES[op[1]]
                w.mode.update(w.dc, vars_[op[2]])
                hist.append(w.mode.edit_subset[0].subset_state)
                w.keep.append(w.mode.edit_subset[0])
                obs.append(None)
            elif t in ("eval", "evalcur"):
                if t == "eval":
                    st, d, v, form = vars_[op[1]], datas[op[2]], view_obj(views[op[3]]), op[4]
                else:
                    grp = w.mode.edit_subset[0]
                    sub = [s for s in grp.subsets if s.data is datas[op[1]]][0]
                    v, form = view_obj(views[op[2]]), "cur"
                try:
                    if form == "cur":
                        arr = sub.to_mask(v)
                    elif form == "kw":
                        arr = d.get_mask(st, view=v)
                    elif form == "pos":
                        arr = st.to_mask(d, v)
                    else:
                        arr = st.to_mask(d)
                    mo = mask_out(arr)
                    if mo[0] == "ok":
                        alias = oi
                        for (oj, a2, _) in returned:
                            if a2 is arr:
                                alias = oj
                                break
                        returned.append((oi, arr, mo[2]))
                        obs.append(["ok", mo[1], mo[2], alias, None])
                    else:
                        obs.append(mo)
                except Exception as e:  # noqa
                    obs.append(["err", exc_atom(e)])
            else:
                raise KeyError(t)
        except IndexError:
            obs.append("bad")   # unknown variable
    # returned arrays at the end
    end_same = {oi: bits_atom(arr) == bits for (oi, arr, bits) in returned}
    for oi, o in enumerate(obs):
        if isinstance(o, list) and o[0] == "ok":
            o[4] = end_same[oi]
    # canonical picture of the object graph
    nodemap, listmap, parammap, nodes = {}, {}, {}, []
    w.keep.extend([vars_, hist, returned, probes])

    def content_of(st):
        key = repr(measure(st, datas, views))
        for i, k in enumerate(env_keys):
            if k == key:
                return i
        return 999999

    def visit(st):
        if id(st) in nodemap:
            return nodemap[id(st)]
        k = len(nodes)
        nodemap[id(st)] = k
        nodes.append(None)
        name = type(st).__name__
        if name == "MultiOrState":
            if id(st.states) not in listmap:
                listmap[id(st.states)] = len(listmap)
            L = listmap[id(st.states)]
            nodes[k] = ["mor", L, [visit(c) for c in st.states]]
        elif name == "InvertState":
            nodes[k] = ["inv", visit(st.state1)]
        elif name in ("AndState", "OrState", "XorState"):
            l_ = visit(st.state1)
            r_ = visit(st.state2)
            nodes[k] = ["bin", COMPOSITES[name], l_, r_]
        else:
            kind = LEAF_KINDS.get(name, "unknown-" + name)
            po = param_obj(st)
            if po is None:
                p = None
            else:
                if id(po) not in parammap:
                    parammap[id(po)] = len(parammap)
                    w.keep.append(po)
                p = parammap[id(po)]
            nodes[k] = ["leaf", kind, p, content_of(st)]
        return k

    roots = [visit(s) for s in vars_]
    hroots = [visit(s) for s in hist]
    # memo tables
    entries = []
    datamap = {id(d): i for i, d in enumerate(datas)}
    ret_first = {}
    for (oi, arr, _) in returned:
        ret_first.setdefault(id(arr), oi)
    view_objs = [view_obj(v) if view_hashable(v) else None for v in views]

    def view_index(v):
        for i, vo in enumerate(view_objs):
            if view_hashable(views[i]) and type(vo) is type(v) and vo == v:
                return i
        return 999999

    for ti, tname in enumerate(TABLE_ORDER):
        cache = memo_tables().get(tname)
        if cache is None:
            continue
        for (args, kw), val in list(cache.items()):
            kwd = dict(kw)
            if len(args) == 3:
                form, v = "pos", args[2]
            elif "view" in kwd:
                form, v = "kw", kwd["view"]
            else:
                form, v = "bare", None
            node = nodemap.get(id(args[0]))
            mo = mask_out(val)
            entries.append(((ti, node if node is not None else 1000000, datamap.get(id(args[1]), 999999), view_index(v), FORM_ORDER[form]),
                            [tname, node, datamap.get(id(args[1]), 999999), view_index(v), form, ret_first.get(id(val)), mo[1], mo[2]]))
    for tname in memo_tables():
        if tname not in TABLE_ORDER and memo_tables()[tname]:
            entries.append(((99,), [tname, None, 0, 0, "pos", None, [], "b"]))
    entries.sort(key=lambda e: e[0])
    out = [["obs"] + obs, ["nodes"] + nodes, ["roots"] + roots, ["hist"] + hroots, ["memo"] + [e[1] for e in entries]]
    shapes = [[int(s) for s in d.shape] for d in datas]
    return out, env, shapes, w


class ProgFamily(Family):
    """Shared execution / line protocol of all program families."""
    name = "prog"
    batch = 200
    case_timeout = 20.0

    def setup(self):
        scan_subset_classes()
        memo_tables()

    def reset(self):
        clear_memo()
        Registry().clear()
        self._n = getattr(self, "_n", 0) + 1
        if self._n % 400 == 0:
            gc.collect()

    def run_impl(self, case):
        self._last = None
        gc.disable()
        try:
            out, env, shapes, w = run_program(case)
            self._last = (env, shapes)
            self._world = w     # keep everything alive until the next case
            return out
        finally:
            gc.enable()

    def line(self, case, pyout):
        dkeys, views, leaves, prog = case
        env, shapes = self._last if getattr(self, "_last", None) else ([[] for _ in leaves], [[1] for _ in dkeys])
        c = [["data"] + shapes,
             ["views"] + [[view_desc(v), view_hashable(v)] for v in views],
             ["leaves"] + [[ls[0], rows] for ls, rows in zip(leaves, env)],
             ["ops"] + [self.op_sx(op, leaves) for op in prog]]
        return sx(["prog", c, pyout])

    @staticmethod
    def op_sx(op, leaves):
        return list(op)

    def nontrivial(self, case, po):
        return any(op[0] in ("eval", "evalcur") for op in case[3]) and any(op[0] in ("bin", "inv", "mor", "edit") for op in case[3])

    def signature(self, case, pyout, res):
        kinds = {case[2][op[1]][0] for op in case[3] if op[0] == "leaf"}
        ops = {op[0] for op in case[3]}
        return {"roiNd": "roiNd" in kinds, "parsed": "parsed" in kinds, "mor": "mor" in ops, "edit": "edit" in ops}

    def describe(self, case):
        return {"data": case[0], "views": case[1], "leaves": case[2], "prog": case[3]}

    def shrink(self, case):
        dkeys, views, leaves, prog = case
        # drop one op (later ops that mention a now-missing / shifted variable are renumbered)
        binders = ("leaf", "bin", "inv", "mor", "copy", "usecur", "child")
        for i in range(len(prog) - 1, -1, -1):
            op = prog[i]
            if op[0] in binders:
                var = sum(1 for o in prog[:i] if o[0] in binders)
                new, okc = [], True
                for o in prog[:i] + prog[i + 1:]:
                    o2 = list(o)
                    idxs = {"bin": [2, 3], "inv": [1], "copy": [1], "eval": [1], "edit": [2], "child": [1]}.get(o[0], [])
                    if o[0] == "mor":
                        idxs = list(range(1, len(o)))
                    for k in idxs:
                        if o2[k] == var:
                            okc = False
                        elif o2[k] > var:
                            o2[k] -= 1
                    new.append(o2)
                if okc:
                    yield [dkeys, views, leaves, new]
            else:
                yield [dkeys, views, leaves, prog[:i] + prog[i + 1:]]


# ------------------------------------------------------------------------------------------
# generators
# ------------------------------------------------------------------------------------------

class Builder:
    """Builds a program (SSA variables) from expression trees."""

    def __init__(self):
        self.prog = []
        self.nvars = 0
        self.leafvar = {}

    def bind(self, op):
        self.prog.append(op)
        self.nvars += 1
        return self.nvars - 1

    def leaf(self, c, share=True):
        if share and c in self.leafvar:
            return self.leafvar[c]
        v = self.bind(["leaf", c])
        if share:
            self.leafvar[c] = v
        return v

    def tree(self, t, share=True):
        """t = int (leaf content) | ['and'|'or'|'xor', a, b] | ['inv', a] | ['mor', a, b, ...] | ['copy', a]"""
        if isinstance(t, int):
            return self.leaf(t, share)
        if t[0] in ("and", "or", "xor"):
            a = self.tree(t[1], share)
            b = self.tree(t[2], share)
            return self.bind(["bin", t[0], a, b])
        if t[0] == "inv":
            return self.bind(["inv", self.tree(t[1], share)])
        if t[0] == "copy":
            return self.bind(["copy", self.tree(t[1], share)])
        if t[0] == "mor":
            return self.bind(["mor"] + [self.tree(x, share) for x in t[1:]])
        raise KeyError(t[0])


def trees_upto(depth, leaves, with_mor=False):
    """All expression trees of depth <= `depth` over the given leaves (binary ops and inversion)."""
    level = list(leaves)
    allt = list(level)
    for _ in range(depth):
        new = [["inv", a] for a in allt]
        for op in ("and", "or", "xor"):
            for a in allt:
                for b in allt:
                    new.append([op, a, b])
        if with_mor:
            for a in allt:
                for b in allt:
                    new.append(["mor", a, b])
        allt = list(leaves) + new
    return allt


TT_LEAVES = [["base", 0, 0], ["inequality", 10, 0], ["range", 11, 0], ["element", 12, 0], ["category", 13, 0],
             ["mask", 10, 0], ["inequality", 11, 0], ["mask", 12, 0], ["range", 13, 0]]
TT_VIEWS = [["none"], ["sl", 2, 14, 3], ["list", 0, 5, 10, 15]]


def tt_case(trees, extra=0):
    """A few trees on the truth-table dataset (sharing their leaf objects): build each, evaluate it
    (repeatedly, three call forms, three views), then evaluate every operand and intermediate
    selection again."""
    b = Builder()
    prog_evals = []
    done = 0
    for tree in trees:
        root = b.tree(tree)
        ev = [["eval", root, 0, 0, "kw"], ["eval", root, 0, 0, "kw"], ["eval", root, 0, 1, "pos"], ["eval", root, 0, 2, "kw"]]
        for v in range(done, b.nvars - 1):
            ev.append(["eval", v, 0, 0, "kw" if (v + extra) % 2 == 0 else "pos"])
        ev.append(["eval", root, 0, 0, "bare"])
        prog_evals.append((len(b.prog), ev))
        done = b.nvars
    prog, pos = [], 0
    for (upto, ev) in prog_evals:
        prog += b.prog[pos:upto] + ev
        pos = upto
    return [["T16"], TT_VIEWS, TT_LEAVES, prog]


def packed(trees, k=3):
    buf = []
    for t in trees:
        buf.append(t)
        if len(buf) == k:
            yield buf
            buf = []
    if buf:
        yield buf


class TruthTable(ProgFamily):
    """Exhaustive expression trees over four elementary masks whose 16 elements realise all 16
    truth-table rows (mixed leaf classes: memoised Inequality / Element / Category, plain Range)."""
    name = "tt"
    exhaustive = True
    budget_share = 3.0

    def trees(self, tier, rng):
        leaves = [1, 2, 3, 4]
        # depth <= 2, binary ops + inversion: exhaustive
        yield from trees_upto(2, leaves)
        # many-way or: at the root over all depth-<=1 operands; under / next to every operator
        d1 = trees_upto(1, [1, 2, 3])
        if tier == "quick":
            for a in d1:
                for b_ in d1:
                    yield ["mor", a, b_]
            for op in ("and", "or", "xor"):
                for x, y, z in itertools.product([1, 2, 3], repeat=3):
                    yield [op, ["mor", x, y], z]
                    yield ["mor", [op, x, y], z, ["inv", x]]
            for x, y in itertools.product([1, 2, 3], repeat=2):
                yield ["inv", ["mor", x, y]]
                yield ["mor", ["mor", x, y], y]
        else:
            for t in trees_upto(2, [1, 2, 3], with_mor=True):
                if "mor" in repr(t):
                    yield t
        for a, b_, c in itertools.product([1, 2, 3, 4, ["inv", 1], ["and", 2, 3]], repeat=3):
            yield ["mor", a, b_, c]
        if tier == "thorough":
            yield from trees_upto(2, [5, 6, 7, 8])   # same masks through other leaf classes

    def cases(self, tier, rng):
        for i, ts in enumerate(packed(self.trees(tier, rng))):
            yield tt_case(ts, i % 2)
        # depth 3: every operator over sampled depth-2 operands (seeded)
        d2 = trees_upto(2, [1, 2, 3, 4])
        n = 800 if tier == "quick" else 12000
        for _ in range(n):
            op = rng.choice(["and", "or", "xor", "inv", "mor"])
            a, b_ = rng.choice(d2), rng.choice(d2)
            t = ["inv", a] if op == "inv" else [op, a, b_]
            yield tt_case([t, rng.choice(d2)], rng.randint(0, 1))


def none_view_index(views):
    for i, v in enumerate(views):
        if v[0] == "none":
            return i
    return None


def random_program(rng, dkeys, nleaf, nops, tier):
    """A seeded random program over real leaf kinds on 1–2 datasets."""
    nd = {"T16": 1, "A6": 1, "A34": 2, "A232": 3, "B4": 1}[dkeys[0]]
    pool = VIEWS_BY_NDIM[nd]
    views = [["none"]] + rng.sample(pool[1:], rng.randint(1, 3))
    specs = []
    for di, dk in enumerate(dkeys):
        specs += leaf_specs_for(dk, di)
    specs = [s_ for s_ in specs if s_[0] != "base"]
    if any(not view_hashable(v) for v in views):
        # `data[world_cid, <integer array>]` returns a 0-d array on this tree (a view defect of the
        # world-coordinate components, C04's domain): numpy then broadcasts where equal shapes are
        # expected.  World-coordinate leaves are therefore only combined with basic views.
        specs = [s_ for s_ in specs if not (s_[0] == "range" and s_[1] == 5)]
    leaves = [["base", 0, 0]] + [rng.choice(specs) for _ in range(nleaf)]
    prog, shape = [], []      # shape[v]: how variable v was made (to emit well-formed `child` ops)

    def bind(op, sh):
        prog.append(op)
        shape.append(sh)

    for _ in range(rng.randint(1, 3)):
        bind(["leaf", rng.randint(0, nleaf)], ("leaf",))
    evald = []
    for _ in range(nops):
        r = rng.random()
        nv = len(shape)
        a = rng.randrange(nv)
        if r < 0.10:
            bind(["leaf", rng.randint(0, nleaf)], ("leaf",))
        elif r < 0.30:
            b_ = rng.randrange(nv)
            bind(["bin", rng.choice(["and", "or", "xor"]), a, b_], ("bin", a, b_))
        elif r < 0.37:
            bind(["inv", a], ("inv", a))
        elif r < 0.45:
            xs = [rng.randrange(nv) for _ in range(rng.randint(1, 4))]
            bind(["mor"] + xs, ("mor",) + tuple(xs))
        elif r < 0.50:
            bind(["copy", a], shape[a])
        elif r < 0.56:
            sh = shape[a]
            if sh[0] in ("bin", "inv", "mor"):
                i = rng.randrange(len(sh) - 1)
                bind(["child", a, i], shape[sh[1 + i]])
            elif sh[0] == "leaf" and rng.random() < 0.2:
                prog.append(["child", a, 0])      # refused: a leaf has no operands
        elif r < 0.64:
            prog.append(["edit", rng.choice(list(MODES)), a])
        elif r < 0.69:
            bind(["usecur"], ("unknown",))
        elif r < 0.76:
            prog.append(["evalcur", rng.randrange(len(dkeys)), rng.randrange(len(views))])
        else:
            if evald and rng.random() < 0.4:
                a = rng.choice(evald)     # re-evaluate something evaluated before
            evald.append(a)
            form = rng.choice(["kw", "kw", "pos", "bare"])
            v = 0 if form == "bare" else rng.randrange(len(views))
            prog.append(["eval", a, rng.randrange(len(dkeys)), v, form])
    # finally evaluate variables once more (operands unchanged)
    for a in range(len(shape)):
        if rng.random() < 0.5:
            prog.append(["eval", a, 0, rng.randrange(len(views)), rng.choice(["kw", "pos"])])
    return [list(dkeys), views, leaves, prog]


class RandomPrograms(ProgFamily):
    """Seeded random programs over every leaf class, 1–3-d datasets (NaN/inf values, categorical,
    derived and pixel attributes), a second dataset on which most attributes are missing
    (IncompatibleAttribute), hashable and unhashable views, all call forms, copies, children,
    many-way ors over shared operands, edit modes."""
    name = "rand"
    budget_share = 2.0

    def cases(self, tier, rng):
        n = 3000 if tier == "quick" else 20000
        for i in range(n):
            dk = rng.choice([["A6"], ["A6", "B4"], ["A34"], ["A232"], ["A6"], ["A34", "B4"], ["T16"]])
            yield random_program(rng, dk, rng.randint(2, 6), rng.randint(4, 22 if tier == "quick" else 40), tier)


SCHED_TREES = [
    ["and", 1, 2], ["or", ["and", 1, 2], 3], ["xor", ["inv", 1], ["or", 2, 3]], ["mor", 1, 2, 3],
    ["mor", ["and", 1, 2], 3, ["inv", 4]], ["inv", ["mor", 1, 2]], ["and", ["mor", 1, 2], ["mor", 2, 3]],
    ["or", ["copy", ["and", 1, 2]], ["and", 1, 2]],
]


def internal_paths(t, path=()):
    """Paths (child indices) to every internal operand object of the object built for tree t."""
    out = []
    if isinstance(t, int):
        return out
    kids = t[1:] if t[0] != "copy" else []
    if t[0] == "copy":
        return internal_paths(t[1], path)
    for i, k in enumerate(kids):
        out.append(path + (i,))
        out += internal_paths(k, path + (i,))
    return out


class Schedules(ProgFamily):
    """Evaluation schedules: the same selections evaluated in every order — internal operand
    objects (`state1`, `state2`, `states[i]`) before and after their parents, repeated, with
    interleaved views and call forms."""
    name = "sched"
    exhaustive = True
    budget_share = 1.0

    def cases(self, tier, rng):
        views = [["none"], ["sl", 1, 5, None], ["arr", 1, 3]]
        leaves = [["base", 0, 0], ["inequality", 0, 0], ["range", 0, 0], ["element", 0, 0], ["catRoi", 0, 0]]
        for t in SCHED_TREES:
            b = Builder()
            root = b.tree(t)
            prog = list(b.prog)
            targets = [root]
            for pth in internal_paths(t)[:6]:
                cur = root
                ok = True
                for i in pth:
                    prog.append(["child", cur, i])
                    cur = b.nvars
                    b.nvars += 1
                targets.append(cur)
            targets = targets[:5]
            evs = [[x, v, f] for x in targets for (v, f) in ((0, "kw"), (0, "pos"), (1, "pos"))]
            # all orders of a small set, twice each element
            base = evs[:4] if tier == "quick" else evs[:5]
            for perm in itertools.permutations(base):
                p2 = prog + [["eval", x, 0, v, f] for (x, v, f) in perm] + [["eval", x, 0, v, f] for (x, v, f) in perm[::2]]
                yield [["A6"], views, leaves, p2]
            for _ in range(40 if tier == "quick" else 800):
                seq = [rng.choice(evs) for _ in range(rng.randint(3, 12))]
                p2 = prog + [["eval", x, 0, v, f] for (x, v, f) in seq] + [["eval", x, 0, 2, "kw"] for x in targets]
                yield [["A6"], views, leaves, p2]


class EditModes(ProgFamily):
    """Edit-mode sequences applied to the edit subset of a real DataCollection / SubsetGroup."""
    name = "edit"
    exhaustive = True
    budget_share = 1.0

    def cases(self, tier, rng):
        views = [["none"], ["sl", None, None, 2]]
        leaves = [["base", 0, 0], ["inequality", 0, 0], ["roiNd", 0, 0], ["range", 4, 0], ["mask", 0, 0], ["parsed", 0, 0],
                  ["multiRange", 0, 0], ["floodFill", 0, 0]]
        modes = list(MODES)
        L = 3 if tier == "quick" else 4
        for n in range(1, L + 1):
            for seq in itertools.product(modes, repeat=n):
                prog = [["leaf", 1], ["leaf", 2], ["leaf", 3], ["leaf", 4]]
                for i, m in enumerate(seq):
                    prog.append(["edit", m, i % 4])
                    prog.append(["evalcur", 0, 0])
                prog += [["evalcur", 1, 1], ["evalcur", 0, 1], ["usecur"], ["eval", 4, 0, 0, "kw"], ["eval", 0, 0, 0, "kw"],
                         ["eval", 1, 0, 0, "kw"], ["eval", 2, 0, 0, "pos"]]
                yield [["A6", "B4"], views, leaves, prog]
        for _ in range(300 if tier == "quick" else 6000):
            k = rng.randint(4, 8)
            prog = [["leaf", j] for j in range(1, 8)]
            nv = 7
            for i in range(k):
                prog.append(["edit", rng.choice(modes), rng.randrange(nv)])
                if rng.random() < 0.6:
                    prog.append(["evalcur", rng.randint(0, 1), rng.randint(0, 1)])
                if rng.random() < 0.3:
                    prog.append(["usecur"]); nv += 1
                if rng.random() < 0.3:
                    prog.append(["bin", rng.choice(["and", "or", "xor"]), rng.randrange(nv), rng.randrange(nv)]); nv += 1
            prog += [["evalcur", 0, 0]] + [["eval", a, 0, 0, "kw"] for a in range(nv)]
            yield [["A6", "B4"], views, leaves, prog]


class Classes(Family):
    """L0: the class table (copy semantics, memo table) of every SubsetState subclass found by
    introspection; fails if a class exists that has no generator / model kind."""
    name = "cls"
    exhaustive = True
    max_jobs = 1
    budget_share = 0.2

    def setup(self):
        scan_subset_classes()
        memo_tables()

    def cases(self, tier, rng):
        for c in scan_subset_classes():
            yield c.__name__

    def _cls(self, name):
        return [c for c in scan_subset_classes() if c.__name__ == name][0]

    def run_impl(self, case):
        c = self._cls(case)
        cache = memo_cache_of(c.to_mask)
        table = None
        if cache is not None:
            table = [k for k, v in memo_tables().items() if v is cache][0]
        if case in COMPOSITES or case in ABSTRACT:
            return ["composite", table]
        if case not in LEAF_KINDS:
            raise RuntimeError("SubsetState subclass without a generator: " + case)
        kind = LEAF_KINDS[case]
        datas = [make_data("A34" if kind == "roiNd" else "A6")]
        out = []
        for var in range(3):
            st = make_leaf([kind, var, 0], datas)
            if type(st) is not c:
                raise RuntimeError("generator for %s builds %s" % (case, type(st).__name__))
            cp = st.copy()
            if type(cp) is not c:
                beh = "toBase" if type(cp) is SubsetState else "other-" + type(cp).__name__
            elif param_obj(st) is not None and param_obj(cp) is param_obj(st):
                beh = "share"
            else:
                beh = "fresh"
            # a copy must behave like the original
            views = VIEWS_BY_NDIM[datas[0].ndim][:3]
            if beh != "toBase" and repr(measure(cp, datas, views)) != repr(measure(st, datas, views)):
                beh = "differs"
            out.append(beh)
        if len(set(out)) != 1:
            return ["mixed"] + out
        return [out[0], table]

    def line(self, case, pyout):
        if case in COMPOSITES or case in ABSTRACT:
            return sx(["ctab", COMPOSITES.get(case, "abstract"), pyout])
        return sx(["cls", LEAF_KINDS.get(case, "unknown"), pyout])


THEOREMS = ["C01.classTable_faithful", "C01.run_refines", "C01.toMask_eq_denote", "C01.reachable_cacheCoherent",
            "C01.returned_arrays_stable", "C01.operands_unchanged", "C01.eval_order_irrelevant", "C01.denote_bin",
            "C01.denote_inv", "C01.multiOr_eq_foldl_or", "C01.editMode_masks", "C01.editMode_denote",
            "C01.shape_of_mask", "C01.pinnedTable_not_faithful", "C01.pinned_roiNd_counterexample"]

PROP = Property(
    id="C01",
    title="Selections form a faithful Boolean algebra over membership masks",
    theorems=THEOREMS,
    families=[Classes(), TruthTable(), Schedules(), EditModes(), RandomPrograms()],
    trusted_base=["numpy Boolean operators / in-place |= / ndarray identity; CPython dict keys (hash + ==) of the memo tables; "
                  "leaf masks are measured on the implementation (their internals belong to C04/C08/C09/C11)"],
    assumptions=["no key joins in the datasets (Data.get_mask fallback re-raises IncompatibleAttribute); "
                 "no parameter or data mutation (C05)"],
    rule="exhaustive expression trees (depth <= 2, binary ops + inversion + many-way or) over four elementary masks realising all 16 "
         "truth-table rows; all edit-mode sequences up to length 3/4; all orders of small evaluation schedules; seeded random "
         "programs over every leaf class beyond; non-trivial = the program combines selections and evaluates something",
)
