"""C16 — a fixed-resolution buffer equals nearest-pixel resampling through the links; a cache
identifier never changes a result.

Real objects: `glue.core.Data` sets in a `DataCollection`, linked with `LinkSame` on pixel
component ids, one-axis and multi-axis affine `ComponentLink`s, or `LinkSame` on the world
components of `AffineCoordinates`; `compute_fixed_resolution_buffer` with and without `cache_id`
(module level `ARRAY_CACHE` / `PIXEL_CACHE`); `ImageLayerState` / `ImageSubsetLayerState`
`.get_sliced_data` on a headless `ImageViewerState`.

Numbers: offsets / scalings / bounds are dyadic rationals of small magnitude, so `np.linspace`,
the link functions, `pixel_to_world_values` and the (power-of-two) inverse matrices are exact in
doubles; the Lean side computes with exact rationals and models `np.round` (half-to-even) exactly,
so samples exactly half-way between two pixels are generated on purpose and counted (`-tie`
branches).  Component values are integers.  Floats are never sent.

Round 2 (fine ladder): the `fine` strata of `frb` / `seq` use bounds and link parameters at magnitudes
3, 1e5, 2459000.5, 1e9, 2^-20, 2^40 ... (exact doubles, sent as exact rationals) and perturb them by
1 ulp / 1e-12 ... 1e-3 relative / 2^-27, 2^-40 absolute, with the links arranged so that the
perturbed component moves a sample across a pixel boundary (position k+1/2 -+ tiny) or across the
edge of the source.  A generator-side filter (`exact_ok`) keeps only requests on which double
arithmetic (numpy's own `linspace`, the link lambdas) rounds every sample to the same pixel as exact
rational arithmetic, so the Lean model (exact `Rat`) stays the reference.

Round 3 (argument object identity): `seq` histories may pass ONE caller-owned bounds list object to several
requests and edit it in place in between (`b[i] = k`, a replaced tuple, append / pop, `b[:] = ...`), submit an
equal fresh copy, and overwrite a returned buffer in place; the Spec of each request is the uncached answer for
the CURRENT contents of its arguments (Model/C16Args.lean: stored keys own | ref, storage policy).  `img` calls
may re-use one caller-owned `view` / `bounds` list and overwrite the returned image.
"""
import gc
import itertools
import json
import math
from fractions import Fraction

from harness.core import Family, Property, use_repo, sx

use_repo()
import numpy as np  # noqa: E402
from glue.core import Data, DataCollection  # noqa: E402
from glue.core.component_link import ComponentLink  # noqa: E402
from glue.core.link_helpers import LinkSame  # noqa: E402
from glue.core.coordinates import AffineCoordinates  # noqa: E402
from glue.core.exceptions import IncompatibleAttribute, IncompatibleDataException  # noqa: E402
from glue.core.subset import RangeSubsetState, ElementSubsetState  # noqa: E402
from glue.core import fixed_resolution_buffer as FRB  # noqa: E402


# ------------------------------------------------------------------------------------------
# exact numbers
# ------------------------------------------------------------------------------------------

def q_of(x):
    return Fraction(x[0], x[1]) if isinstance(x, (list, tuple)) else Fraction(x)


def q_enc(fr):
    fr = Fraction(fr)
    return int(fr) if fr.denominator == 1 else [fr.numerator, fr.denominator]


def q_sx(x):
    fr = q_of(x)
    return fr.numerator if fr.denominator == 1 else ["q", fr.numerator, fr.denominator]


def fl(x):
    return float(q_of(x))


# ------------------------------------------------------------------------------------------
# worlds (JSON-able):  {"ds": [{"shape", "comps", "coords"}], "links": [...], "states": [...]}
#   link : ["same", t, p, s, k]                 LinkSame(t.pix[p], s.pix[k])
#          ["aff", t, p, s, k, a, b]            s.pix[k] = a * t.pix[p] + b  (and the inverse link)
#          ["lin", t, [p..], s, k, [a..], b]    s.pix[k] = b + sum a_i * t.pix[p_i]   (one direction)
#          ["main", t, c, s, k]                 s.pix[k] = t.main[c]                  (one direction)
#          ["world", t, s, pairing]             LinkSame(t.world[pairing[i]], s.world[i]) for all i
#   state: ["range", ds, c, lo, hi] | ["gt", ds, c, v] | ["pr", ds, axis, lo, hi]
#          | ["and"|"or"|"xor", a, b] | ["not", a]
# ------------------------------------------------------------------------------------------

class Built:
    """Real glue objects of a world; keeps strong references to everything."""

    def __init__(self, cw):
        self.cw = cw
        self.datas = []
        for i, d in enumerate(cw["ds"]):
            kw = {}
            for j, vals in enumerate(d["comps"]):
                kw["c%d" % j] = np.array(vals, dtype=np.int64).reshape(tuple(d["shape"]))
            coords = None
            if d.get("coords"):
                coords = AffineCoordinates(np.array([[fl(x) for x in r] for r in d["coords"]], dtype=float))
            self.datas.append(Data(label="d%d" % i, coords=coords, **kw))
        self.dc = DataCollection(self.datas)
        self.links = []
        for l in cw["links"]:
            self.links.extend(self._make_links(l))
        if self.links:
            self.dc.add_link(self.links)
        self.states = [self._make_state(e) for e in cw["states"]]
        self.keep = []

    def pix(self, ds, ax):
        return self.datas[ds].pixel_component_ids[ax]

    def main(self, ds, c):
        return self.datas[ds].main_components[c]

    def _make_links(self, l):
        k = l[0]
        if k == "same":
            _, t, p, s, kk = l
            return [LinkSame(self.pix(t, p), self.pix(s, kk))]
        if k == "aff":
            _, t, p, s, kk, a, b = l
            a, b = fl(a), fl(b)
            return [ComponentLink([self.pix(t, p)], self.pix(s, kk), using=lambda x, a=a, b=b: a * x + b),
                    ComponentLink([self.pix(s, kk)], self.pix(t, p), using=lambda y, a=a, b=b: (y - b) / a)]
        if k == "lin":
            _, t, ps, s, kk, coefs, b = l
            cs, b = [fl(c) for c in coefs], fl(b)

            def f(*xs, cs=cs, b=b):
                out = b
                for c, x in zip(cs, xs):
                    out = out + c * x
                return out
            return [ComponentLink([self.pix(t, p) for p in ps], self.pix(s, kk), using=f)]
        if k == "main":
            _, t, c, s, kk = l
            return [ComponentLink([self.main(t, c)], self.pix(s, kk), using=lambda x: x)]
        if k == "world":
            _, t, s, pairing = l
            return [LinkSame(self.datas[t].world_component_ids[pairing[i]], self.datas[s].world_component_ids[i])
                    for i in range(len(pairing))]
        raise ValueError(l)

    def _att(self, kind, ds, k):
        return self.main(ds, k) if kind != "pr" else self.pix(ds, k)

    def _make_state(self, e):
        k = e[0]
        if k == "range":
            return RangeSubsetState(fl(e[3]), fl(e[4]), att=self.main(e[1], e[2]))
        if k == "pr":
            return RangeSubsetState(fl(e[3]), fl(e[4]), att=self.pix(e[1], e[2]))
        if k == "gt":
            return self.main(e[1], e[2]) > fl(e[3])
        if k == "elems":
            return ElementSubsetState(indices=list(e[1]))
        if k == "and":
            return self._make_state(e[1]) & self._make_state(e[2])
        if k == "or":
            return self._make_state(e[1]) | self._make_state(e[2])
        if k == "xor":
            return self._make_state(e[1]) ^ self._make_state(e[2])
        if k == "not":
            return ~self._make_state(e[1])
        raise ValueError(e)

    def edit_state(self, st, old, new):
        """In-place edit: `new` has the shape of `old`; only range limits differ."""
        k = new[0]
        if k in ("range", "pr"):
            st.lo = fl(new[3])
            st.hi = fl(new[4])
        elif k == "elems":
            st.indices = list(new[1])
        elif k in ("and", "or", "xor"):
            self.edit_state(st.state1, old[1], new[1])
            self.edit_state(st.state2, old[2], new[2])
        elif k == "not":
            self.edit_state(st.state1, old[1], new[1])


def bound_py(b):
    """["s", x] | ["r", lo, hi, n]; a trailing "i" = the numbers are passed as Python ints (5 vs 5.0:
    equal values, equal hashes - the model sees the value only)"""
    if b[-1] == "i":
        return int(q_of(b[1])) if b[0] == "s" else (int(q_of(b[1])), int(q_of(b[2])), int(b[3]))
    return fl(b[1]) if b[0] == "s" else (fl(b[1]), fl(b[2]), int(b[3]))


def bound_sx(b):
    return ["s", q_sx(b[1])] if b[0] == "s" else ["r", q_sx(b[1]), q_sx(b[2]), int(b[3])]


def canon_arr(a):
    a = np.asarray(a)
    cells = []
    if a.dtype == bool:
        cells = [bool(v) for v in a.ravel().tolist()]
    else:
        for v in a.ravel().tolist():
            v = float(v)
            if v != v:
                cells.append("nan")
            elif v == int(v) and abs(v) < 2 ** 50:
                cells.append(int(v))
            else:
                cells.append("nonint")
    return ["ok", [int(s) for s in a.shape], cells]


def run_request(bw, req, prefix="k", bounds_obj=None, raw=None):
    """req = ["req", data, bounds, target, what, broadcast, cid]  → canonical answer
    bounds_obj: the caller-owned list object to pass as `bounds` (round 3; default: a list built for this
    call); raw: a list that receives the returned object (None for an exception)"""
    _, d, bounds, t, what, bc, cid = req
    kw = {}
    if what[0] == "c":
        try:
            kw["target_cid"] = bw.main(what[1], what[2])
        except IndexError:   # a component id that belongs to no dataset
            from glue.core.component_id import ComponentID
            kw["target_cid"] = ComponentID("nowhere")
            bw.keep.append(kw["target_cid"])
    elif what[0] == "px":
        kw["target_cid"] = bw.pix(what[1], what[2])
    else:
        kw["subset_state"] = bw.states[what[1]]
    if raw is not None:
        raw.append(None)
    try:
        arr = FRB.compute_fixed_resolution_buffer(
            bw.datas[d], [bound_py(b) for b in bounds] if bounds_obj is None else bounds_obj,
            target_data=bw.datas[t], broadcast=bool(bc),
            cache_id=None if cid is None else "%s%d" % (prefix, cid), **kw)
    except ValueError:
        return "value-error"
    except IncompatibleAttribute:
        return "incompatible"
    except IncompatibleDataException:
        return "incompatible-data"
    except Exception as e:  # noqa: BLE001
        if e.args and e.args[0] == "Dependency on non-pixel component":
            return "exception"
        raise
    if raw is not None:
        raw[-1] = arr
    return canon_arr(arr)       # the contents at return time


def fill_in_place(arr, v):
    """the caller's `buf[...] = v` on a returned buffer (numpy scalars / 0-d results are immutable values)"""
    if isinstance(arr, np.ndarray) and arr.ndim >= 1 and arr.flags.writeable:
        arr[...] = v


def req_sx(req):
    _, d, bounds, t, what, bc, cid = req
    return ["req", d, [bound_sx(b) for b in bounds], t, list(what), bool(bc), cid]


def state_sx(e):
    k = e[0]
    if k in ("range", "pr"):
        return [k, e[1], e[2], q_sx(e[3]), q_sx(e[4])]
    if k == "gt":
        return [k, e[1], e[2], q_sx(e[3])]
    if k == "elems":
        return [k, list(e[1])]
    return [k] + [state_sx(x) for x in e[1:]]


# ------------------------------------------------------------------------------------------
# the derivation table: what LinkManager.discover_links installs, at the level of pixel axes
# ------------------------------------------------------------------------------------------

def abstract_links(cw):
    """(inputs, output, coefficients, constant, the same function on doubles - written exactly like
    the `using=` lambdas of `Built._make_links`, for the exactness filter)"""
    out = []
    for l in cw["links"]:
        k = l[0]
        if k == "same":
            _, t, p, s, kk = l
            out.append(([("p", t, p)], ("p", s, kk), [1], 0, lambda x: x))
            out.append(([("p", s, kk)], ("p", t, p), [1], 0, lambda x: x))
        elif k == "aff":
            _, t, p, s, kk, a, b = l
            a, b = q_of(a), q_of(b)
            fa, fb = float(a), float(b)
            out.append(([("p", t, p)], ("p", s, kk), [a], b, lambda x, fa=fa, fb=fb: fa * x + fb))
            out.append(([("p", s, kk)], ("p", t, p), [1 / a], -b / a, lambda y, fa=fa, fb=fb: (y - fb) / fa))
        elif k == "lin":
            _, t, ps, s, kk, coefs, b = l

            def f(*xs, cs=[fl(c) for c in coefs], fb=fl(b)):
                o = fb
                for c, x in zip(cs, xs):
                    o = o + c * x
                return o
            out.append(([("p", t, p) for p in ps], ("p", s, kk), [q_of(c) for c in coefs], q_of(b), f))
        elif k == "main":
            _, t, c, s, kk = l
            out.append(([("m", t, c)], ("p", s, kk), [1], 0, None))
    return out


def discover(cw, t, links):
    """`discover_links(data, links)` on abstract nodes (same loop, same cost rule)."""
    d = cw["ds"][t]
    depth = {("p", t, i): 0 for i in range(len(d["shape"]))}
    depth.update({("m", t, c): 0 for c in range(len(d["comps"]))})
    chosen = {}
    while True:
        for link in links:
            ins, out = link[0], link[1]
            if not all(i in depth for i in ins):
                continue
            cost = max(depth[i] for i in ins) + 1 if ins else 1
            if out in depth and cost >= depth[out]:
                continue
            depth[out] = cost
            chosen[out] = link
            break
        else:
            break
    return chosen


def tree(cw, t, chosen, node, fuel=8):
    if node[0] == "p" and node[1] == t:
        return ["p", node[2]]
    if node[0] == "m" and node[1] == t:
        return "nonpixel"
    if node not in chosen or fuel == 0:
        return "missing"
    ins, _, coefs, c = chosen[node][:4]
    return ["v", [q_sx(x) for x in coefs], q_sx(c), [tree(cw, t, chosen, i, fuel - 1) for i in ins]]


def deriv_table(cw):
    """[(t, s, k, deriv-sexp)] for every ordered pair of distinct datasets; None if the result
    depends on the (unspecified) order in which the link set is iterated."""
    n = len(cw["ds"])
    table = []
    links = abstract_links(cw)
    wpairs = [l for l in cw["links"] if l[0] == "world"]
    for t in range(n):
        ch1 = discover(cw, t, links)
        ch2 = discover(cw, t, list(reversed(links)))
        for s in range(n):
            if s == t:
                continue
            for k in range(len(cw["ds"][s]["shape"])):
                a = tree(cw, t, ch1, ("p", s, k))
                if a != tree(cw, t, ch2, ("p", s, k)):
                    return None
                table.append([t, s, k, a])
    for _, t, s, pairing in wpairs:
        nn = len(pairing)
        table = [e for e in table if not ((e[0], e[1]) in ((t, s), (s, t)))]
        inv = [pairing.index(i) for i in range(nn)]
        for k in range(nn):
            table.append([t, s, k, ["w2p", s, k, [[i, ["v", [1], 0, [["wleaf", t, pairing[i]]]]] for i in range(nn)]]])
            table.append([s, t, k, ["w2p", t, k, [[i, ["v", [1], 0, [["wleaf", s, inv[i]]]]] for i in range(nn)]]])
    return table


def world_sx(cw):
    table = deriv_table(cw)
    dsets = []
    for d in cw["ds"]:
        co = "N" if not d.get("coords") else ["aff", [[q_sx(x) for x in r] for r in d["coords"]]]
        dsets.append(["D", list(d["shape"]), [list(c) for c in d["comps"]], co])
    return ["W", dsets, table, [state_sx(e) for e in cw["states"]]]


# ------------------------------------------------------------------------------------------
# generators
# ------------------------------------------------------------------------------------------

SCALES = [1, 1, -1, 2, [1, 2], [-1, 2], -2]
OFFSETS = [0, 0, 1, -1, [1, 2], [-1, 2], 2, [3, 2], [1, 4]]


def mk_ds(shape, ncomp, rng, base):
    size = int(np.prod(shape))
    comps = []
    for j in range(ncomp):
        if j == 0:
            comps.append([base + i for i in range(size)])
        else:
            comps.append([rng.randint(-9, 9) for _ in range(size)])
    return {"shape": list(shape), "comps": comps, "coords": None}


def rand_shape(nd, rng, m=4):
    return [rng.randint(1, m) for _ in range(nd)]


def std_states(cw, rng):
    """A few selection objects per dataset, including two equal-content distinct objects."""
    out = []
    for i, d in enumerate(cw["ds"]):
        size = int(np.prod(d["shape"]))
        base = d["comps"][0][0]
        lo, hi = base + rng.randint(0, max(0, size // 2)), base + rng.randint(size // 2, size)
        out.append(["range", i, 0, lo, hi])
        out.append(["range", i, 0, lo, hi])                     # same content, another object
        out.append(["gt", i, len(d["comps"]) - 1, rng.randint(-3, 3) if len(d["comps"]) > 1 else base + size // 3])
        ax = rng.randrange(len(d["shape"]))
        out.append(["pr", i, ax, q_enc(Fraction(rng.randint(-1, 2), 2)), rng.randint(1, 3)])
        out.append([rng.choice(["and", "or", "xor"]), ["range", i, 0, lo, hi],
                    ["not", ["pr", i, ax, 0, rng.randint(0, 2)]]])
    # selections that are not tied to a dataset (ElementSubsetState without data): states[5·nds ..]
    sizes = [int(np.prod(d["shape"])) for d in cw["ds"]]
    out.append(["elems", sorted(rng.sample(range(min(sizes)), rng.randint(0, min(min(sizes), 3))))])
    out.append(["elems", sorted(rng.sample(range(max(sizes)), rng.randint(1, min(max(sizes), 4))))])
    return out


def world_self(rng, nd=None):
    nd = nd or rng.randint(1, 3)
    cw = {"ds": [mk_ds(rand_shape(nd, rng), rng.randint(1, 2), rng, 10)], "links": [], "states": []}
    cw["states"] = std_states(cw, rng)
    return cw


def world_pair(rng, tn=None, sn=None, kind=None, third=False):
    """target dataset 0, source dataset 1: source axis k ← target axis perm[k] (affine);
    target axes that are not used are broadcast dimensions; surplus source axes are unlinked."""
    tn = tn or rng.randint(1, 3)
    sn = sn or rng.randint(1, 3)
    kind = kind or rng.choice(["same", "same", "aff", "aff", "mixed"])
    ds = [mk_ds(rand_shape(tn, rng), 2, rng, 10), mk_ds(rand_shape(sn, rng), 2, rng, 100)]
    axes = list(range(tn))
    rng.shuffle(axes)
    links = []
    for k in range(min(sn, tn)):
        p = axes[k]
        lk = kind if kind != "mixed" else rng.choice(["same", "aff"])
        if lk == "same":
            links.append(["same", 0, p, 1, k])
        else:
            links.append(aff_link(0, p, 1, k, ds[1]["shape"][k], rng))
    if third:
        un = rng.randint(1, 2)
        ds.append(mk_ds(rand_shape(un, rng), 1, rng, 200))
        # chain: dataset 2 hangs off dataset 1 only
        for k in range(min(un, sn)):
            if rng.random() < 0.5:
                links.append(["same", 1, k, 2, k])
            else:
                links.append(aff_link(1, k, 2, k, ds[2]["shape"][k], rng))
    cw = {"ds": ds, "links": links, "states": []}
    cw["states"] = std_states(cw, rng)
    return cw


def aff_link(t, p, s_, k, src_size, rng):
    """s.pix[k] = a·t.pix[p] + b with the offset chosen so that the two grids overlap"""
    a = rng.choice(SCALES)
    if q_of(a) < 0:
        b = q_enc(q_of(rng.choice([src_size - 1, src_size - 1, src_size, Fraction(2 * src_size - 1, 2)])))
    else:
        b = rng.choice(OFFSETS)
    return ["aff", t, p, s_, k, a, b]


def world_twins(rng):
    """two source datasets of the same shape linked in the same way to the reference: requests that
    differ only in the *identity* of `data` (or of `target_data`, when a twin is the reference)"""
    tn = rng.randint(1, 3)
    sn = rng.randint(1, tn)
    sshape = rand_shape(sn, rng)
    ds = [mk_ds(rand_shape(tn, rng), 2, rng, 10), mk_ds(sshape, 2, rng, 100), mk_ds(sshape, 2, rng, 200)]
    axes = list(range(tn))
    rng.shuffle(axes)
    links = []
    for k in range(sn):
        l = aff_link(0, axes[k], 1, k, sshape[k], rng)
        for s_ in (1, 2):
            links.append(["same", 0, axes[k], s_, k] if (l[5] == 1 and l[6] == 0) else l[:3] + [s_] + l[4:])
    cw = {"ds": ds, "links": links, "states": []}
    cw["states"] = std_states(cw, rng)
    return cw


def world_lin(rng):
    """source axis 0 is a combination of two target axes; optionally a dependency on a main
    component (→ Exception)."""
    ds = [mk_ds(rand_shape(rng.randint(2, 3), rng), 2, rng, 10), mk_ds(rand_shape(rng.randint(1, 2), rng), 2, rng, 100)]
    tn, sn = len(ds[0]["shape"]), len(ds[1]["shape"])
    p0, p1 = rng.sample(range(tn), 2)
    links = [["lin", 0, [p0, p1], 1, 0, [rng.choice([1, -1, [1, 2]]), rng.choice([1, 0, -1, 2])], rng.choice(OFFSETS)]]
    if sn == 2:
        r = rng.random()
        if r < 0.5:
            links.append(["same", 0, p1, 1, 1])
        elif r < 0.75:
            links.append(["main", 0, 0, 1, 1])
    cw = {"ds": ds, "links": links, "states": []}
    cw["states"] = std_states(cw, rng)
    return cw


def perm_matrix(n, perm, scales, trans):
    """augmented affine matrix (FITS order): world w = scale_w * pixel perm[w] + trans_w"""
    rows = [[scales[w] if p == perm[w] else 0 for p in range(n)] + [trans[w]] for w in range(n)]
    return rows + [[0] * n + [1]]


def world_wcs(rng, n=None, coupled=False):
    """two datasets with affine coordinates (permuted / scaled / shifted axes, optionally a coupled
    2×2 block in the reference), all world axes linked pairwise; the coordinates of the second one
    are chosen so that the composite pixel→pixel map is a permutation with scale c ∈ {1, −1, 2, 1/2}
    and a small offset (so that the two pixel grids overlap)."""
    n = n or rng.randint(1, 3)
    shapes = [rand_shape(n, rng), rand_shape(n, rng)]
    perm_a = list(range(n))
    rng.shuffle(perm_a)
    scales_a = [q_of(rng.choice([1, 1, -1, 2, [1, 2], 4])) for _ in range(n)]
    trans_a = [q_of(rng.choice(OFFSETS)) for _ in range(n)]
    pairing = list(range(n))
    rng.shuffle(pairing)
    perm_b = list(range(n))
    rng.shuffle(perm_b)
    scales_b, trans_b = [None] * n, [None] * n
    for i in range(n):                       # numpy world axis i of B ↔ numpy world axis pairing[i] of A
        wb, wa = n - 1 - i, n - 1 - pairing[i]
        c = q_of(rng.choice([1, 1, 1, -1, 2, [1, 2]]))
        size_b = shapes[1][n - 1 - perm_b[wb]]
        off = q_of(rng.choice([size_b - 1, size_b - 1, Fraction(2 * size_b - 1, 2)])) if c < 0 else q_of(rng.choice(OFFSETS))
        scales_b[wb] = scales_a[wa] * c
        trans_b[wb] = trans_a[wa] - scales_b[wb] * off
    ds = []
    for base, shape, perm, scales, trans in ((10, shapes[0], perm_a, scales_a, trans_a),
                                             (100, shapes[1], perm_b, scales_b, trans_b)):
        m = perm_matrix(n, perm, [q_enc(x) for x in scales], [q_enc(x) for x in trans])
        if coupled and n >= 2 and base == 10:
            # world 0 also depends on the pixel axis of world 1: a triangular block (dyadic inverse)
            m[0][perm[1]] = rng.choice([1, -1, 2])
        d = mk_ds(shape, 2, rng, base)
        d["coords"] = m
        ds.append(d)
    cw = {"ds": ds, "links": [["world", 0, 1, pairing]], "states": []}
    cw["states"] = std_states(cw, rng)
    return cw


def rand_bound(size, rng, force=None):
    kind = force or rng.choice(["s", "s", "r", "r", "r"])
    if kind == "s":
        return ["s", rng.choice([rng.randint(0, max(0, size - 1)), rng.randint(-2, size + 1),
                                 q_enc(Fraction(rng.randint(-3, 2 * size + 1), 2)),
                                 q_enc(Fraction(rng.randint(-4, 4 * size + 4), 4))])]
    n = rng.choice([1, 2, 3, 3, 4, 5])
    step = rng.choice([1, 1, 1, 2, -1, [1, 2], [1, 2], [1, 4], [3, 2], 0])
    lo = rng.choice([0, 0, -1, [-1, 2], [1, 2], 1, size - 1, -3, size, [1, 4]])
    hi = q_of(lo) + q_of(step) * (n - 1)
    if rng.random() < 0.03:
        n = rng.choice([0, -1])
    return ["r", q_enc(q_of(lo)), q_enc(hi), n]


def full_bound(size):
    return ["r", 0, size - 1, size]


def rand_bounds(cw, t, rng):
    return [rand_bound(s, rng) for s in cw["ds"][t]["shape"]]


def rand_what(cw, d, rng, allow_foreign=True):
    r = rng.random()
    nds = len(cw["ds"])
    if r < 0.45:
        ds = d if (not allow_foreign or rng.random() < 0.93) else rng.randrange(nds)
        return ["c", ds, rng.randrange(len(cw["ds"][ds]["comps"]) + (1 if rng.random() < 0.02 else 0))]
    if r < 0.55:
        return ["px", d, rng.randrange(len(cw["ds"][d]["shape"]))]
    # selection objects of dataset d are states[5d .. 5d+4]; rarely one of another dataset;
    # the last two are valid on every dataset they fit in
    if rng.random() < 0.25:
        return ["st", 5 * nds + rng.randrange(2)]
    ds = d if (not allow_foreign or rng.random() < 0.93) else rng.randrange(nds)
    sid = 5 * ds + rng.randrange(5)
    e = cw["states"][sid]
    if ds != d and has_pr(e):
        sid = 5 * ds  # pixel-range states are only evaluated on their own dataset (see design.md)
    return ["st", sid]


def has_pr(e):
    if e[0] == "elems":
        return False
    return e[0] == "pr" or any(isinstance(x, list) and x and isinstance(x[0], str) and has_pr(x) for x in e[1:] if isinstance(x, list))


def rand_req(cw, rng, cid=None, pair=None):
    nds = len(cw["ds"])
    if pair is None:
        d = rng.randrange(nds)
        t = rng.randrange(nds) if rng.random() < 0.8 else d
    else:
        d, t = pair
    bounds = rand_bounds(cw, t, rng)
    if rng.random() < 0.02:   # wrong number of bounds (never an empty list: that is an IndexError in meshgrid)
        bounds = bounds[:-1] if (rng.random() < 0.5 and len(bounds) > 1) else bounds + [["s", 0]]
    return ["req", d, bounds, t, rand_what(cw, d, rng), rng.random() < 0.8, cid]


def worlds_stream(tier, rng):
    quick = tier == "quick"
    # structured part: every (target ndim, source ndim, link kind)
    for nd in (1, 2, 3):
        yield world_self(rng, nd)
    for tn, sn in itertools.product((1, 2, 3), repeat=2):
        for kind in ("same", "aff"):
            yield world_pair(rng, tn, sn, kind)
    for n in (1, 2, 3):
        yield world_wcs(rng, n)
    yield world_wcs(rng, 2, coupled=True)
    yield world_wcs(rng, 3, coupled=True)
    yield world_lin(rng)
    yield world_pair(rng, third=True)
    yield world_twins(rng)
    k = 170 if quick else 1100
    for _ in range(k):
        r = rng.random()
        if r < 0.1:
            yield world_self(rng)
        elif r < 0.55:
            yield world_pair(rng)
        elif r < 0.7:
            yield world_pair(rng, third=True)
        elif r < 0.82:
            yield world_wcs(rng, coupled=rng.random() < 0.3)
        elif r < 0.92:
            yield world_twins(rng)
        else:
            yield world_lin(rng)


# ------------------------------------------------------------------------------------------
# round 2: the fine ladder (scale-dependent tolerances, approximate / lossy cache keys)
# ------------------------------------------------------------------------------------------
#
# A fine world: reference dataset 0 (the frame of the bounds), source dataset 1; source axis k hangs
# on reference axis p_k through   pos_k = a_k * x + b_k,   a_k = 2^e_k,   b_k = (j_k + 1/2) - a_k * M_k,
# i.e. the reference coordinate M_k (of any magnitude) is linked to the source position j_k + 1/2,
# exactly between the source pixels j_k and j_k + 1 (j = -1 / size-1: the edge of the source).
# A bound component  x = M + (c - j - 1/2)/a  samples the source position c;  x +- delta  moves the
# sample by  a * delta  (<= 1/4 pixel).  cw["fine"]["map"]["t,d"] = per source axis of d
# [reference axis, a, M, j, size] for the dataset pairs whose requests are built this way.

RUNGS = ["ulp", "pulp", 1e-12, 1e-9, 1e-7, 1e-5, 1e-3, "a8", "a12"]
JD = Fraction(4918001, 2)                        # 2459000.5
MAGS = [Fraction(3), Fraction(5, 4), Fraction(10 ** 5), JD, Fraction(10 ** 9), Fraction(3, 2 ** 21),
        Fraction(1, 2 ** 20), -JD, Fraction(0)]
MAGS_THOROUGH = [Fraction(1, 2), Fraction(10 ** 15), Fraction(-3), Fraction(2 ** 40), Fraction(float(1e-6)),
                 Fraction(float(0.1)), Fraction(float(2459000.5 + 1e-5))]


def is_double(fr):
    try:
        return Fraction(float(fr)) == fr
    except OverflowError:
        return False


def ulp_of(fr):
    return Fraction(math.ulp(float(fr)))


def fine_delta(x, a, rung, rng, h=Fraction(1, 2)):
    """an exact positive step for the float component `x` on rung `rung` (None: not applicable)"""
    if rung == "ulp":
        return ulp_of(x) if x != 0 else None
    if rung == "pulp":                            # one ulp of the linked position h
        return ulp_of(h) / abs(a)
    if rung in ("a8", "a12"):                     # absolute steps below 1e-8 / 1e-12, near zero
        if abs(x) > 4:
            return None
        return Fraction(1, 2 ** 27) if rung == "a8" else Fraction(1, 2 ** 40)
    if x == 0:
        return None
    d = Fraction(2) ** math.floor(math.log2(abs(float(x)) * rung))
    if rng.random() < 0.3:                        # not a power of two: what `x * (1 + r)` gives
        y = Fraction(float(x) * (1 + rung))
        if y != x:
            d = abs(y - x)
    return d


def pick_exponent(delta, rng, lim=30):
    """e with 2^-45 <= 2^e * delta <= 1/4 and |e| <= lim (None if there is none)"""
    lg = math.log2(float(delta))
    lo, hi = max(-lim, math.ceil(-45 - lg)), min(lim, math.floor(-2 - lg))
    if lo > hi:
        return None
    return rng.choice([hi, hi, rng.randint(lo, hi), 0 if lo <= 0 <= hi else hi, max(lo, hi - 3)])


def world_fine(rng, specs, extra=0, chain=None, twin=None):
    """specs = per source axis (e, M, j, size); `extra` unlinked (broadcast) reference axes;
    chain = per axis of a third dataset hanging on dataset 1 (e2, j2, size2);
    twin = ("b" | "a", k, step): a third dataset with the SAME shape and values as dataset 1 whose link
    on axis k has the offset (scale) moved by `step`."""
    sn = len(specs)
    tn = sn + extra
    axes = list(range(tn))
    rng.shuffle(axes)
    ds = [mk_ds(rand_shape(tn, rng), 2, rng, 10), mk_ds([sp[3] for sp in specs], 2, rng, 100)]
    links, m01, m11 = [], [], []
    for k, (e, M, j, size) in enumerate(specs):
        a = Fraction(2) ** e
        h = Fraction(2 * j + 1, 2)
        b = h - a * M
        if not is_double(b):
            return None
        links.append(["aff", 0, axes[k], 1, k, q_enc(a), q_enc(b)])
        m01.append([axes[k], q_enc(a), q_enc(M), j, size])
        m11.append([k, 1, q_enc(h), j, size])
    maps = {"0,1": m01, "1,1": m11}
    fine = {"map": maps}
    if chain:
        ds.append(mk_ds([c[2] for c in chain], 1, rng, 200))
        m02, m12 = [], []
        for k, (e2, j2, size2) in enumerate(chain):
            a2 = Fraction(2) ** e2
            h1, h2 = q_of(m11[k][2]), Fraction(2 * j2 + 1, 2)
            b2 = h2 - a2 * h1
            if not is_double(b2):
                return None
            links.append(["aff", 1, k, 2, k, q_enc(a2), q_enc(b2)])
            m02.append([m01[k][0], q_enc(q_of(m01[k][1]) * a2), m01[k][2], j2, size2])
            m12.append([k, q_enc(a2), q_enc(h1), j2, size2])
        maps["0,2"], maps["1,2"] = m02, m12
    if twin:
        kind, k0, step = twin
        d2 = {"shape": list(ds[1]["shape"]), "comps": [list(c) for c in ds[1]["comps"]], "coords": None}
        ds.append(d2)
        for k in range(sn):
            l = list(links[k])
            l[3] = 2
            if k == k0:
                if kind == "b":
                    l[6] = q_enc(q_of(l[6]) + step)
                else:
                    l[5] = q_enc(q_of(l[5]) * (1 + step))
                if not (is_double(q_of(l[5])) and is_double(q_of(l[6]))):
                    return None
            links.append(l)
        fine["twin"] = True
    cw = {"ds": ds, "links": links, "states": [], "fine": fine}
    cw["states"] = std_states(cw, rng)
    return cw


def xof(ent, c):
    """the reference coordinate linked to source position c"""
    a, M, j = q_of(ent[1]), q_of(ent[2]), ent[3]
    return M + (Fraction(c) - Fraction(2 * j + 1, 2)) / a


def halves(size):
    return [Fraction(2 * h + 1, 2) for h in range(-1, size)]


def fine_axis_bound(ent, rng, kind=None, at=None):
    """a bound on a linked reference axis whose samples sit on pixel centres / pixel boundaries of the
    source;  returns (bound, [(component index, source position)])  or None"""
    size = ent[4]
    hs = halves(size)
    pos = lambda: rng.choice(hs) if rng.random() < 0.7 else Fraction(rng.randint(-1, size))
    kind = kind or rng.choice(["s", "s", "r", "r", "r"])
    if kind == "s":
        c = pos() if at is None else at
        x = xof(ent, c)
        return (["s", q_enc(x)], [(1, c)]) if is_double(x) else None
    n = rng.choice([1, 2, 2, 3, 3, 5, 4, 6])
    step = q_of(rng.choice([1, 1, [1, 2], 2, -1, [1, 4], 0]))
    c0 = pos() if at is None else at
    c1 = c0 + step * (n - 1) if n > 1 else (c0 + step)
    lo, hi = xof(ent, c0), xof(ent, c1)
    if not (is_double(lo) and is_double(hi)):
        return None
    return ["r", q_enc(lo), q_enc(hi), n], [(1, c0), (2, c1)]


def fine_bounds(cw, t, ents, rng):
    """(bounds on frame t, [(axis, component index, source position, entry)] of the float components)"""
    tshape = cw["ds"][t]["shape"]
    bounds = [rand_bound(sz, rng) for sz in tshape]
    for b in bounds:
        if b[0] == "r" and b[3] < 1:
            b[3] = 1
    comps = []
    for ent in ents:
        fb = fine_axis_bound(ent, rng)
        if fb is None:
            fb = (["s", ent[2]], [(1, Fraction(2 * ent[3] + 1, 2))])
        bounds[ent[0]] = fb[0]
        comps.extend((ent[0], ci, c, ent) for ci, c in fb[1])
    return bounds, comps


def with_comp(bounds, axis, ci, x):
    b = list(bounds[axis])
    b[ci] = q_enc(x)
    return bounds[:axis] + [b] + bounds[axis + 1:]


def eval_pair(cw, t, d, bounds):
    """per source axis of d: (positions by numpy doubles - the grid built like the function under test
    builds it, the links applied like `Built` writes them -, positions by exact rationals); None if the
    pair is not derivable through pixel / affine links"""
    tn = len(cw["ds"][t]["shape"])
    if len(bounds) != tn or any(b[0] == "r" and b[3] < 1 for b in bounds):
        return None
    chosen = discover(cw, t, abstract_links(cw)) if d != t else {}
    fax = [np.linspace(*bound_py(b)) if b[0] == "r" else bound_py(b) for b in bounds]
    fgrid = np.meshgrid(*fax, indexing='ij', copy=False)
    eax = []
    for b in bounds:
        if b[0] == "s":
            eax.append([q_of(b[1])])
        else:
            lo, hi, n = q_of(b[1]), q_of(b[2]), b[3]
            eax.append([lo if n <= 1 else lo + k * ((hi - lo) / (n - 1)) for k in range(n)])
    egrid = list(itertools.product(*eax))

    def ev(node, fuel=8):
        if node[0] == "p" and node[1] == t:
            return fgrid[node[2]], [pt[node[2]] for pt in egrid]
        if node not in chosen or fuel == 0 or chosen[node][4] is None:
            raise KeyError(node)
        ins, _, coefs, c, fn = chosen[node]
        sub = [ev(i, fuel - 1) for i in ins]
        fv = fn(*[s_[0] for s_ in sub])
        evs = [c + sum(co * s_[1][m] for co, s_ in zip(coefs, sub)) for m in range(len(egrid))]
        return fv, evs
    out = []
    try:
        for k in range(len(cw["ds"][d]["shape"])):
            fv, evs = ev(("p", d, k))
            out.append((np.broadcast_to(np.asarray(fv, dtype=float), fgrid[0].shape).ravel(), evs))
    except KeyError:
        return None
    return out


def req_doubles(req):
    return all(is_double(q_of(v)) for b in req[2] for v in b[1:3 if b[0] == "r" else 2])


def exact_ok(cw, req):
    """double arithmetic sends every sample of the request to the same source pixel as exact rational
    arithmetic does (this is what makes the exact Lean model the reference for these inputs)"""
    _, d, bounds, t = req[:4]
    with np.errstate(all="ignore"):
        res = eval_pair(cw, t, d, bounds)
    if res is None:
        return False
    for fv, evs in res:
        if not np.all(np.isfinite(fv)) or np.any(np.abs(fv) > 2.0 ** 50):
            return False
        if [int(v) for v in np.round(fv)] != [round(e) for e in evs]:   # both round half to even
            return False
    return True


def fine_whats(cw, d, rng):
    nds = len(cw["ds"])
    out = [["c", d, 0], ["c", d, 0], ["c", d, 0], ["px", d, 0], ["st", 5 * d + 2], ["st", 5 * d]]
    if len(cw["ds"][d]["comps"]) > 1:
        out.append(["c", d, 1])
    out.append(["st", 5 * nds + 1])
    return out


def ladder_specs(rng, M, rung, offs=0, sn=1, lim=30):
    """specs for `world_fine` whose axis 0 has its pixel boundary at M + offs*delta (delta = the rung's
    step at M); None if the rung does not apply at M"""
    size = rng.randint(2, 4)
    j = rng.randint(-1, size - 1)
    d0 = fine_delta(M, 1, rung, rng, Fraction(2 * j + 1, 2)) if rung != "pulp" else Fraction(1, 2 ** 30)
    if d0 is None:
        return None
    e = pick_exponent(d0, rng, lim)
    if e is None:
        return None
    if rung == "pulp":     # x + ulp(h)/a must be a double: |a*M| below 1 (any scale at M = 0)
        if M == 0:
            e = rng.choice([0, 0, 1, -1, 3, -3, 10, -10, 20, -20, 30, -30])
        else:
            emax = -math.ceil(math.log2(abs(float(M)))) - 1
            e = rng.choice([emax, emax - 2, emax - 10])
            if abs(e) > lim:
                return None
    Mb = M + offs * d0
    if not is_double(Mb):
        return None
    specs = [(e, Mb, j, size)]
    for _ in range(sn - 1):
        sz = rng.randint(1, 3)
        M2 = rng.choice([Fraction(1, 2), Fraction(3, 2), JD, Fraction(10 ** 5), Fraction(-7, 4)])
        specs.append((rng.choice([0, 0, 1, -1, 2]), M2, rng.randint(-1, sz - 1), sz))
    return specs


def fine_worlds(tier, rng, reps=1):
    """(world, rung, delta at axis 0's boundary, boundary offset)"""
    quick = tier == "quick"
    mags = MAGS if quick else MAGS + MAGS_THOROUGH
    for _ in range(reps):
        for M in mags:
            for rung in RUNGS:
                for offs in ((0, rng.choice([-1, 1])) if quick else (0, -1, 1)):
                    sn = rng.choice([1, 1, 2])
                    specs = ladder_specs(rng, M, rung, offs, sn, 30 if quick else rng.choice([30, 60]))
                    if specs is None:
                        continue
                    r = rng.random()
                    chain = twin = None
                    if r < 0.15:
                        chain = [(rng.choice([0, 1, -1, 2, -2]), rng.randint(-1, 2), 3)]
                    cw = world_fine(rng, specs, extra=rng.choice([0, 0, 1]), chain=chain, twin=twin)
                    if cw is None or deriv_table(cw) is None:
                        continue
                    yield cw, rung, offs


def scale_offset_worlds(tier, rng):
    """the magnitude / offset ladder of the `frb` family: scales 2^-30 .. 2^30 against link offsets of
    size 0, 2^10 .. 2^40 (b = j + 1/2 - a*M)"""
    quick = tier == "quick"
    es = [-30, -20, -10, -3, -1, 0, 1, 3, 10, 20, 30]
    for e in es:
        for L in (None, 10, 20, 30, 40):
            for sign in ((rng.choice([1, -1]),) if quick else (1, -1)):
                M = Fraction(0) if L is None else sign * Fraction(2) ** (L - e) * rng.choice([1, Fraction(3, 2), Fraction(5, 4)])
                size = rng.randint(2, 4)
                specs = [(e, M, rng.randint(-1, size - 1), size)]
                if rng.random() < 0.4:
                    sz = rng.randint(1, 3)
                    specs.append((rng.choice(es), rng.choice([Fraction(3, 2), JD, Fraction(2) ** 33, Fraction(0)]),
                                  rng.randint(-1, sz - 1), sz))
                chain = None
                if rng.random() < 0.3:
                    chain = [(rng.choice([-e, -e, 0, 1, -1]) if abs(e) <= 30 else 0, rng.randint(-1, 2), 3)]
                cw = world_fine(rng, specs, extra=rng.choice([0, 0, 1]), chain=chain)
                if cw is not None and deriv_table(cw) is not None:
                    yield cw


def fine_single_reqs(cw, rng, count):
    """single requests whose samples sit on half-integer source positions and one step on either side
    (step = 1 ulp of the bound, 1 ulp of the position, or a ladder rung)"""
    pairs = sorted(cw["fine"]["map"])
    out, tries = [], 0
    while len(out) < count and tries < 6 * count:
        tries += 1
        key = rng.choice(pairs)
        t, d = (int(v) for v in key.split(","))
        ents = cw["fine"]["map"][key]
        bounds, comps = fine_bounds(cw, t, ents, rng)
        for axis, ci, c, ent in comps:
            tt = rng.choice([-1, 0, 1, 1, -1])
            if tt == 0:
                continue
            x = q_of(bounds[axis][ci])
            dl = fine_delta(x, q_of(ent[1]), rng.choice(["ulp", "ulp", "pulp", "pulp", 1e-12, 1e-9, "a8", "a12"]), rng,
                            c if c != 0 else Fraction(1, 2))
            if dl is None or not is_double(x + tt * dl):
                continue
            bounds = with_comp(bounds, axis, ci, x + tt * dl)
        req = ["req", d, bounds, t, rng.choice(fine_whats(cw, d, rng)), rng.random() < 0.85, None]
        if exact_ok(cw, req):
            out.append(req)
    return out


SCHEDULES = [[-1, 1], [1, -1], [-1, 1, -1], [0, 1, 0, -1], [-1, 0, 1, -1], [1, -1, 1], [-1, 1, 1, -1], [0, -1, 1, 0],
             [-1, 1, 2, -1], [1, 0, -1, -2]]


def fine_history(cw, rng, rung):
    """a request history under one cache id in which ONE float component of the request walks over
    x + t*delta (t from a schedule) across a pixel boundary of the source; None if not constructible"""
    f = cw["fine"]
    keys = sorted(f["map"])
    key = rng.choice([k for k in keys if k != "1,1"] * 3 + ["1,1"]) if rung not in ("a8", "a12") else rng.choice(keys)
    t, d = (int(v) for v in key.split(","))
    ents = f["map"][key]
    bounds, comps = fine_bounds(cw, t, ents, rng)
    # the active component: on axis 0 of the source (the one the world was built for), at the boundary
    ent = ents[0]
    h = Fraction(2 * ent[3] + 1, 2)
    mode = rng.choice(["s", "s", "lo", "hi", "pan", "n1"])
    fb = fine_axis_bound(ent, rng, "s" if mode == "s" else "r", at=h)
    if fb is None:
        return None
    b = fb[0]
    if mode == "hi":        # the LAST sample sits on the boundary
        if b[3] == 1:
            b[3] = 2
        b = ["r", q_enc(xof(ent, h - 1)), b[1], b[3]]
    if mode == "n1":        # one sample: `hi` is part of the key and irrelevant for the answer
        b = ["r", b[1], b[2], 1]
    if not is_double(q_of(b[1])) or (b[0] == "r" and not is_double(q_of(b[2]))):
        return None
    bounds[ent[0]] = b
    x0 = q_of(b[2] if mode == "hi" else b[1])
    dl = fine_delta(x0, q_of(ent[1]), rung, rng, h)
    if dl is None:
        return None
    what = rng.choice(fine_whats(cw, d, rng)[:3] + fine_whats(cw, d, rng))
    sched = rng.choice(SCHEDULES)
    ops = []
    for i, tt in enumerate(sched):
        bb = list(b)
        if mode in ("s", "lo", "n1"):
            bb[1] = q_enc(q_of(b[1]) + tt * dl)
        elif mode == "hi":
            bb[2] = q_enc(q_of(b[2]) + tt * dl)
        else:
            bb[1], bb[2] = q_enc(q_of(b[1]) + tt * dl), q_enc(q_of(b[2]) + tt * dl)
        if not all(is_double(q_of(v)) for v in bb[1:3 if bb[0] == "r" else 2]):
            return None
        bs = bounds[:ent[0]] + [bb] + bounds[ent[0] + 1:]
        w = what
        if i > 0 and rng.random() < 0.25:        # ARRAY_CACHE misses for another reason: PIXEL_CACHE is asked
            w = rng.choice(fine_whats(cw, d, rng))
        dd = d
        if f.get("twin") and d == 1 and rng.random() < 0.5:
            dd = 2
            w = [w[0], 2] + w[2:] if w[0] in ("c", "px") else (["st", 10 + w[1] % 5] if w[1] < 15 else w)
        req = ["req", dd, bs, t, w, True, 0]
        if not exact_ok(cw, req):
            return None
        ops.append(req)
    return ops


def retype_history(cw, rng, rung):
    """integer-valued bounds passed as Python ints and as floats (5 == 5.0, same hash: the same key),
    then moved by the rung; and the number of samples n -> n +- 1 between identical (lo, hi)"""
    f = cw["fine"]
    ent = f["map"]["0,1"][0]
    h = Fraction(2 * ent[3] + 1, 2)
    bounds, _ = fine_bounds(cw, 0, f["map"]["0,1"], rng)
    x = xof(ent, h)
    ops = []
    if x.denominator == 1 and rng.random() < 0.6:
        dl = fine_delta(x, q_of(ent[1]), rung, rng, h)
        if dl is None or not (is_double(x + dl) and is_double(x - dl)):
            return None
        if rng.random() < 0.5:
            seq_ = [["s", int(x), "i"], ["s", int(x)], ["s", q_enc(x + dl)], ["s", int(x), "i"], ["s", q_enc(x - dl)]]
        else:
            x1 = xof(ent, h + 1)
            if x1.denominator != 1:
                return None
            seq_ = [["r", int(x), int(x1), 2, "i"], ["r", q_enc(x + dl), int(x1), 2], ["r", int(x), int(x1), 2],
                    ["r", q_enc(x - dl), int(x1), 2], ["r", int(x), int(x1), 2, "i"]]
    else:
        n = rng.choice([2, 3, 5])
        lo, hi = xof(ent, h), xof(ent, h + rng.choice([1, 2]))
        if not (is_double(lo) and is_double(hi)):
            return None
        seq_ = [["r", q_enc(lo), q_enc(hi), m] for m in (n, n + 1, n, n - 1, n + 1)]
    rng.shuffle(seq_) if rng.random() < 0.3 else None
    what = rng.choice(fine_whats(cw, 1, rng))
    for b in seq_[:rng.randint(3, 5)]:
        req = ["req", 1, bounds[:ent[0]] + [b] + bounds[ent[0] + 1:], 0, what, True, 0]
        if not exact_ok(cw, req):
            return None
        ops.append(req)
    return ops


def twin_worlds(tier, rng):
    """two sources with equal shape AND equal values whose links differ by one rung in the offset or in
    the scale: requests that differ only in the identity of `data`"""
    quick = tier == "quick"
    for M in (MAGS if quick else MAGS + MAGS_THOROUGH):
        for rung in ("ulp", 1e-12, 1e-9, 1e-5) if quick else ("ulp", 1e-12, 1e-9, 1e-7, 1e-5, 1e-3):
            specs = ladder_specs(rng, M, rung, 0, 1)
            if specs is None:
                continue
            e, Mb, j, size = specs[0]
            a = Fraction(2) ** e
            b = Fraction(2 * j + 1, 2) - a * Mb
            if rng.random() < 0.6 or Mb == 0:
                db = fine_delta(b, 1, rung, rng) if b != 0 else Fraction(1, 2 ** 30)
                if db is None or db > Fraction(1, 4):
                    db = ulp_of(b) if b != 0 else Fraction(1, 2 ** 30)
                twin = ("b", 0, rng.choice([1, -1]) * db)
            else:
                lg = math.floor(math.log2(float(abs(a * Mb)))) + 3
                twin = ("a", 0, rng.choice([1, -1]) * Fraction(1, 2 ** max(lg, 1)))
            cw = world_fine(rng, specs, extra=rng.choice([0, 1]), twin=twin)
            if cw is not None and deriv_table(cw) is not None:
                yield cw, rung


# ------------------------------------------------------------------------------------------
# round 3: argument object identity
# ------------------------------------------------------------------------------------------
#
#   ["asg", oid, bounds]                 oid is new: `obj = [...]`; oid exists: `obj[:] = [...]` (in place)
#   ["reqo", d, oid, t, what, bc, cid]   the request passes the list OBJECT oid as `bounds`
#   ["set", oid, i, bound]               obj[i] = bound        (a scalar, or a replaced tuple)
#   ["push", oid, bound] / ["pop", oid]  obj.append(bound) / obj.pop()
#   ["edbuf", k, v]                      buf[...] = v on the array returned by the k-th request
# A "req" with inline bounds passes a list built for that call (what every history did before).

ARG_OPS = ("asg", "reqo", "set", "push", "pop", "edbuf")
FILL_VALUES = [-77, 0, 1]


def is_arg_history(ops):
    return any(o[0] in ARG_OPS for o in ops)


def valid_args(ops):
    """every request names an existing non-empty list, `set` stays in range, `pop` leaves an element,
    `edbuf` names an earlier request (what the generators guarantee; the shrinker must keep it)"""
    lens, nreq = {}, 0
    for o in ops:
        k = o[0]
        if k == "asg":
            if len(o[2]) < 1:
                return False
            lens[o[1]] = len(o[2])
        elif k == "reqo":
            if lens.get(o[2], 0) < 1:
                return False
            nreq += 1
        elif k == "req":
            nreq += 1
        elif k == "set":
            if not (o[1] in lens and 0 <= o[2] < lens[o[1]]):
                return False
        elif k == "push":
            if o[1] not in lens:
                return False
            lens[o[1]] += 1
        elif k == "pop":
            if lens.get(o[1], 0) < 2:
                return False
            lens[o[1]] -= 1
        elif k == "edbuf":
            if not (0 <= o[1] < nreq):
                return False
    return True


def arg_history(cw, rng, maxlen, pair=None):
    """one (or two) caller-owned bounds lists, edited in place between requests under one cache id and
    submitted again: the slicing loop `b[i] = k`, a replaced tuple, append / pop (restored), `b[:] = ...`,
    an equal fresh copy in another object, an edited result buffer, another attribute (ARRAY_CACHE misses
    for another reason: PIXEL_CACHE alone is asked)."""
    nds = len(cw["ds"])
    if pair is None:
        d = rng.randrange(nds)
        t = d if rng.random() < 0.5 else rng.randrange(nds)
    else:
        d, t = pair
    tshape = cw["ds"][t]["shape"]
    cur = {0: [rand_bound(sz, rng, "s" if rng.random() < 0.5 else "r") for sz in tshape]}
    for b in cur[0]:
        if b[0] == "r" and b[3] < 1:
            b[3] = 1
    what = rand_what(cw, d, rng, allow_foreign=False)
    bc = rng.random() < 0.85
    cid = 0
    ops = [["asg", 0, [list(b) for b in cur[0]]], ["reqo", d, 0, t, what, bc, cid]]
    obj, nreq, nxt = 0, 1, 1
    for _ in range(rng.randint(1, max(1, maxlen - 2))):
        r = rng.random()
        n = len(cur[obj])
        if r < 0.40:                                           # slicing: another scalar at one position
            i = rng.randrange(n)
            sz = tshape[i] if i < len(tshape) else 2
            # a scalar stays a scalar most of the time (the loop over slices)
            scal = [j for j in range(n) if cur[obj][j][0] == "s"]
            if scal and rng.random() < 0.8:
                i = rng.choice(scal)
                sz = tshape[i] if i < len(tshape) else 2
            b = rand_bound(sz, rng, "s")
            cur[obj][i] = b
            ops.append(["set", obj, i, list(b)])
        elif r < 0.55:                                         # a replaced tuple / scalar <-> range
            i = rng.randrange(n)
            b = rand_bound(tshape[i] if i < len(tshape) else 2, rng)
            if b[0] == "r" and b[3] < 1:
                b[3] = 1
            cur[obj][i] = b
            ops.append(["set", obj, i, list(b)])
        elif r < 0.67:                                         # append, (ask), pop: restored
            b = rand_bound(2, rng, "s")
            ops.append(["push", obj, list(b)])
            if rng.random() < 0.5:
                ops.append(["reqo", d, obj, t, what, bc, cid])
                nreq += 1
            ops.append(["pop", obj])
        elif r < 0.75:                                         # b[:] = [...]  (same object, new contents)
            new = [rand_bound(sz, rng, b0[0]) for sz, b0 in zip(tshape, cur[obj])] if len(cur[obj]) == len(tshape) else \
                [rand_bound(sz, rng) for sz in tshape]
            for b in new:
                if b[0] == "r" and b[3] < 1:
                    b[3] = 1
            cur[obj] = new
            ops.append(["asg", obj, [list(b) for b in new]])
        elif r < 0.85:                                         # an equal fresh copy / the other object
            if len(cur) < 2 or rng.random() < 0.5:
                other = nxt
                nxt += 1
                cur[other] = [list(b) for b in cur[obj]]
                ops.append(["asg", other, [list(b) for b in cur[other]]])
            else:
                other = rng.choice([o for o in cur if o != obj])
            obj = other
        elif r < 0.93:                                         # the caller edits a returned buffer in place
            ops.append(["edbuf", rng.randrange(nreq) if rng.random() < 0.3 else nreq - 1, rng.choice(FILL_VALUES)])
        else:                                                  # another attribute / selection
            what = rand_what(cw, d, rng, allow_foreign=False)
        if rng.random() < 0.08:
            ops.append(["req", d, [list(b) for b in cur[obj]], t, what, bc, cid])     # a list built for the call
        else:
            ops.append(["reqo", d, obj, t, what, bc, cid])
        nreq += 1
    return ops


def slice_loop_history(cw, rng, d, t):
    """`for k in ...: bounds[i] = k; frb(..., bounds, cache_id=...)` over one scalar position"""
    tshape = cw["ds"][t]["shape"]
    bounds = [full_bound(sz) if rng.random() < 0.7 else rand_bound(sz, rng, "r") for sz in tshape]
    for b in bounds:
        if b[0] == "r" and b[3] < 1:
            b[3] = 1
    i = rng.randrange(len(tshape))
    ks = list(range(tshape[i]))
    rng.shuffle(ks)
    ks = ks[:rng.randint(2, 4)] if len(ks) >= 2 else [0, 1]
    bounds[i] = ["s", ks[0]]
    what = rng.choice([["c", d, 0], ["c", d, 0], ["st", 5 * d], ["px", d, 0]])
    ops = [["asg", 0, [list(b) for b in bounds]]]
    for k in ks:
        ops.append(["set", 0, i, ["s", k]])
        ops.append(["reqo", d, 0, t, what, True, 0])
    return ops


def shrink_world_req(cw, reqs):
    """smaller datasets are hard to do generically (bounds refer to sizes): shrink requests only"""
    return iter(())


class _Base(Family):
    _built = (None, None)

    def reset(self):
        FRB.ARRAY_CACHE.clear()
        FRB.PIXEL_CACHE.clear()

    def built(self, cw, fresh=False):
        key = json.dumps(cw, sort_keys=True)
        if fresh or type(self)._built[0] != key:
            type(self)._built = (None, None)
            gc.collect()
            type(self)._built = (key, Built(cw))
        return type(self)._built[1]


def answer_kind(po):
    if isinstance(po, list) and po and po[0] == "ok":
        return "ok"
    return po if isinstance(po, str) else "other"


class Single(_Base):
    """One request without a cache id: pointwise nearest-pixel resampling."""
    name = "frb"
    batch = 150
    budget_share = 1.0

    def cases(self, tier, rng):
        quick = tier == "quick"
        # round 2: sample positions on half-integers and one step on either side, source frames related
        # to the reference by scales 2^-30 .. 2^30 and offsets up to 2^40; then the magnitude ladder
        for cw in scale_offset_worlds(tier, rng):
            for req in fine_single_reqs(cw, rng, 8 if quick else 16):
                yield [cw, req]
        for cw, _, _ in fine_worlds(tier, rng):
            for req in fine_single_reqs(cw, rng, 3 if quick else 6):
                yield [cw, req]
        for cw in worlds_stream(tier, rng):
            if deriv_table(cw) is None:
                continue
            nds = len(cw["ds"])
            pairs = [(d, t) for d in range(nds) for t in range(nds)]
            table = deriv_table(cw)
            for d, t in pairs:
                # the whole reference grid, then seeded bounds
                full = [full_bound(s) for s in cw["ds"][t]["shape"]]
                yield [cw, ["req", d, full, t, ["c", d, 0], True, None]]
                underivable = d != t and any(e[0] == t and e[1] == d and "missing" in json.dumps(e[3]) for e in table)
                for _ in range(1 if underivable else (4 if quick else 8)):
                    yield [cw, rand_req(cw, rng, None, (d, t))]

    def run_impl(self, case):
        cw, req = case
        return run_request(self.built(cw), req)

    def line(self, case, pyout):
        cw, req = case
        return sx(["frb", [world_sx(cw), req_sx(req)], pyout])

    def nontrivial(self, case, po):
        return case[1][1] != case[1][3] and answer_kind(po) == "ok"

    def signature(self, case, pyout, res):
        return {"construct": "single", "answer": answer_kind(pyout)}

    def shrink(self, case):
        cw, _ = case
        for c2 in self._shrink(case):
            # fine-ladder cases: stay inside the inputs on which doubles and rationals agree
            if "fine" not in cw or (req_doubles(c2[1]) and exact_ok(cw, c2[1])):
                yield c2

    def _shrink(self, case):
        cw, req = case
        bounds = req[2]
        for i, b in enumerate(bounds):
            if b[0] == "r" and b[3] > 1:
                nb = ["r", b[1], q_enc(q_of(b[1]) + (q_of(b[2]) - q_of(b[1])) / (b[3] - 1) * (b[3] - 2)), b[3] - 1]
                yield [cw, req[:2] + [bounds[:i] + [nb] + bounds[i + 1:]] + req[3:]]
            if b[0] == "r" and b[3] == 1:
                yield [cw, req[:2] + [bounds[:i] + [["s", b[1]]] + bounds[i + 1:]] + req[3:]]
        if req[4][0] != "c":
            yield [cw, req[:4] + [["c", req[1], 0]] + req[5:]]


def mutate_req(cw, req, rng, cids):
    """the next request of a history: a small variation of the previous one"""
    _, d, bounds, t, what, bc, cid = req
    bounds = [list(b) for b in bounds]
    nds = len(cw["ds"])
    r = rng.random()
    tshape = cw["ds"][t]["shape"]
    if r < 0.12:
        pass                                              # the same request again
    elif r < 0.40 and bounds:                             # another scalar on one axis (slicing)
        i = rng.randrange(len(bounds))
        bounds[i] = rand_bound(tshape[i] if i < len(tshape) else 2, rng, "s")
    elif r < 0.55 and bounds:                             # another range / scalar ↔ range
        i = rng.randrange(len(bounds))
        bounds[i] = rand_bound(tshape[i] if i < len(tshape) else 2, rng)
    elif r < 0.60 and bounds:                             # scalar s ↔ the one-sample range (s, s, 1)
        i = rng.randrange(len(bounds))
        b = bounds[i]
        bounds[i] = ["r", b[1], b[1], 1] if b[0] == "s" else ["s", b[1]]
    elif r < 0.66 and nds > 2:                            # the same request on / in the frame of a twin
        twins = [j for j in range(nds) if j != d and cw["ds"][j]["shape"] == cw["ds"][d]["shape"]]
        if twins:
            d2 = rng.choice(twins)
            if what[0] in ("c", "px") and what[1] == d:
                what = [what[0], d2, what[2]]
            elif what[0] == "st" and what[1] // 5 == d and what[1] < 5 * nds:
                what = ["st", 5 * d2 + what[1] % 5]
            if t == d:
                t = d2
            d = d2
    elif r < 0.72:                                        # another attribute / selection
        what = rand_what(cw, d, rng)
    elif r < 0.82 and nds > 1:                            # other datasets
        if rng.random() < 0.5:
            d, t = t, d
        else:
            d = rng.randrange(nds)
            t = rng.randrange(nds)
        bounds = rand_bounds(cw, t, rng)
        what = rand_what(cw, d, rng)
    elif r < 0.85 and what[0] == "st" and what[1] < 5 * nds and what[1] % 5 in (0, 1):   # equal content, another object
        what = ["st", what[1] - what[1] % 5 + (1 - what[1] % 5)]
    elif r < 0.88:
        bc = not bc
    elif r < 0.94:
        cid = rng.choice(cids)
    else:
        return rand_req(cw, rng, rng.choice(cids))
    return ["req", d, bounds, t, what, bc, cid]


def probe_histories(cw, rng):
    """Collision probes: a base request under cache id 0 followed by a request that differs from it in
    exactly ONE component of the hash tuple (data, one bound, target_data, attribute / selection,
    broadcast), then the base request again."""
    nds = len(cw["ds"])
    d = rng.randrange(nds)
    t = rng.randrange(nds) if rng.random() < 0.7 else d
    tshape = cw["ds"][t]["shape"]
    bounds = [rand_bound(sz, rng, "s" if rng.random() < 0.55 else "r") for sz in tshape]
    for b in bounds:
        if b[0] == "r" and b[3] < 1:
            b[3] = 1
    what = rand_what(cw, d, rng, allow_foreign=False)
    base = ["req", d, bounds, t, what, True, 0]
    variants = []
    for i, b in enumerate(bounds):                       # one bound
        if b[0] == "s":
            variants.append(bounds[:i] + [["s", q_enc(q_of(b[1]) + rng.choice([1, -1, Fraction(1, 2)]))]] + bounds[i + 1:])
            variants.append(bounds[:i] + [["r", b[1], b[1], 1]] + bounds[i + 1:])
        else:
            variants.append(bounds[:i] + [["r", b[1], q_enc(q_of(b[2]) + 1), b[3]]] + bounds[i + 1:])
            variants.append(bounds[:i] + [["s", b[1]]] + bounds[i + 1:])
    out = [["req", d, v, t, what, True, 0] for v in variants]
    for d2 in range(nds):                                # data
        if d2 != d:
            w2 = what
            # pixel component ids / pixel-range selections of another dataset are derivable through
            # the links (not modelled): they always move with the data
            if what[0] == "px":
                w2 = ["px", d2, min(what[2], len(cw["ds"][d2]["shape"]) - 1)]
            elif what[0] == "c" and what[1] == d and rng.random() < 0.5:
                w2 = ["c", d2, what[2]]
            elif what[0] == "st" and what[1] < 5 * nds and has_pr(cw["states"][what[1]]):
                w2 = ["st", 5 * d2 + what[1] % 5]
            out.append(["req", d2, bounds, t, w2, True, 0])
    for t2 in range(nds):                                # target_data
        if t2 != t and len(cw["ds"][t2]["shape"]) == len(tshape):
            out.append(["req", d, bounds, t2, what, True, 0])
    for w2 in (["c", d, 0], ["c", d, 1], ["px", d, 0], ["st", 5 * d], ["st", 5 * d + 1], ["st", 5 * d + 2],
               ["st", 5 * nds], ["st", 5 * nds + 1]):   # attribute / selection
        if w2 != what:
            out.append(["req", d, bounds, t, w2, True, 0])
    out.append(["req", d, bounds, t, what, False, 0])    # broadcast
    for v in out:
        yield [base, v, base] if rng.random() < 0.5 else [base, v]


class Seq(_Base):
    """Histories of requests sharing cache ids, each answer judged as if `cache_id=None`."""
    name = "seq"
    batch = 60
    budget_share = 2.0
    known_findings_uncounted = True

    def cases(self, tier, rng):
        quick = tier == "quick"
        maxlen = 5 if quick else 10
        # round 2: one float component of the request walks across a pixel boundary of the source by
        # the fine ladder, under one cache id (an approximate / rounded / down-cast key gives a stale hit)
        for cw, rung, _ in fine_worlds(tier, rng, reps=1 if quick else 3):
            for _ in range(5 if quick else 6):
                ops = fine_history(cw, rng, rung)
                if ops:
                    yield [cw, ops]
            ops = retype_history(cw, rng, rung)
            if ops:
                yield [cw, ops]
        for cw, rung in twin_worlds(tier, rng):
            for _ in range(3 if quick else 6):
                ops = fine_history(cw, rng, rung)
                if ops:
                    yield [cw, ops]
        for cw in worlds_stream(tier, rng):
            if deriv_table(cw) is None:
                continue
            for _ in range(4 if quick else 8):
                n = rng.randint(2, maxlen)
                cids = rng.choice([[0], [0], [0, 1], [0, None]])
                req = rand_req(cw, rng, 0)
                ops = [req]
                for _ in range(n - 1):
                    req = mutate_req(cw, req, rng, cids)
                    ops.append(req)
                yield [cw, ops]
            for _ in range(1 if quick else 2):
                for ops in probe_histories(cw, rng):
                    yield [cw, ops]
            # round 3: argument object identity - caller-owned bounds lists edited in place between
            # requests and submitted again, equal fresh copies, edited result buffers
            nds = len(cw["ds"])
            for _ in range(3 if quick else 6):
                yield [cw, arg_history(cw, rng, maxlen)]
            d = rng.randrange(nds)
            yield [cw, slice_loop_history(cw, rng, d, d if rng.random() < 0.6 else rng.randrange(nds))]
            # finding strata: in-place edits of selection objects / of component arrays
            for _ in range(1 if quick else 2):
                yield [cw, self.edit_history(cw, rng, maxlen)]
                yield [cw, self.setc_history(cw, rng, maxlen)]

    def edit_history(self, cw, rng, maxlen):
        nds = len(cw["ds"])
        d = rng.randrange(nds)
        t = rng.randrange(nds)
        sid = rng.choice([5 * d, 5 * d + 3, 5 * d + 4, 5 * nds])
        req = ["req", d, rand_bounds(cw, t, rng), t, ["st", sid], True, 0]
        ops = [req]
        for _ in range(rng.randint(1, maxlen - 2)):
            if rng.random() < 0.4:
                ops.append(["edit", sid, edited(cw["states"][sid], rng)])
            req = mutate_req(cw, req, rng, [0]) if rng.random() < 0.5 else req
            ops.append(req)
        return ops

    def setc_history(self, cw, rng, maxlen):
        nds = len(cw["ds"])
        d = rng.randrange(nds)
        t = rng.randrange(nds)
        req = ["req", d, rand_bounds(cw, t, rng), t, ["c", d, 0], True, 0]
        ops = [req]
        size = int(np.prod(cw["ds"][d]["shape"]))
        for _ in range(rng.randint(1, maxlen - 2)):
            if rng.random() < 0.4:
                ops.append(["setc", d, 0, [rng.randint(-50, 50) for _ in range(size)]])
            req = mutate_req(cw, req, rng, [0, None]) if rng.random() < 0.5 else req
            ops.append(req)
        return ops

    def run_impl(self, case):
        cw, ops = case
        mutating = any(o[0] in ("edit", "setc") for o in ops)
        bw = self.built(cw, fresh=mutating)
        cur_states = list(cw["states"])
        out = []
        objs, rets = {}, []          # caller-owned bounds lists by id; returned objects by request index
        try:
            for o in ops:
                if o[0] == "req":
                    out.append(run_request(bw, o, raw=rets))
                elif o[0] == "reqo":
                    _, d, oid, t, what, bc, cid = o
                    out.append(run_request(bw, ["req", d, None, t, what, bc, cid],
                                           bounds_obj=objs.setdefault(oid, []), raw=rets))
                elif o[0] == "asg":
                    new = [bound_py(b) for b in o[2]]
                    if o[1] in objs:
                        objs[o[1]][:] = new          # the same object, edited in place
                    else:
                        objs[o[1]] = new
                elif o[0] == "set":
                    if o[1] in objs and 0 <= o[2] < len(objs[o[1]]):
                        objs[o[1]][o[2]] = bound_py(o[3])
                elif o[0] == "push":
                    objs.setdefault(o[1], []).append(bound_py(o[2]))
                elif o[0] == "pop":
                    if len(objs.get(o[1], [])) >= 2:
                        objs[o[1]].pop()
                elif o[0] == "edbuf":
                    if 0 <= o[1] < len(rets):
                        fill_in_place(rets[o[1]], o[2])
                elif o[0] == "edit":
                    bw.edit_state(bw.states[o[1]], cur_states[o[1]], o[2])
                    cur_states[o[1]] = o[2]
                elif o[0] == "setc":
                    _, ds, c, vals = o
                    data = bw.datas[ds]
                    data.update_components({bw.main(ds, c): np.array(vals, dtype=np.int64).reshape(data.shape)})
        finally:
            if mutating:
                type(self)._built = (None, None)
        return out

    def line(self, case, pyout):
        cw, ops = case
        sops = []
        for o in ops:
            if o[0] == "req":
                sops.append(req_sx(o))
            elif o[0] == "reqo":
                sops.append(["reqo", o[1], o[2], o[3], list(o[4]), bool(o[5]), o[6]])
            elif o[0] == "asg":
                sops.append(["asg", o[1], [bound_sx(b) for b in o[2]]])
            elif o[0] == "set":
                sops.append(["set", o[1], o[2], bound_sx(o[3])])
            elif o[0] == "push":
                sops.append(["push", o[1], bound_sx(o[2])])
            elif o[0] == "pop":
                sops.append(["pop", o[1]])
            elif o[0] == "edbuf":
                sops.append(["edbuf", o[1], int(o[2])])
            elif o[0] == "edit":
                sops.append(["edit", o[1], state_sx(o[2])])
            else:
                sops.append(["setc", o[1], o[2], list(o[3])])
        return sx(["seq", [world_sx(cw), sops], pyout])

    def nontrivial(self, case, po):
        if "fine" in case[0]:     # a stale hit is observable: the requests have >= 2 different answers
            return isinstance(po, list) and len({json.dumps(a) for a in po}) >= 2
        if is_arg_history(case[1]):   # an edit between two requests that name a list object
            return sum(1 for o in case[1] if o[0] == "reqo") >= 2 and isinstance(po, list) and \
                len({json.dumps(a) for a in po}) >= 2
        return len(case[1]) >= 3

    def signature(self, case, pyout, res):
        ops = case[1]
        if any(o[0] == "edit" for o in ops):
            return {"construct": "selection-edited-in-place"}
        if any(o[0] == "setc" for o in ops):
            return {"construct": "data-changed-in-place"}
        if any(o[0] == "edbuf" for o in ops):
            return {"construct": "returned-buffer-edited-in-place"}
        if is_arg_history(ops):
            return {"construct": "bounds-list-edited-in-place"}
        return {"construct": "requests-only"}

    def shrink(self, case):
        cw, ops = case
        for i in range(len(ops)):
            if len(ops) > 1:
                c2 = ops[:i] + ops[i + 1:]
                if valid_args(c2):
                    yield [cw, c2]
        for i, o in enumerate(ops):
            if o[0] == "req":
                for c2 in Single().shrink([cw, o]):
                    yield [cw, ops[:i] + [c2[1]] + ops[i + 1:]]


def edited(e, rng):
    k = e[0]
    if k in ("range", "pr"):
        lo = q_of(e[3]) + rng.choice([-2, 0, 1, 3])
        hi = q_of(e[4]) + rng.choice([-3, 2, 5, 100])
        return [k, e[1], e[2], q_enc(lo), q_enc(hi)]
    if k in ("and", "or", "xor"):
        return [k, edited(e[1], rng), edited(e[2], rng)]
    if k == "not":
        return [k, edited(e[1], rng)]
    if k == "elems":
        return [k, sorted(set(e[1]) ^ {0})]
    return e


# ------------------------------------------------------------------------------------------
# image layer states
# ------------------------------------------------------------------------------------------

# round 3: a call may end with a marker - "same": the `view` / `bounds` argument is ONE caller-owned list
# object per call sequence, refilled in place (`lst[:] = ...`) and passed again; "ed": the caller overwrites
# the returned image in place (`img[...] = -77`) after looking at it; "same+ed": both.  The markers are not
# sent to the model: get_sliced_data builds its own bounds list per call and (F18) hands out private buffers.
IMG_MARKS = ("same", "ed", "same+ed")


def strip_mark(c):
    return (c[:-1], c[-1]) if isinstance(c[-1], str) and c[-1] in IMG_MARKS else (c, "")


SLICE_POOL = [[None, None, None], [None, None, None], [1, None, None], [None, -1, None], [0, 2, None],
              [None, None, 2], [1, 4, 2], [None, None, -1], [None, None, -2], [3, 0, -1], [-2, None, None],
              [2, 2, None], [None, None, 3], [0, 1, None]]


class Img(_Base):
    """`ImageLayerState.get_sliced_data` / `ImageSubsetLayerState.get_sliced_data`: sequences of calls
    on one layer state (its uuid is the cache id) while the viewer's slices, the view and the
    bounds change."""
    name = "img"
    batch = 40
    budget_share = 1.2

    def cases(self, tier, rng):
        quick = tier == "quick"
        for cw in self.worlds(tier, rng):
            if deriv_table(cw) is None:
                continue
            nds = len(cw["ds"])
            for _ in range(3 if quick else 6):
                ref = rng.choice([i for i in range(nds) if len(cw["ds"][i]["shape"]) >= 2])
                rn = len(cw["ds"][ref]["shape"])
                d = rng.randrange(nds)
                x, y = rng.sample(range(rn), 2)
                if d != ref and rng.random() < 0.8:
                    # prefer axes of the reference that the layer's data really depends on
                    # (otherwise broadcast=False makes the request an IncompatibleDataException)
                    used = sorted({int(m) for e in deriv_table(cw) if e[0] == ref and e[1] == d
                                   for m in __import__("re").findall(r'\["p", (\d+)\]', json.dumps(e[3]))})
                    if len(used) >= 2:
                        x, y = rng.sample(used, 2)
                if rng.random() < 0.6:
                    what = ["c", d, rng.randrange(len(cw["ds"][d]["comps"]))]
                else:
                    what = ["st", rng.choice([5 * d + rng.randrange(5), 5 * nds])]
                layer = ["L", ref, x, y, d, what]
                calls = []
                slices = [["i", rng.randint(0, s - 1)] for s in cw["ds"][ref]["shape"]]
                for _ in range(rng.randint(1, 4 if quick else 7)):
                    slices = [list(s) for s in slices]
                    for i in range(rn):
                        if i in (x, y):
                            continue
                        r = rng.random()
                        if r < 0.5:
                            slices[i] = ["i", rng.randint(-1, cw["ds"][ref]["shape"][i])]
                        elif r < 0.62:
                            slices[i] = ["agg"] + rng.choice(SLICE_POOL) + [rng.choice(["sum", "max"])]
                    if rng.random() < 0.55:
                        v = [["sl"] + rng.choice(SLICE_POOL) for _ in range(rng.choice([0, 0, 1, 2, 2, 2, 3] if rng.random() < 0.2 else [0, 2, 2]))]
                        calls.append(["view", slices, v])
                    else:
                        sy, sx_ = cw["ds"][ref]["shape"][y], cw["ds"][ref]["shape"][x]
                        calls.append(["bounds", slices, rand_bound(sy, rng, "r"), rand_bound(sx_, rng, "r")])
                    if rng.random() < 0.3:                      # the same request once more (an ARRAY_CACHE hit)
                        calls.append([list(x_) if isinstance(x_, list) else x_ for x_ in calls[-1]])
                mode = rng.random()
                if mode < 0.5:                                  # caller-owned argument lists / edited results
                    for c in calls:
                        mk = rng.choice(["same", "same", "ed", "same+ed", ""])
                        if mk:
                            c.append(mk)
                yield [cw, layer, calls]

    def worlds(self, tier, rng):
        quick = tier == "quick"
        for _ in range(110 if quick else 800):
            r = rng.random()
            if r < 0.15:
                yield world_self(rng, rng.randint(2, 3))
            elif r < 0.75:
                yield world_pair(rng, tn=rng.randint(2, 3), kind=rng.choice(["same", "same", "aff", "mixed"]))
            elif r < 0.9:
                yield world_pair(rng, tn=rng.randint(2, 3), third=True)
            else:
                yield world_wcs(rng, rng.randint(2, 3))

    def run_impl(self, case):
        from glue.viewers.image.state import ImageViewerState, ImageLayerState, ImageSubsetLayerState, AggregateSlice
        from echo import delay_callback
        cw, layer, calls = case
        _, ref, x, y, d, what = layer
        bw = self.built(cw, fresh=True)
        try:
            vs = ImageViewerState()
            refl = ImageLayerState(viewer_state=vs, layer=bw.datas[ref])
            vs.layers.append(refl)
            if what[0] == "c":
                lay = ImageLayerState(viewer_state=vs, layer=bw.datas[d])
                vs.layers.append(lay)
                lay.attribute = bw.main(d, what[2])
            else:
                sub = bw.datas[d].new_subset()
                sub.subset_state = bw.states[what[1]]
                bw.keep.append(sub)
                lay = ImageSubsetLayerState(viewer_state=vs, layer=sub)
                vs.layers.append(lay)
            if vs.reference_data is not bw.datas[ref]:
                vs.reference_data = bw.datas[ref]
            pids = bw.datas[ref].pixel_component_ids
            wids = bw.datas[ref].world_component_ids if vs._display_world else pids
            with delay_callback(vs, 'x_att', 'y_att', 'x_att_world', 'y_att_world'):
                vs.x_att_world = wids[x]
                vs.y_att_world = wids[y]
            if vs.x_att is not pids[x] or vs.y_att is not pids[y] or vs.reference_data is not bw.datas[ref]:
                return "setup-failed"
            bw.keep.extend([vs, refl, lay])
            fn = {"sum": np.nansum, "max": np.nanmax}
            out = []
            vobj, bobj = [], []          # the caller's own `view` / `bounds` list objects
            for c in calls:
                c, mark = strip_mark(c)
                slices = []
                for s in c[1]:
                    if s[0] == "i":
                        slices.append(int(s[1]))
                    else:
                        slices.append(AggregateSlice(slice(s[1], s[2], s[3]), 0, fn[s[4]]))
                vs.slices = tuple(slices)
                try:
                    import warnings
                    with warnings.catch_warnings():
                        warnings.simplefilter("ignore")
                        if c[0] == "view":
                            v = [slice(*s[1:]) for s in c[2]]
                            if "same" in mark:
                                vobj[:] = v
                                v = vobj
                            img = lay.get_sliced_data(view=v if v else None)
                        else:
                            b = [bound_py(c[2]), bound_py(c[3])]
                            if "same" in mark:
                                bobj[:] = b
                                b = bobj
                            img = lay.get_sliced_data(bounds=b)
                except ValueError:
                    out.append("value-error")
                except IncompatibleAttribute:
                    out.append("incompatible")
                except IncompatibleDataException:
                    out.append("incompatible-data")
                else:
                    out.append(canon_arr(img))
                    if "ed" in mark:
                        fill_in_place(img, -77)
            return out
        finally:
            type(self)._built = (None, None)

    def line(self, case, pyout):
        cw, layer, calls = case
        scalls = []
        for c in calls:
            c, _ = strip_mark(c)
            if c[0] == "view":
                scalls.append(["view", c[1], c[2]])
            else:
                scalls.append(["bounds", c[1], bound_sx(c[2]), bound_sx(c[3])])
        return sx(["img", [world_sx(cw), layer, scalls], pyout])

    def nontrivial(self, case, po):
        return isinstance(po, list) and any(isinstance(a, list) for a in po)

    def signature(self, case, pyout, res):
        neg = any(c[0] == "view" and any((s[3] or 1) < 0 for s in c[2]) for c in case[2]) or \
            any(s[0] == "agg" and (s[3] or 1) < 0 for c in case[2] for s in c[1])
        if neg:
            return {"construct": "negative-step-slice"}
        marks = {strip_mark(c)[1] for c in case[2]}
        if any("ed" in m for m in marks):
            return {"construct": "image-returned-buffer-edited"}
        return {"construct": "image-own-lists" if marks - {""} else "image"}

    def shrink(self, case):
        cw, layer, calls = case
        for i in range(len(calls)):
            if len(calls) > 1:
                yield [cw, layer, calls[:i] + calls[i + 1:]]
        for i, c in enumerate(calls):
            if c[0] == "view" and len(c[2]) > 0:
                for j in range(len(c[2])):
                    if c[2][j] != ["sl", None, None, None]:
                        v2 = c[2][:j] + [["sl", None, None, None]] + c[2][j + 1:]
                        yield [cw, layer, calls[:i] + [["view", c[1], v2] + c[3:]] + calls[i + 1:]]
            for j, s in enumerate(c[1]):
                if s[0] == "agg":
                    s2 = c[1][:j] + [["i", 0]] + c[1][j + 1:]
                    yield [cw, layer, calls[:i] + [[c[0], s2] + c[2:]] + calls[i + 1:]]


PROP = Property(
    id="C16",
    title="A fixed-resolution buffer equals nearest-pixel resampling through the links",
    theorems=["C16.rne_nearest", "C16.nearest_candidates", "C16.nearest_unique_off_ties", "C16.frb_pointwise", "C16.frb_accepted", "C16.frb_defined_iff", "C16.frb_answer_accepted", "C16.frb_indep_irrelevant_scalar", "C16.wildcard_key_exact", "C16.frb_indep_irrelevant_scalars", "C16.dimensions_correct", "C16.world_leaf_wf", "C16.w2p_node_wf", "C16.cache_step_sound", "C16.cache_sound", "C16.cache_sound_from", "C16.cache_key_exact_needed", "C16.hit_test_as_coded", "C16.allclose_bounds_stale", "C16.slice_to_bound_positions", "C16.sliced_request_denotes", "C16.selection_edited_in_place_stale", "C16.data_changed_in_place_stale", "C16.slice_to_bound_pinned_wrong",
              "C16.cache_step_sound_args", "C16.cache_sound_unshared", "C16.cache_sound_args", "C16.owned_invariant",
              "C16.policy_as_coded_owns", "C16.args_fresh_is_value_model", "C16.caller_list_stored_stale",
              "C16.returned_buffer_shared_stale"],
    families=[Single(), Seq(), Img()],
    trusted_base=["numpy linspace / meshgrid / round (half-to-even) / broadcasting / unbroadcast / fancy indexing are modelled by value (Model/C16FRB.lean); exact on the small dyadic inputs generated; on the fine-ladder inputs (magnitudes 2^-20 .. 2^70, steps down to 1 ulp) a generator-side filter keeps the requests on which numpy's own linspace and the link lambdas in doubles round every sample to the same pixel as exact rationals",
                  "LinkManager.discover_links is not modelled: the harness derives the translate_pixel recursion trees with a port of the same loop and discards worlds whose result depends on set iteration order",
                  "C15 coordinate model (Model/Coords.lean) for world-coordinate leaves and world->pixel link nodes"],
    assumptions=["datasets <= 3, <= 3-d, sides <= 4; links: LinkSame on pixel ids, a*x+b with a in {+-1, +-2, +-1/2}, two-input affine links, LinkSame on all world axes of two AffineCoordinates datasets (dyadic, permuted, optionally a coupled block), chains over a third dataset; fine-ladder worlds: a*x+b links with a = 2^-60 .. 2^60 and |b| up to 2^40 that put reference coordinates of magnitude 0, 2^-20, 3, 1e5, 2459000.5, 1e9, 1e15, 2^40 .. 2^70 on a pixel boundary (or the edge) of the source",
                 "request targets: main / pixel components of the requested dataset, components of another or of no dataset (-> IncompatibleAttribute), selection objects over the requested dataset's components and dataset-independent ElementSubsetStates; pixel components / pixel-range selections of ANOTHER linked dataset (derivable through links) are not modelled and not generated",
                 "no dask components; bounds passed as a list; unique component uuids (no session-restored duplicates)",
                 "in-place changes of component arrays between requests are outside the property (for unchanged data): cached requests after such a change are compared with the model only"],
    rule="worlds: structured (every target/source ndim pair x link kind, wcs n=1..3, coupled, chains, twins) + seeded random; per world: the whole reference grid and seeded bounds per dataset pair (frb), 4-8 random histories + one-component collision probes + finding strata (seq), 3-6 layer states with 1-7 get_sliced_data calls (img); fine ladder: per magnitude x rung (1 ulp of the bound / of the position, 1e-12 .. 1e-3 relative, 2^-27 / 2^-40 absolute) x boundary offset a world, single requests with samples on half-integer source positions -+ one step (frb), histories in which one float component (scalar, lo, hi, both, n, int-vs-float type, twin link offset / scale) walks across the boundary under one cache id (seq); argument identity (round 3): per world 3-6 histories in which one or two caller-owned bounds list objects are edited in place between requests (another scalar at one position, a replaced tuple, append/pop restored, slice assignment, an equal fresh copy in another object, an overwritten result buffer, another attribute) + one slicing loop (seq), img calls that re-use one view / bounds list object and overwrite the returned image; non-trivial = source != reference and an array returned (frb), history of >= 3 operations / fine history with >= 2 different answers (seq), at least one image returned (img)",
    partial_note="cache_sound needs unchanged selection objects: an in-place edited selection under the same cache id returns the stale buffer (F15, known); everything else is proved without restriction on the repaired tree (in-place edits of bounds lists and of returned buffers included: cache_sound_args)",
)
