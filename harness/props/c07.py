"""C07 — the hub delivers each message exactly once, in order, to the right listeners
(glue/core/hub.py, hub_callback_container.py, message.py).

A case is ``[handlers, program]``.  Operations (also inside handler bodies):

    ["b", cls, tag]                 hub.broadcast(<cls>(None, tag=tag))
    ["d", [ops]]                    with hub.delay_callbacks(): ops
    ["i", cls, [ops]]               with hub.ignore_callbacks(<cls>): ops
    ["c", [ops]]                    try: ops  except Boom: pass
    ["s", l, cls, hid, filt, prio]  hub.subscribe(listener l, <cls>, handler=l.h<hid>, filter, priority)
    ["u", l, cls]                   hub.unsubscribe(listener l, <cls>)
    ["ua", l]                       hub.unsubscribe_all(listener l)
    ["k", l]                        the listener object dies (only outside handlers)
    ["m", n]                        log marker n (an observable program point)
    ["r"]                           raise Boom()

A class is its path below ``glue.core.message.Message`` (``[0, 0]`` is a subclass of ``[0]``);
handler ``hid`` of every listener interprets ``handlers[hid]``; every handler call appends
``enter``/``exit`` events (with its nesting level) to a shared log.  The same case is run by the
Lean models; the property oracle is ``Spec.run`` evaluated by the driver on *this* log.
"""
import gc
import itertools

from harness.core import Family, Property, use_repo

use_repo()
from glue.core.hub import Hub, HubListener  # noqa: E402
from glue.core.message import Message  # noqa: E402

N_HANDLERS = 8


class Boom(Exception):
    pass


class Runaway(BaseException):
    """Handler nesting far beyond anything the generated programs can reach (they nest at most one
    level per message family): the hub re-delivers without end.  Once raised, every further
    handler call of the case raises it again at once, so that `finally` clauses which flush again
    while the stack unwinds cannot blow up the running time."""


MAX_LEVEL = 40


_CLASSES = {(): Message}


def cls_for(path):
    path = tuple(path)
    c = _CLASSES.get(path)
    if c is None:
        parent = cls_for(path[:-1])
        c = type("M_" + "_".join(str(i) for i in path), (parent,), {"_c07path": path})
        _CLASSES[path] = c
    return c


def path_of(cls):
    return list(getattr(cls, "_c07path", ()))


def _f_odd(msg):
    return msg.tag % 2 == 1


_f_odd._c07name = "odd"


def _f_none(msg):
    return False


_f_none._c07name = "none"


class Listener(HubListener):
    def __init__(self, ctx, lid):
        self.ctx = ctx
        self.lid = lid

    def f_even(self, msg):  # a filter that is a bound method (weakly held by the container)
        return msg.tag % 2 == 0

    f_even._c07name = "even"


def _make_handler(i):
    def h(self, msg):
        self.ctx.handle(self, i, msg)
    h.__name__ = "notify" if i == 0 else "h%d" % i
    h._c07hid = i
    return h


Listener.notify = _make_handler(0)  # handler 0 is the default `subscriber.notify`
for _i in range(1, N_HANDLERS):
    setattr(Listener, "h%d" % _i, _make_handler(_i))


class Ctx:
    def __init__(self, handlers):
        self.hub = Hub()
        self.handlers = handlers
        self.listeners = {}
        self.log = []
        self.lvl = 0
        self.aborted = False
        self.msgs = {}  # (class path, tag) -> the message object: equal messages are the same object

    def listener(self, l):
        x = self.listeners.get(l)
        if x is None:
            x = self.listeners[l] = Listener(self, l)
        return x

    def handle(self, listener, hid, msg):
        lvl = self.lvl
        if self.aborted or lvl > MAX_LEVEL:
            self.aborted = True
            raise Runaway()
        self.log.append(["e", lvl, listener.lid, path_of(type(msg)), msg.tag])
        self.lvl = lvl + 1
        try:
            self.run(self.handlers[hid] if hid < len(self.handlers) else [])
        finally:
            self.lvl = lvl
        self.log.append(["x", lvl, listener.lid, path_of(type(msg)), msg.tag])

    def run(self, ops):
        hub = self.hub
        for op in ops:
            k = op[0]
            if k == "b":
                key = (tuple(op[1]), op[2])
                msg = self.msgs.get(key)
                if msg is None:
                    msg = self.msgs[key] = cls_for(op[1])(None, tag=op[2])
                hub.broadcast(msg)
            elif k == "d":
                with hub.delay_callbacks():
                    self.run(op[1])
            elif k == "i":
                with hub.ignore_callbacks(cls_for(op[1])):
                    self.run(op[2])
            elif k == "c":
                try:
                    self.run(op[1])
                except Boom:
                    pass
            elif k == "s":
                self._subscribe(op)  # own frame: no local may keep the listener alive
            elif k == "u":
                hub.unsubscribe(self.listener(op[1]), cls_for(op[2]))
            elif k == "ua":
                hub.unsubscribe_all(self.listener(op[1]))
            elif k == "k":
                # drop the last strong reference; frames kept alive by exception/traceback cycles may
                # still hold the listener (gc is disabled during a case), so collect the young
                # generation: the object really dies here and its weakref callbacks fire now
                if self.listeners.pop(op[1], None) is not None:
                    gc.collect(0)
            elif k == "m":
                self.log.append(["m", self.lvl, op[1]])
            elif k == "r":
                raise Boom()
            else:
                raise ValueError("bad op %r" % (op,))

    def _subscribe(self, op):
        _, l, c, hid, filt, prio = op
        lst = self.listener(l)
        kw = {}
        if hid != 0:
            kw["handler"] = getattr(lst, "h%d" % hid)
        if filt == "even":
            kw["filter"] = lst.f_even
        elif filt == "odd":
            kw["filter"] = _f_odd
        elif filt == "none":
            kw["filter"] = _f_none
        self.hub.subscribe(lst, cls_for(c), priority=prio, **kw)

    def subs(self):
        out = []
        for lst, cont in list(self.hub._subscriptions.items()):
            cbs = []
            for cls, val in cont.callbacks.items():
                hfunc = val[0]() if val[1] is not None else val[0]
                ffunc = val[2]() if val[3] is not None else val[2]
                cbs.append([path_of(cls), getattr(hfunc, "_c07hid", -1), getattr(ffunc, "_c07name", "all"), val[4]])
            out.append([lst.lid, cbs])
        return out

    def snapshot(self):
        hub = self.hub
        from harness.core import sx
        ign = sorted(([path_of(c), n] for c, n in hub._ignore.items() if n > 0), key=lambda e: sx(e[0]))
        depth = getattr(hub, "_delay_depth", 1 if hub._paused else 0)
        return [bool(hub._paused), depth, len(hub._queue), ign]


def run_case(case):
    handlers, prog = case
    ctx = Ctx(handlers)
    try:
        ctx.run(prog)
        res = "ok"
    except Boom:
        res = "exn"
    except Runaway:
        res = "runaway-redelivery"
        del ctx.log[60:]
    out = [res, ctx.log, ctx.subs(), ctx.snapshot()]
    ctx.listeners.clear()
    return out


# ------------------------------------------------------------------------------------------
# program enumeration
# ------------------------------------------------------------------------------------------

A, B, C = [0], [0, 0], [1]


def number(ops, counter=None):
    """Give broadcasts consecutive tags and markers consecutive numbers (pre-order)."""
    counter = counter if counter is not None else [0, 0]
    out = []
    for op in ops:
        k = op[0]
        if k == "b":
            counter[0] += 1
            out.append(["b", op[1], counter[0]])
        elif k == "m":
            counter[1] += 1
            out.append(["m", counter[1]])
        elif k == "d":
            out.append(["d", number(op[1], counter)])
        elif k == "c":
            out.append(["c", number(op[1], counter)])
        elif k == "i":
            out.append(["i", op[1], number(op[2], counter)])
        else:
            out.append(list(op))
    return out


def bodies(n, depth, atoms, blocks):
    """All op lists with exactly n nodes, block nesting <= depth (memoised)."""
    memo = {}

    def lists(n, depth):
        key = (n, depth)
        if key in memo:
            return memo[key]
        if n == 0:
            res = [[]]
        else:
            res = []
            for k in range(1, n + 1):  # size of the first tree
                for first in trees(k, depth):
                    for rest in lists(n - k, depth):
                        res.append([first] + rest)
        memo[key] = res
        return res

    def trees(k, depth):
        res = []
        if k == 1:
            res.extend(atoms)
        if depth > 0:
            for body in lists(k - 1, depth - 1):
                for mk in blocks:
                    res.append(mk(body))
        return res

    return lists(n, depth)


ATOMS_SMALL = [["b", A, 0], ["b", B, 0], ["b", C, 0], ["m", 0], ["r"]]
ATOMS_SUBS = [["ua", 1], ["s", 1, A, 0, "all", 10], ["u", 0, B], ["k", 1]]
BLOCKS = [lambda b: ["d", b], lambda b: ["i", A, b], lambda b: ["c", b]]

# (prelude, handler table) contexts; handler ranks obey the termination rule of the generators:
# a handler subscribed to family 0 (A, B) only broadcasts family 1 (C); handlers for C broadcast nothing
CONTEXTS = [
    # two listeners on A, different priorities; plain handlers
    ([["s", 0, A, 0, "all", 5], ["s", 1, A, 0, "all", 10], ["s", 1, C, 0, "all", 0]], [[]]),
    # most specific subscription (B over A), an even-tag filter, equal priorities
    ([["s", 0, A, 0, "all", 5], ["s", 0, B, 2, "even", 5], ["s", 1, A, 0, "even", 5], ["s", 1, C, 2, "all", 5]], [[], [], []]),
    # handler 1 broadcasts (re-entrancy); C handled by listener 1
    ([["s", 0, A, 1, "all", 5], ["s", 1, C, 0, "all", 5], ["s", 1, B, 0, "all", 9]], [[], [["m", 90], ["b", C, 91], ["m", 92]]]),
    # handler 1 opens delay blocks itself (nested), broadcasting inside
    ([["s", 0, A, 1, "all", 5], ["s", 1, C, 0, "all", 5]],
     [[], [["d", [["b", C, 91], ["d", [["b", C, 92]]], ["m", 90]]], ["m", 93]]]),
    # handler 1 unsubscribes the other listener and subscribes itself to C; handler 2 raises
    ([["s", 0, A, 1, "all", 10], ["s", 1, A, 0, "all", 5], ["s", 1, C, 2, "all", 5]],
     [[], [["ua", 1], ["s", 0, C, 0, "all", 1], ["b", C, 91]], [["r"]]]),
    # handler 1: try/except around a raising delay block, ignore block inside a handler
    ([["s", 0, A, 1, "all", 5], ["s", 1, C, 0, "all", 5], ["s", 0, C, 0, "odd", 7]],
     [[], [["c", [["d", [["b", C, 91], ["r"]]]]], ["i", C, [["b", C, 93]]], ["d", []]]]),
]


def features(case):
    handlers, prog = case

    def nest(ops):
        d = 0
        for op in ops:
            if op[0] == "d":
                d = max(d, 1 + nest(op[1]))
            elif op[0] == "c":
                d = max(d, nest(op[1]))
            elif op[0] == "i":
                d = max(d, nest(op[2]))
        return d

    def has(ops, kind):
        for op in ops:
            if op[0] == kind:
                return True
            if op[0] in ("d", "c") and has(op[1], kind):
                return True
            if op[0] == "i" and has(op[2], kind):
                return True
        return False

    return {
        "nested_delay": nest(prog) >= 2,
        "delay": nest(prog) >= 1,
        "handler_delay": any(nest(h) >= 1 for h in handlers),
        "raise": has(prog, "r") or any(has(h, "r") for h in handlers),
    }


def shrink_ops(ops):
    """Smaller op lists: drop one op, unwrap one block, shrink inside one block."""
    for i, op in enumerate(ops):
        yield ops[:i] + ops[i + 1:]
    for i, op in enumerate(ops):
        k = op[0]
        if k in ("d", "c"):
            yield ops[:i] + op[1] + ops[i + 1:]
            for b in shrink_ops(op[1]):
                yield ops[:i] + [[k, b]] + ops[i + 1:]
        elif k == "i":
            yield ops[:i] + op[2] + ops[i + 1:]
            for b in shrink_ops(op[2]):
                yield ops[:i] + [["i", op[1], b]] + ops[i + 1:]


class Prog(Family):
    """Exhaustive small scope: every program body with <= n operation nodes (block nesting <= 3)
    over the small alphabet, after each of the fixed subscription preludes / handler tables."""
    name = "prog"
    exhaustive = True
    batch = 400
    budget_share = 2.0
    case_timeout = 5.0

    def setup(self):
        gc.disable()
        self._n = 0

    def reset(self):
        self._n = getattr(self, "_n", 0) + 1
        if self._n % 500 == 0:
            gc.collect()

    def cases(self, tier, rng):
        # regression corpus first: the F1 shapes
        for c in F1_CASES:
            yield c
        n_small = 4 if tier == "quick" else 5
        n_subs = 3 if tier == "quick" else 4
        for n in range(0, n_small + 1):
            for body in bodies(n, 3, ATOMS_SMALL, BLOCKS):
                nb = number(body)
                for pre, hs in CONTEXTS:
                    yield [hs, pre + nb]
        # the same message object broadcast several times (all tags equal): each broadcast counts
        for n in range(2, 4):
            for body in bodies(n, 2, ATOMS_SMALL[:2] + ATOMS_SMALL[3:4], BLOCKS[:1]):
                if sum(1 for _ in _iter_kind(body, "b")) < 2:
                    continue
                sb = same_tag(body, 2)
                for pre, hs in (CONTEXTS[0], CONTEXTS[1], CONTEXTS[3]):
                    yield [hs, pre + sb]
        # subscription changes / listener death inside the body (smaller n, two contexts)
        for n in range(1, n_subs + 1):
            for body in bodies(n, 2, ATOMS_SMALL[:2] + ATOMS_SMALL[3:4] + ATOMS_SUBS, BLOCKS[:1] + BLOCKS[2:]):
                if not any(_has_kind(body, k) for k in ("ua", "s", "u", "k")):
                    continue
                nb = number(body)
                for pre, hs in (CONTEXTS[0], CONTEXTS[2]):
                    yield [hs, pre + nb]

    def run_impl(self, case):
        return run_case(case)

    def nontrivial(self, case, po):
        return isinstance(po, list) and len(po) == 4 and any(e[0] == "e" for e in po[1]) and features(case)["delay"]

    def signature(self, case, pyout, res):
        return features(case)

    def shrink(self, case):
        handlers, prog = case
        for p in shrink_ops(prog):
            yield [handlers, p]
        for i, h in enumerate(handlers):
            for hb in shrink_ops(h):
                yield [handlers[:i] + [hb] + handlers[i + 1:], prog]


def _iter_kind(ops, kind):
    for op in ops:
        if op[0] == kind:
            yield op
        if op[0] in ("d", "c"):
            yield from _iter_kind(op[1], kind)
        if op[0] == "i":
            yield from _iter_kind(op[2], kind)


def same_tag(ops, tag):
    out = []
    for op in ops:
        k = op[0]
        if k == "b":
            out.append(["b", op[1], tag])
        elif k in ("d", "c"):
            out.append([k, same_tag(op[1], tag)])
        elif k == "i":
            out.append(["i", op[1], same_tag(op[2], tag)])
        else:
            out.append(list(op))
    return out


def _has_kind(ops, kind):
    for op in ops:
        if op[0] == kind:
            return True
        if op[0] in ("d", "c") and _has_kind(op[1], kind):
            return True
        if op[0] == "i" and _has_kind(op[2], kind):
            return True
    return False


# ------------------------------------------------------------------------------------------
# seeded random programs beyond the exhaustive scope
# ------------------------------------------------------------------------------------------

FAMILY_CLASSES = {
    0: [[0], [0, 0], [0, 1], [0, 0, 0]],
    1: [[1], [1, 0]],
    2: [[2]],
}
MAXRANK = 2
PRIOS = [-1, 0, 5, 10, 10, 10]
FILTS = ["all", "all", "all", "even", "odd", "none"]


class RandGen:
    """Random handler tables and programs.  Termination by construction: handler `h` has a rank
    rho(h); it is only ever subscribed to classes of family <= rho(h) (the root class only for
    rank MAXRANK) and its body only broadcasts families > rho(h)."""

    def __init__(self, rng, nl, nh):
        self.rng = rng
        self.nl = nl
        self.nh = nh
        self.rank = [rng.randint(0, MAXRANK) for _ in range(nh)]
        self.tag = 0
        self.mark = 0
        self.sent = []

    def cls(self, lo, hi):
        fams = [f for f in range(lo, hi + 1)]
        return list(self.rng.choice(FAMILY_CLASSES[self.rng.choice(fams)]))

    def sub_op(self):
        rng = self.rng
        h = rng.randrange(self.nh)
        if self.rank[h] == MAXRANK and rng.random() < 0.15:
            c = []
        else:
            c = self.cls(0, self.rank[h])
        return ["s", rng.randrange(self.nl), c, h, rng.choice(FILTS), rng.choice(PRIOS)]

    def ops(self, n, depth, minfam, in_handler):
        rng = self.rng
        out = []
        for _ in range(n):
            r = rng.random()
            if r < 0.34 and minfam <= MAXRANK:
                again = [m for m in self.sent if m[0][0] >= minfam]
                if again and rng.random() < 0.12:
                    c, t = rng.choice(again)  # the same message object once more
                    out.append(["b", list(c), t])
                else:
                    self.tag += 1
                    c = self.cls(minfam, MAXRANK)
                    self.sent.append((c, self.tag))
                    out.append(["b", c, self.tag])
            elif r < 0.46:
                self.mark += 1
                out.append(["m", self.mark])
            elif r < 0.62 and depth > 0:
                out.append(["d", self.ops(rng.randint(0, 4), depth - 1, minfam, in_handler)])
            elif r < 0.68 and depth > 0:
                out.append(["i", self.cls(0, MAXRANK), self.ops(rng.randint(0, 3), depth - 1, minfam, in_handler)])
            elif r < 0.74 and depth > 0:
                out.append(["c", self.ops(rng.randint(0, 3), depth - 1, minfam, in_handler)])
            elif r < 0.78:
                out.append(["r"])
            elif r < 0.90:
                out.append(self.sub_op())
            elif r < 0.94:
                out.append(["u", rng.randrange(self.nl), self.cls(0, MAXRANK) if rng.random() < 0.9 else []])
            elif r < 0.97:
                out.append(["ua", rng.randrange(self.nl)])
            elif not in_handler:
                out.append(["k", rng.randrange(self.nl)])
        return out

    def case(self, length, depth):
        rng = self.rng
        handlers = []
        for h in range(self.nh):
            if rng.random() < 0.3:
                handlers.append([])
            else:
                handlers.append(self.ops(rng.randint(1, 4), min(depth, 2), self.rank[h] + 1, True))
        prelude = [self.sub_op() for _ in range(rng.randint(2, 6))]
        body = []
        for op in self.ops(length, depth, 0, False):
            # most top-level actions are wrapped in try/except, so that an exception (also one
            # raised by a handler) ends that action and not the whole program
            if op[0] in ("b", "d", "i", "r") and rng.random() < 0.85:
                op = ["c", [op]]
            body.append(op)
        return [handlers, prelude + body]


class Rand(Prog):
    name = "rand"
    exhaustive = False
    # keep a pickled batch well below the 64 KiB pipe buffer: Pool.terminate() can dead-lock when the
    # task feeder is blocked writing a larger task (early stop on failures / deadline)
    batch = 25
    budget_share = 1.0

    def line(self, case, pyout):
        from harness.core import sx
        return sx(["prog", case, pyout])

    def cases(self, tier, rng):
        n = 6000 if tier == "quick" else 150000
        for i in range(n):
            g = RandGen(rng, rng.randint(1, 4), rng.randint(1, 6))
            if i % 10 == 0:
                yield g.case(rng.randint(30, 80 if tier == "quick" else 200), 4)
            else:
                yield g.case(rng.randint(3, 30), rng.randint(1, 4))

    def nontrivial(self, case, po):
        return isinstance(po, list) and len(po) == 4 and any(e[0] == "e" for e in po[1])


# the shapes of finding F1 (fixed): nested blocks, re-entrant flush, exception during a flush
F1_CASES = [
    [[[]], [["s", 0, A, 0, "all", 10], ["d", [["d", [["b", A, 1]]], ["m", 1], ["b", A, 2], ["m", 2]]]]],
    [[[], [["d", []]]], [["s", 0, A, 1, "all", 10], ["d", [["b", A, 1]]]]],
    [[[], [["r"]]], [["s", 0, A, 0, "all", 10], ["s", 1, C, 1, "all", 10],
                     ["c", [["d", [["b", A, 1], ["b", C, 2]]]]], ["ua", 1], ["d", [["m", 3]]]]],
]


PROP = Property(
    id="C07",
    title="The hub delivers each message exactly once, in order, to the right listeners",
    theorems=[
        "C07.impl_refines_spec_from", "C07.impl_refines_spec", "C07.impl_idle_after",
        "C07.impl_delayed_refines_held", "C07.spec_silent_while_delayed", "C07.spec_queue_in_order",
        "C07.spec_queue_not_ignored", "C07.spec_queue_complete", "C07.spec_delay_block", "C07.spec_exactly_once",
        "C07.spec_ignored_dropped", "C07.spec_nested_inside", "C07.spec_sequential", "C07.targets_mem",
        "C07.bestSub_most_specific", "C07.bestSub_none_iff_unsubscribed", "C07.targets_priority_order",
        "C07.targets_listeners_distinct", "C07.spec_listeners_stay_distinct",
        "C07.old_nested_delay_counterexample", "C07.old_reentrant_flush_diverges",
        "C07.old_raise_in_flush_redelivers",
    ],
    families=[Prog(), Rand()],
    trusted_base=[
        "CPython semantics assumed by the model: dict insertion order (WeakKeyDictionary, HubCallbackContainer.callbacks), "
        "sorted() stability with reverse=True, max() returning the first maximum, the generator in Hub._find_handlers "
        "computing all targets before the first handler runs, contextlib.contextmanager try/finally, weakref callbacks "
        "firing when the last strong reference to a listener is dropped (refcounting; gc disabled during a case)",
        "the harness' instrumented listeners (enter/exit log with nesting level) and its op interpreter",
    ],
    assumptions=[
        "message classes form a forest (single inheritance below Message); handlers and filters do nothing but what their program says",
        "a handler that raises aborts the delivery in progress (and the rest of a flush) — in Spec as in the code; the exactly-once theorems are stated for deliveries that end normally",
    ],
    rule="exhaustive: every program body with <= 4 (quick) / 5 (thorough) operation nodes, block nesting <= 3, over "
         "{bcast A, bcast B(A), bcast C, mark, raise, delay[..], ignore A[..], try[..]} after each of 6 subscription "
         "preludes x handler tables (plain, most-specific+filter, re-entrant broadcast, handler opening nested delay "
         "blocks, handler (un)subscribing + raising handler, handler with try/ignore/delay), plus bodies with "
         "unsubscribe_all / subscribe / unsubscribe / listener death; seeded random programs (length <= 80/200, "
         "nesting <= 4, <= 4 listeners, <= 6 handlers, 7 classes in 3 families + root, 4 filters, 4 priorities). "
         "non-trivial = at least one handler call and (prog family) a delay block",
)
