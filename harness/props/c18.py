"""C18 — viewers and attribute pickers mirror the collection.

Families

  view / viewr   a real `Application` + `DataCollection` + one of the four headless viewers
                 (`SimpleScatterViewer`, `SimpleHistogramViewer`, `SimpleImageViewer`,
                 `SimpleProfileViewer`), driven by a history of collection operations (append /
                 remove dataset, new / remove subset group) and viewer operations (add_data,
                 add_subset, remove_data, remove_subset, remove_layer, state.layers.remove, save +
                 restore); after every step: `dc.data`, `d.subsets` of every dataset ever created,
                 `viewer.layers` and `viewer.state.layers` as (identity token of the layer state,
                 identity token of the layer).
  combo / combor `ComponentIDComboHelper` on a plain `State` (see `ComboWorld`).
  dcombo         `ManualDataComboHelper` / `DataCollectionComboHelper`.
  axes           `ImageViewerState` axis setters.

Matplotlib rendering (`FigureCanvasAgg.draw`, `draw_idle`) is stubbed out in this process: it is
not part of the bookkeeping under test and costs 20-50x the rest (measured: 0.3 s per operation
with rendering, 10 ms without).
"""
import gc
import itertools
import logging
import warnings

from harness.core import Family, Property, use_repo, sx

use_repo()
warnings.filterwarnings('ignore')
logging.disable(logging.WARNING)

import numpy as np  # noqa: E402
from matplotlib.backend_bases import FigureCanvasBase  # noqa: E402
from matplotlib.backends.backend_agg import FigureCanvasAgg  # noqa: E402

FigureCanvasBase.draw_idle = lambda self, *a, **k: None
FigureCanvasAgg.draw = lambda self, *a, **k: None

from glue.core import Data, DataCollection  # noqa: E402
from glue.core.application_base import Application  # noqa: E402
from glue.core.exceptions import IncompatibleDataException  # noqa: E402
from glue.core.registry import Registry  # noqa: E402
from glue.core.state import GlueSerializer, GlueUnSerializer  # noqa: E402
from glue.config import settings  # noqa: E402
from glue.viewers.scatter.viewer import SimpleScatterViewer  # noqa: E402
from glue.viewers.histogram.viewer import SimpleHistogramViewer  # noqa: E402
from glue.viewers.image.viewer import SimpleImageViewer  # noqa: E402
from glue.viewers.profile.viewer import SimpleProfileViewer  # noqa: E402

VIEWERS = {'sc': SimpleScatterViewer, 'hi': SimpleHistogramViewer,
           'im': SimpleImageViewer, 'pr': SimpleProfileViewer}
# restoring a histogram / profile viewer fails on this tree because of C12's known finding F12
# (the patch table rewrites their layer-artist class names to glue_qt.*)
RESTORABLE = ('sc', 'im')


# ---------------------------------------------------------------------------------------------
# viewer family
# ---------------------------------------------------------------------------------------------

class ViewWorld:
    """The real objects of one case + the bookkeeping that gives them stable ids / names."""

    def __init__(self, n, cls):
        self.keep = []
        self.cls = cls
        self.data = [Data(x=np.arange(6.).reshape(2, 3) + i, label='d%i' % i) for i in range(n)]
        self.did = {id(d): i for i, d in enumerate(self.data)}
        self.groups = []
        self.gid = {}
        self.snames = {}   # subset object -> canonical name
        self.anames = {}   # layer state object -> canonical name
        self.dc = DataCollection()
        self.app = Application(self.dc)
        self.viewer = self.app.new_data_viewer(VIEWERS[cls])
        self.keep.extend(self.data)
        self.keep.extend([self.dc, self.app, self.viewer])
        self.err = False

    # ---- lookup ----------------------------------------------------------------------------
    def _sub(self, d, g):
        """the subset of group g currently attached to dataset d (first one), or None"""
        if d >= len(self.data) or g >= len(self.groups):
            return None
        grp = self.groups[g]
        for s in self.data[d].subsets:
            if getattr(s, 'group', None) is grp:
                return s
        return None

    def _layer(self, d, g):
        if g is None:
            return self.data[d] if d < len(self.data) else None
        return self._sub(d, g)

    # ---- operations ------------------------------------------------------------------------
    def apply(self, op):
        k = op[0]
        dc, v = self.dc, self.viewer
        nd, ng = len(self.data), len(self.groups)
        self.err = False
        if k == 'app':
            if op[1] < nd:
                dc.append(self.data[op[1]])
        elif k == 'rem':
            if op[1] < nd:
                dc.remove(self.data[op[1]])
        elif k == 'ng':
            g = dc.new_subset_group()
            self.gid[id(g)] = len(self.groups)
            self.groups.append(g)
            self.keep.append(g)
        elif k == 'rg':
            if op[1] < ng:
                dc.remove_subset_group(self.groups[op[1]])
        elif k == 'vad':
            if op[1] < nd:
                try:
                    v.add_data(self.data[op[1]])
                except IncompatibleDataException:
                    self.err = True
            else:
                self.err = True  # the model: a dataset that does not exist is not in the collection
        elif k == 'vas':
            s = self._sub(op[1], op[2])
            if s is not None:
                v.add_subset(s)
        elif k == 'vrd':
            if op[1] < nd:
                v.remove_data(self.data[op[1]])
        elif k == 'vrs':
            s = self._sub(op[1], op[2])
            if s is not None:
                v.remove_subset(s)
        elif k == 'vrl':
            layer = self._layer(op[1], op[2])
            if layer is not None:
                v.remove_layer(layer)
        elif k == 'vps':
            layer = self._layer(op[1], op[2])
            if layer is not None:
                for ls in list(v.state.layers):
                    if ls.layer is layer:
                        v.state.layers.remove(ls)
                        break
        elif k == 'rst':
            self.restore()
        else:
            raise ValueError(op)

    def restore(self):
        old_dc, old_v = self.dc, self.viewer
        gs = GlueSerializer(self.app)
        vid = gs.id(old_v)
        us = GlueUnSerializer.loads(gs.dumps())
        app = us.object('__main__')
        new_v = us.object(vid)
        new_dc = app.data_collection
        self.keep.extend([app, new_v, new_dc, us])
        for od, nw in zip(list(old_dc.data), list(new_dc.data)):
            i = self.did.get(id(od))
            if i is not None:
                self.data[i] = nw
                self.did[id(nw)] = i
            self.keep.append(nw)
            for os_, ns in zip(od.subsets, nw.subsets):
                if id(os_) in self.snames:
                    self.snames.setdefault(id(ns), self.snames[id(os_)])
                self.keep.append(ns)
        for og, nw in zip(old_dc.subset_groups, new_dc.subset_groups):
            i = self.gid.get(id(og))
            if i is not None:
                self.groups[i] = nw
                self.gid[id(nw)] = i
            self.keep.append(nw)
        # layer states: the restored ones stand for the saved ones, position by position
        for ols, nls in zip(list(old_v.state.layers), list(new_v.state.layers)):
            if id(ols) in self.anames:
                self.anames.setdefault(id(nls), self.anames[id(ols)])
            self.keep.append(nls)
        # datasets outside the collection are not part of the session: fresh objects stand for them
        in_new = {id(d) for d in new_dc.data}
        for i, d in enumerate(self.data):
            if id(d) not in in_new:
                nd = Data(x=np.arange(6.).reshape(2, 3) + i, label=d.label)
                self.data[i] = nd
                self.did[id(nd)] = i
                self.keep.append(nd)
        self.dc, self.app, self.viewer = new_dc, app, new_v

    # ---- observation -----------------------------------------------------------------------
    def _sname(self, s):
        k = id(s)
        if k not in self.snames:
            self.snames[k] = len(set(self.snames.values()))
            self.keep.append(s)
        return self.snames[k]

    def _aname(self, ls):
        k = id(ls)
        if k not in self.anames:
            self.anames[k] = len(set(self.anames.values()))
            self.keep.append(ls)
        return self.anames[k]

    def _d(self, obj):
        if obj is None:
            return None
        return self.did.get(id(obj), 'X')

    def _subtok(self, s):
        return [self._sname(s), self._d(s.data), self.gid.get(id(getattr(s, 'group', None)), 'X')]

    def _tok(self, layer):
        if id(layer) in self.did:
            return ['d', self.did[id(layer)]]
        if isinstance(layer, Data):
            return ['d', 'X']
        return ['s'] + self._subtok(layer)

    def snapshot(self):
        ds = [[self._subtok(s) for s in d.subsets] for d in self.data]
        v = self.viewer
        L = [[a.state, a.layer] for a in v.layers]
        S = [[ls, ls.layer] for ls in v.state.layers]
        # names in order of first appearance: subsets ds -> L -> S, states L -> S
        Lt = [[None, self._tok(l)] for _, l in L]
        St = [[None, self._tok(l)] for _, l in S]
        for row, (st, _) in zip(Lt, L):
            row[0] = self._aname(st)
        for row, (st, _) in zip(St, S):
            row[0] = self._aname(st)
        return [['D'] + [self._d(d) for d in self.dc.data], ['ds'] + ds, ['L'] + Lt, ['S'] + St,
                ['e', bool(self.err)]]


ND, NG = 2, 2


def _run_view(case):
    n, _nc, cls, ops = case
    gc.disable()
    w = ViewWorld(n, cls)
    snaps = [w.snapshot()]
    for op in ops:
        w.apply(op)
        snaps.append(w.snapshot())
    try:
        w.viewer.cleanup()
    except Exception:
        pass
    w.keep.clear()
    return snaps


def _valid_view(ops, max_groups=NG):
    made = 0
    for op in ops:
        if op[0] == 'ng':
            made += 1
            if made > max_groups:
                return False
        elif op[0] == 'rg' and op[1] >= made:
            return False
        elif op[0] in ('vas', 'vrs') and op[2] >= made:
            return False
        elif op[0] in ('vrl', 'vps') and op[2] is not None and op[2] >= made:
            return False
    return True


def _canonical_view(ops):
    """dataset symmetry: first mentions in the order 0, 1, 2"""
    nxt = 0
    for op in ops:
        if op[0] in ('app', 'rem', 'vad', 'vrd', 'vas', 'vrs', 'vrl', 'vps'):
            d = op[1]
            if d > nxt:
                return False
            if d == nxt:
                nxt += 1
    return True


def view_sequences(alphabet, length):
    def rec(prefix):
        if len(prefix) == length:
            yield [list(o) for o in prefix]
            return
        for op in alphabet:
            p = prefix + [op]
            if _valid_view(p):
                yield from rec(p)
    yield from rec([])


# core alphabet: collection ops on 2 datasets x 1 group + the viewer ops the property is about
VCORE = [['app', 0], ['app', 1], ['rem', 0], ['rem', 1], ['ng'], ['rg', 0],
         ['vad', 0], ['vad', 1], ['vrd', 0]]
# extended ops: exactly one of them somewhere in a core sequence
VEXT = [['vas', 0, 0], ['vrs', 0, 0], ['vrl', 0, None], ['vrl', 0, 0], ['vps', 0, None], ['vps', 0, 0],
        ['vrd', 1], ['rg', 1], ['vas', 1, 0], ['vps', 1, None]]


def random_view_op(rng, nd, made):
    r = rng.random()
    d = lambda: rng.randrange(nd)  # noqa: E731
    g = lambda: rng.randrange(made)  # noqa: E731
    if r < 0.16:
        return ['app', d()]
    if r < 0.26:
        return ['rem', d()]
    if r < 0.36:
        return ['ng']
    if r < 0.42 and made:
        return ['rg', g()]
    if r < 0.62:
        return ['vad', d()]
    if r < 0.68:
        return ['vrd', d()]
    if made:
        if r < 0.74:
            return ['vas', d(), g()]
        if r < 0.80:
            return ['vrs', d(), g()]
        if r < 0.87:
            return ['vrl', d(), rng.choice([None, g()])]
        if r < 0.94:
            return ['vps', d(), rng.choice([None, g()])]
    else:
        if r < 0.80:
            return ['vrl', d(), None]
        if r < 0.90:
            return ['vps', d(), None]
    return ['rst']


def random_view_seq(rng, length, nd, cls, max_groups=3):
    ops, made = [], 0
    while len(ops) < length:
        op = random_view_op(rng, nd, made)
        if op[0] == 'ng':
            if made >= max_groups:
                continue
            made += 1
        if op[0] == 'rst' and cls not in RESTORABLE:
            continue
        ops.append(op)
    return ops


def _shrink_view(case):
    n, nc, cls, ops = case
    for k in range(len(ops) - 1, 0, -1):
        yield [n, nc, cls, ops[:k]]
    for i in range(len(ops)):
        rest = ops[:i] + ops[i + 1:]
        if _valid_view(rest, 9):
            yield [n, nc, cls, rest]
    if cls != 'sc':
        yield [n, nc, 'sc', ops]


def _view_features(case):
    cls, ops = case[2], case[3]
    f = set()
    if any(o[0] == 'rst' for o in ops):
        f.add('restore' if cls in RESTORABLE else 'restore-patched-artist')
    return f


class View(Family):
    name = "view"
    exhaustive = True
    batch = 40
    budget_share = 3.0
    case_timeout = 60.0

    def __init__(self):
        self.colors = len(settings.SUBSET_COLORS)

    def setup(self):
        gc.disable()

    def reset(self):
        Registry().clear()
        self._n = getattr(self, "_n", 0) + 1
        if self._n % 20 == 0:
            gc.collect()

    def cases(self, tier, rng):
        nc = self.colors
        keys = list(VIEWERS)
        k = 0

        def cls_next():
            nonlocal k
            k += 1
            return keys[k % 4]
        # suspected areas first (all four classes)
        seeds = [
            [['app', 0], ['ng'], ['vad', 0], ['rg', 0]],
            [['app', 0], ['vad', 0], ['ng'], ['rem', 0], ['app', 0], ['vad', 0]],
            [['app', 0], ['app', 1], ['ng'], ['vad', 0], ['vad', 1], ['vps', 0, None], ['ng'], ['rem', 0]],
            [['app', 0], ['ng'], ['vas', 0, 0], ['vad', 0], ['vrs', 0, 0], ['vad', 0], ['vrd', 0]],
            [['vad', 0], ['app', 0], ['vad', 0], ['vad', 0], ['ng'], ['vrl', 0, 0], ['ng']],
        ]
        for ops in seeds:
            for c in keys:
                yield [ND, nc, c, ops]
        for ops in ([['app', 0], ['ng'], ['vad', 0], ['rst'], ['ng'], ['rem', 0]],
                    [['app', 0], ['app', 1], ['ng'], ['vad', 0], ['vad', 1], ['vps', 0, None], ['rst'], ['ng'], ['rg', 0]],
                    [['app', 0], ['ng'], ['vas', 0, 0], ['rst'], ['vad', 0], ['rst']]):
            for c in RESTORABLE:
                yield [ND, nc, c, ops]
        # exhaustive: one extended op at every position of every core sequence
        Lx = 3 if tier == "quick" else 4
        for n_before in range(0, Lx + 1):
            for pre in view_sequences(VCORE, n_before):
                for x in VEXT + [['rst']]:
                    for post in view_sequences(VCORE, Lx - n_before):
                        ops = pre + [list(x)] + post
                        if not (_valid_view(ops) and _canonical_view(ops)):
                            continue
                        if x[0] == 'rst':
                            yield [ND, nc, RESTORABLE[k % 2], ops]
                            k += 1
                        else:
                            yield [ND, nc, cls_next(), ops]
        # exhaustive: every core sequence of exactly L ops (shorter ones are prefixes)
        L = 5 if tier == "quick" else 6
        for ops in view_sequences(VCORE, L):
            if _canonical_view(ops):
                yield [ND, nc, cls_next(), ops]


class ViewRandom(View):
    name = "viewr"
    exhaustive = False
    batch = 20
    budget_share = 1.5

    def cases(self, tier, rng):
        nc = self.colors
        keys = list(VIEWERS)
        n_cases = 600 if tier == "quick" else 20000
        for i in range(n_cases):
            cls = keys[i % 4]
            nd = rng.choice([2, 3])
            length = rng.randint(4, 15) if tier == "quick" else rng.randint(4, 40)
            yield [nd, nc, cls, random_view_seq(rng, length, nd, cls)]


for _cls in (View, ViewRandom):
    _cls.run_impl = lambda self, case: _run_view(case)
    _cls.shrink = lambda self, case: _shrink_view(case)
    _cls.line = lambda self, case, pyout: sx(["view", case, pyout])
    _cls.nontrivial = lambda self, case, po: (any(op[0] == 'vad' for op in case[3]) and
                                              any(op[0] in ('ng', 'rem', 'rg') for op in case[3]))
    _cls.signature = lambda self, case, po, res: {"construct": "+".join(sorted(_view_features(case))) or "plain"}


PROP = Property(
    id="C18",
    title="Viewers and attribute pickers mirror the collection",
    theorems=["C18.placeholder"],
    families=[View(), ViewRandom()],
)
