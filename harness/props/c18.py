"""C18 — viewers and attribute pickers mirror the collection.

Families

  view / viewr   a real `Application` + `DataCollection` + one of the four headless viewers
                 (`SimpleScatterViewer`, `SimpleHistogramViewer`, `SimpleImageViewer`,
                 `SimpleProfileViewer`), driven by a history of collection operations (append /
                 remove dataset, new / remove subset group) and viewer operations (add_data,
                 add_subset, remove_data, remove_subset, remove_layer, state.layers.remove, save +
                 restore); after every step: `dc.data`, `d.subsets` of every dataset ever created,
                 `viewer.layers` and `viewer.state.layers` as (identity token of the layer state,
                 identity token of the layer).
  combo / combor `ComponentIDComboHelper` on a plain `State` (see `ComboWorld`).
  dcombo         `ManualDataComboHelper` / `DataCollectionComboHelper`.
  vpick          the viewers' own x / y attribute pickers, in situ.
  kinds          introspection: every `Component` subclass and every `Data.get_kind` value of the
                 tree under test must be known to the Lean model and produced by the dataset
                 templates below (`TEMPLATES`); every class x all 128 flag combinations.

Dataset templates (`make_data`): the picker families draw their datasets from `TEMPLATES`, which
together contain every component class glue has (plain, categorical, datetime, derived, pixel / world
coordinate, dask, extended = the region column of a `RegionData`).
  axes           `ImageViewerState` axis setters.

Matplotlib rendering (`FigureCanvasAgg.draw`, `draw_idle`, the tick layout of astropy's WCSAxes) is
stubbed out in this process: it is not part of the bookkeeping under test and costs 20-50x the rest
(measured: 0.3 s per operation with rendering, 10 ms without).
"""
import gc
import itertools
import logging
import warnings

from harness.core import Family, Property, use_repo, sx

use_repo()
warnings.filterwarnings('ignore')
logging.disable(logging.WARNING)

import numpy as np  # noqa: E402
from matplotlib.backend_bases import FigureCanvasBase  # noqa: E402
from matplotlib.backends.backend_agg import FigureCanvasAgg  # noqa: E402

FigureCanvasBase.draw_idle = lambda self, *a, **k: None
FigureCanvasAgg.draw = lambda self, *a, **k: None
# the tick / label layout of astropy's WCSAxes (run by every set_xlabel / set_ylabel of the image
# viewer, 10-25 ms each, 80 % of an image-viewer case) is rendering too
from astropy.visualization.wcsaxes.core import WCSAxes  # noqa: E402
WCSAxes._update_tick_and_label_positions = lambda self, *a, **k: None

from glue.core import Data, DataCollection  # noqa: E402
from glue.core.application_base import Application  # noqa: E402
from glue.core.exceptions import IncompatibleDataException  # noqa: E402
from glue.core.registry import Registry  # noqa: E402
from glue.core.state import GlueSerializer, GlueUnSerializer  # noqa: E402
from glue.config import settings  # noqa: E402
from glue.viewers.scatter.viewer import SimpleScatterViewer  # noqa: E402
from glue.viewers.histogram.viewer import SimpleHistogramViewer  # noqa: E402
from glue.viewers.image.viewer import SimpleImageViewer  # noqa: E402
from glue.viewers.profile.viewer import SimpleProfileViewer  # noqa: E402

_GC_READY = [False]


def _gc_setup():
    """gc stays disabled while a case runs (Subset.__del__ broadcasts); the objects that exist
    before the first case (all imported modules) are frozen so that the explicit collections between
    cases only look at what the cases allocated (a full collection costs 0.7 s otherwise)"""
    if not _GC_READY[0]:
        gc.collect()
        gc.freeze()
        _GC_READY[0] = True
    gc.disable()


VIEWERS = {'sc': SimpleScatterViewer, 'hi': SimpleHistogramViewer,
           'im': SimpleImageViewer, 'pr': SimpleProfileViewer}
# all four classes are saved and restored (histogram / profile viewers with layers restore since
# `fix: patch fallback to live class` = C12's F12b; before, finding C18c)
RESTORABLE = ('sc', 'im', 'hi', 'pr')
# datasets an image viewer shows as scatter / region overlays (1-d)
ONE_D = ('std', 'reg', 'ext1', 'dask')


def _refused(exc):
    """SimpleImageViewer refuses a 1-d dataset / subset while it has no layer at all (by design:
    `_scatter_artist` / `_region_artist`); nothing has been touched when this is raised"""
    return type(exc) is Exception and 'once an image is present' in str(exc)


# ---------------------------------------------------------------------------------------------
# dataset templates: every component class / kind glue has
# ---------------------------------------------------------------------------------------------

import ast  # noqa: E402
import inspect  # noqa: E402
import textwrap  # noqa: E402

import glue.core.component as _gcc  # noqa: E402
import glue.core.data_region as _gdr  # noqa: E402
from glue.core.component import (Component, CoordinateComponent, DaskComponent,  # noqa: E402
                                 ExtendedComponent)
from glue.core.data_region import RegionData  # noqa: E402
from glue.core.coordinates import IdentityCoordinates, AffineCoordinates  # noqa: E402

_SHARED = {}


def _geoms():
    if 'geoms' not in _SHARED:
        from shapely.geometry import Polygon
        _SHARED['geoms'] = np.array([Polygon([(0, 0), (1, 0), (1, 1)]), Polygon([(2, 2), (3, 2), (3, 3)]),
                                     Polygon([(4, 4), (5, 4), (5, 5)])])
    return _SHARED['geoms']


def _dask():
    if 'dask' not in _SHARED:
        import dask.array as da
        _SHARED['dask'] = da.from_array(np.arange(3.))
    return _SHARED['dask']


# name -> number of component ids (pixel + world + main + derived); the Lean side of each template is
# `tmplOf?` in lean/Drivers/C18.lean
TEMPLATES = {'std': 5, 'reg': 5, 'ext1': 3, 'dask': 3, 'drv': 6, 'bare': 3}
TMPLS = list(TEMPLATES)


def make_data(tmpl, i, label=None):
    lbl = label or 'd%i' % i
    if tmpl == 'std':     # CategoricalComponent, DateTimeComponent, Component, pixel + world CoordinateComponent
        return Data(c=np.array(['a', 'b', 'c']),
                    t=np.array(['2020-01-01', '2020-01-02', '2020-01-03'], dtype='datetime64[D]'),
                    x=[1., 2., 3.], coords=IdentityCoordinates(n_dim=1), label=lbl)
    if tmpl == 'reg':     # RegionData: flux, the two centre columns, the ExtendedComponent
        return RegionData(label=lbl, regions=_geoms(), flux=np.array([1., 2., 3.]) + i)
    if tmpl == 'ext1':    # a plain Data carrying an ExtendedComponent
        d = Data(x=[1., 2., 3.], label=lbl)
        d.add_component(ExtendedComponent(_geoms(), center_comp_ids=[d.id['x']]), 'e')
        return d
    if tmpl == 'dask':    # CategoricalComponent + DaskComponent
        d = Data(s=np.array(['a', 'b', 'c']), label=lbl)
        d.add_component(DaskComponent(_dask()), 'k')
        return d
    if tmpl == 'drv':     # 2-d, affine coordinates, a DerivedComponent
        d = Data(x=np.arange(6.).reshape(2, 3) + i, label=lbl,
                 coords=AffineCoordinates(np.array([[2., 0., 1.], [0., 1., 0.], [0., 0., 1.]])))
        d['v'] = d.pixel_component_ids[0] + 1
        return d
    if tmpl == 'bare':    # 2-d, no coordinates (the viewer families' standard dataset)
        return Data(x=np.arange(6.).reshape(2, 3) + i, label=lbl)
    raise ValueError(tmpl)


def tmpl_list(n, default):
    """a case names its datasets by a number (n default templates) or a list of template names"""
    return [default] * n if isinstance(n, int) else list(n)


def data_cids(d):
    """the component ids of a dataset in the numbering order of the model: pixel, world, main,
    derived (owned by the dataset)"""
    return (list(d.pixel_component_ids) + list(d.world_component_ids) + list(d.main_components) +
            [c for c in d.derived_components if c.parent is d])


def _class_atom(comp):
    n = type(comp).__name__
    if isinstance(comp, CoordinateComponent):
        n += 'World' if comp.world else 'Pixel'
    return n


def component_classes():
    """every Component subclass that exists in the process (all of glue.core and the viewers are
    imported by now), CoordinateComponent split into its pixel / world flavours"""
    assert _gcc.Component is Component and _gdr.RegionData is RegionData
    seen, stack = [], [Component]
    while stack:
        c = stack.pop()
        if c not in seen:
            seen.append(c)
            stack.extend(c.__subclasses__())
    out = set()
    for c in seen:
        if c is CoordinateComponent:
            out.update([c.__name__ + 'Pixel', c.__name__ + 'World'])
        else:
            out.add(c.__name__)
    return sorted(out)


def get_kind_values():
    """the strings `Data.get_kind` (and overrides in subclasses of Data) can return, read off the
    source; a return that is not a string literal is reported as `dynamic`"""
    out = set()
    seen, stack = [], [Data]
    while stack:
        c = stack.pop()
        if c not in seen:
            seen.append(c)
            stack.extend(c.__subclasses__())
    for c in seen:
        f = c.__dict__.get('get_kind')
        if f is None:
            continue
        tree = ast.parse(textwrap.dedent(inspect.getsource(f)))
        for node in ast.walk(tree):
            if isinstance(node, ast.Return) and node.value is not None:
                if isinstance(node.value, ast.Constant) and isinstance(node.value.value, str):
                    out.add(node.value.value)
                else:
                    out.add('dynamic')
    return out


def _kind_atom(k):
    return KIND_ATOM.get(k, 'unknown-' + ''.join(ch if ch.isalnum() else '-' for ch in str(k)))


AC_KINDS = ('num', 'cat', 'dt', 'ext', 'dask')


def _generator_components():
    """(class atom, kind) of every component the generators can put into a dataset: the templates +
    every `ac` op on a `std` dataset"""
    out = []
    ds = [make_data(t, i) for i, t in enumerate(TMPLS)]
    extra = make_data('std', 9)
    for k in AC_KINDS:
        extra.add_component(_values(k, 0, extra), 'n' + k)
    extra['v'] = extra.pixel_component_ids[0] + 1
    for d in ds + [extra]:
        for cid in list(d.component_ids()):
            out.append((_class_atom(d.get_component(cid)), d.get_kind(cid)))
    return out


def _run_kinds(case):
    gc.disable()
    if case[0] == 'enum':
        made = _generator_components()
        produced = {c for c, _ in made}
        kinds = get_kind_values() | {k for _, k in made}
        return [['classes'] + [[c, c in produced] for c in component_classes()],
                ['kinds'] + sorted(_kind_atom(k) for k in kinds)]
    flags = dict(zip(FLAG_NAMES, case[1]))
    ds = [make_data(t, i) for i, t in enumerate(TMPLS)]
    dc = DataCollection(ds)
    st = ExState()
    if case[2] == 'init':    # the way viewers' layer states build their pickers
        h = ComponentIDComboHelper(st, 'combo0', dc, **{FLAG_ATTR[f]: b for f, b in flags.items()})
        h.set_multiple_data(ds)
    else:
        h = ComponentIDComboHelper(st, 'combo0', dc)
        h.set_multiple_data(ds)
        for f in FLAG_NAMES:
            setattr(h, FLAG_ATTR[f], flags[f])
    offered = {id(c) for c in h.choices if c is not None and not isinstance(c, ChoiceSeparator)}
    rows = {}
    for d in ds:
        for cid in list(d.component_ids()):
            rows.setdefault(_class_atom(d.get_component(cid)), []).append(id(cid) in offered)
    return [[c, True if all(v) else (False if not any(v) else 'X')] for c, v in sorted(rows.items())]


class Kinds(Family):
    """no component class / kind escapes the model and the generators; classes x flags"""
    name = "kinds"
    exhaustive = True
    batch = 40
    budget_share = 0.2

    def setup(self):
        _gc_setup()

    def reset(self):
        Registry().clear()

    def cases(self, tier, rng):
        yield ['enum']
        for k, combo in enumerate(itertools.product([True, False], repeat=7)):
            yield ['flags', list(combo), 'init' if k % 2 else 'set']

    def run_impl(self, case):
        return _run_kinds(case)

    def line(self, case, pyout):
        return sx(["kinds", case[:2], pyout])

    def signature(self, case, po, res):
        return {"construct": "kinds"}


# ---------------------------------------------------------------------------------------------
# viewer family
# ---------------------------------------------------------------------------------------------

def _none_props(state):
    """names of the callback properties of a viewer state that are unset (None / empty)"""
    out = []
    for name, value in sorted(state.as_dict().items()):
        if value is None or (hasattr(value, '__len__') and not isinstance(value, str) and len(value) == 0):
            out.append(name)
    return tuple(out)


class ViewWorld:
    """The real objects of one case + the bookkeeping that gives them stable ids / names."""

    # one (Application, DataCollection, viewer) per viewer class is recycled from case to case
    # (construction costs 20-80 ms, an operation 5-10 ms): a case starts from a pooled world only if
    # the previous case left it verifiably empty; a restored world is never pooled
    _pool = {}
    _uses = {}

    def __init__(self, n, cls):
        self.keep = []
        self.cls = cls
        self.tmpls = tmpl_list(n, 'bare')
        self.data = [make_data(t, i) for i, t in enumerate(self.tmpls)]
        self.did = {id(d): i for i, d in enumerate(self.data)}
        self.groups = []
        self.gid = {}
        self.snames = {}   # subset object -> canonical name
        self.anames = {}   # layer state object -> canonical name
        pooled = ViewWorld._pool.pop(cls, None)
        if pooled is not None and ViewWorld._uses.get(cls, 0) < 40:
            self.dc, self.app, self.viewer = pooled
            ViewWorld._uses[cls] = ViewWorld._uses.get(cls, 0) + 1
        else:
            self.dc = DataCollection()
            self.app = Application(self.dc)
            self.viewer = self.app.new_data_viewer(VIEWERS[cls])
            self.viewer._c18_fresh = _none_props(self.viewer.state)
            ViewWorld._uses[cls] = 0
        self.restored = False
        self.keep.extend(self.data)
        self.keep.extend([self.dc, self.app, self.viewer])
        self.err = False
        self._number_cids()

    def _number_cids(self):
        """component ids by creation serial: dataset after dataset in the order pixel, world, main,
        derived; components added later continue from there (never after a restore: histories with
        component ops have no `rst`)"""
        self.cserial = {}
        for d in self.data:
            for c in data_cids(d):
                self.cserial[id(c)] = len(self.cserial)
                self.keep.append(c)
        self.ncid = len(self.cserial)

    def _new_cid(self, cid):
        self.cserial[id(cid)] = self.ncid
        self.ncid += 1
        self.keep.append(cid)

    def _comp_op(self, op):
        """`ac ad rc rn ro rp` of family `combo` on the datasets of the viewer world"""
        k = op[0]
        if op[1] >= len(self.data):
            return
        d = self.data[op[1]]
        comps = list(d.main_components) + [c for c in d.derived_components if c.parent is d]
        self.restored = True   # datasets are per case, but be safe: never pool a world whose data changed
        if k == 'ac':
            self._new_cid(d.add_component(_values(op[2], self.ncid, d), 'n%i' % self.ncid))
        elif k == 'ad':
            lbl = 'v%i' % self.ncid
            try:
                d[lbl] = d.pixel_component_ids[0] + 1
            except TypeError:
                if not isinstance(d, RegionData):
                    raise
                d.add_component_link(d.pixel_component_ids[0] + 1, lbl)
            self._new_cid(d.id[lbl])
        elif k == 'rc':
            if op[2] < len(comps):
                d.remove_component(comps[op[2]])
        elif k == 'rn':
            if op[2] < len(comps):
                comps[op[2]].label = comps[op[2]].label + 'r'
        elif k == 'ro':
            d.reorder_components(list(reversed(d.components)))
        elif k == 'rp':
            mains = list(d.main_components)
            if op[2] < len(mains):
                new = ComponentID('u%i' % self.ncid, parent=d)
                d.update_id(mains[op[2]], new)
                self._new_cid(new)

    def recycle(self):
        """empty the world through the public API; pool it if that leaves nothing behind"""
        if self.restored:
            try:
                self.viewer.cleanup()
            except Exception:
                pass
            return
        try:
            dc, v = self.dc, self.viewer
            for g in list(dc.subset_groups):
                dc.remove_subset_group(g)
            for d in list(dc.data):
                dc.remove(d)
            for d in self.data:
                v.remove_data(d)
            # the viewer state must be back to what a fresh viewer has (same attributes unset), so
            # that a case never depends on its predecessors and every replay is self-contained
            clean = (len(v.layers) == 0 and len(v.state.layers) == 0 and len(dc.data) == 0 and
                     len(dc.subset_groups) == 0 and not dc.hub._queue and not dc.hub._paused and
                     _none_props(v.state) == getattr(v, '_c18_fresh', None))
            # ... and its pickers must listen like those of a fresh viewer will once they get data
            for h in vars(v.state).values():
                if isinstance(h, ComponentIDComboHelper) and h._hub is not None and h not in dc.hub._subscriptions:
                    clean = False
            if clean:
                ViewWorld._pool[self.cls] = (dc, self.app, v)
        except Exception:
            pass

    # ---- lookup ----------------------------------------------------------------------------
    def _sub(self, d, g):
        """the subset of group g currently attached to dataset d (first one), or None"""
        if d >= len(self.data) or g >= len(self.groups):
            return None
        grp = self.groups[g]
        for s in self.data[d].subsets:
            if getattr(s, 'group', None) is grp:
                return s
        return None

    def _layer(self, d, g):
        if g is None:
            return self.data[d] if d < len(self.data) else None
        return self._sub(d, g)

    # ---- operations ------------------------------------------------------------------------
    def apply(self, op):
        k = op[0]
        dc, v = self.dc, self.viewer
        nd, ng = len(self.data), len(self.groups)
        self.err = False
        if k == 'app':
            if op[1] < nd:
                dc.append(self.data[op[1]])
        elif k == 'rem':
            if op[1] < nd:
                dc.remove(self.data[op[1]])
        elif k == 'ng':
            g = dc.new_subset_group()
            self.gid[id(g)] = len(self.groups)
            self.groups.append(g)
            self.keep.append(g)
        elif k == 'rg':
            if op[1] < ng:
                dc.remove_subset_group(self.groups[op[1]])
        elif k == 'vad':
            if op[1] < nd:
                try:
                    v.add_data(self.data[op[1]])
                except IncompatibleDataException:
                    self.err = True
                except Exception as exc:
                    if not _refused(exc):
                        raise
                    self.err = True
            else:
                self.err = True  # the model: a dataset that does not exist is not in the collection
        elif k == 'vas':
            s = self._sub(op[1], op[2])
            if s is not None:
                try:
                    v.add_subset(s)
                except Exception as exc:
                    if not _refused(exc):
                        raise
                    self.err = True
        elif k == 'vrd':
            if op[1] < nd:
                v.remove_data(self.data[op[1]])
        elif k == 'vrs':
            s = self._sub(op[1], op[2])
            if s is not None:
                v.remove_subset(s)
        elif k == 'vrl':
            layer = self._layer(op[1], op[2])
            if layer is not None:
                v.remove_layer(layer)
        elif k == 'vps':
            layer = self._layer(op[1], op[2])
            if layer is not None:
                for ls in list(v.state.layers):
                    if ls.layer is layer:
                        v.state.layers.remove(ls)
                        break
        elif k == 'rst':
            self.restore()
        elif k in ('ac', 'ad', 'rc', 'rn', 'ro', 'rp'):
            self._comp_op(op)
        elif k == 'vfl':
            hs = VP_HELPERS.get(self.cls, [])
            if op[1] < len(hs):
                setattr(getattr(v.state, hs[op[1]][0]), FLAG_ATTR[op[2]], bool(op[3]))
                self.restored = True   # a viewer whose helpers were reconfigured is never pooled
        else:
            raise ValueError(op)

    def restore(self):
        old_dc, old_v = self.dc, self.viewer
        gs = GlueSerializer(self.app)
        vid = gs.id(old_v)
        us = GlueUnSerializer.loads(gs.dumps())
        app = us.object('__main__')
        new_v = us.object(vid)
        new_dc = app.data_collection
        self.keep.extend([app, new_v, new_dc, us])
        for od, nw in zip(list(old_dc.data), list(new_dc.data)):
            i = self.did.get(id(od))
            if i is not None:
                self.data[i] = nw
                self.did[id(nw)] = i
            self.keep.append(nw)
            for os_, ns in zip(od.subsets, nw.subsets):
                if id(os_) in self.snames:
                    self.snames.setdefault(id(ns), self.snames[id(os_)])
                self.keep.append(ns)
        for og, nw in zip(old_dc.subset_groups, new_dc.subset_groups):
            i = self.gid.get(id(og))
            if i is not None:
                self.groups[i] = nw
                self.gid[id(nw)] = i
            self.keep.append(nw)
        # layer states: the restored ones stand for the saved ones, position by position
        for ols, nls in zip(list(old_v.state.layers), list(new_v.state.layers)):
            if id(ols) in self.anames:
                self.anames.setdefault(id(nls), self.anames[id(ols)])
            self.keep.append(nls)
        # datasets outside the collection are not part of the session: fresh objects stand for them
        in_new = {id(d) for d in new_dc.data}
        for i, d in enumerate(self.data):
            if id(d) not in in_new:
                nd = make_data(self.tmpls[i], i, d.label)
                self.data[i] = nd
                self.did[id(nd)] = i
                self.keep.append(nd)
        self.dc, self.app, self.viewer = new_dc, app, new_v
        self.restored = True
        self._number_cids()

    # ---- observation -----------------------------------------------------------------------
    def _sname(self, s):
        k = id(s)
        if k not in self.snames:
            self.snames[k] = len(set(self.snames.values()))
            self.keep.append(s)
        return self.snames[k]

    def _aname(self, ls):
        k = id(ls)
        if k not in self.anames:
            self.anames[k] = len(set(self.anames.values()))
            self.keep.append(ls)
        return self.anames[k]

    def _d(self, obj):
        if obj is None:
            return None
        return self.did.get(id(obj), 'X')

    def _subtok(self, s):
        return [self._sname(s), self._d(s.data), self.gid.get(id(getattr(s, 'group', None)), 'X')]

    def _tok(self, layer):
        if id(layer) in self.did:
            return ['d', self.did[id(layer)]]
        if isinstance(layer, Data):
            return ['d', 'X']
        return ['s'] + self._subtok(layer)

    def snapshot(self):
        ds = [[self._subtok(s) for s in d.subsets] for d in self.data]
        v = self.viewer
        L = [[a.state, a.layer] for a in v.layers]
        S = [[ls, ls.layer] for ls in v.state.layers]
        # names in order of first appearance: subsets ds -> L -> S, states L -> S
        Lt = [[None, self._tok(l)] for _, l in L]
        St = [[None, self._tok(l)] for _, l in S]
        for row, (st, _) in zip(Lt, L):
            row[0] = self._aname(st)
        for row, (st, _) in zip(St, S):
            row[0] = self._aname(st)
        return [['D'] + [self._d(d) for d in self.dc.data], ['ds'] + ds, ['L'] + Lt, ['S'] + St,
                ['e', bool(self.err)]]


ND, NG = 2, 2
VIEW_TMPLS = ['bare', 'reg', 'std', 'ext1', 'drv', 'dask']
# image viewer + 1-d datasets: dataset 0 is the image, dataset 1 the table / region list
IMAGE_1D_TMPLS = [['bare', 'std'], ['drv', 'reg'], ['bare', 'ext1'], ['drv', 'std']]
IMAGE_1D_SEEDS = [
    [['app', 0], ['app', 1], ['vad', 0], ['vad', 1], ['vrd', 0]],                      # the C18b witness
    [['app', 0], ['app', 1], ['vad', 0], ['vad', 1], ['rem', 0]],                      # ... through dc.remove
    [['app', 0], ['app', 1], ['vad', 0], ['vad', 1], ['vrd', 0], ['rst'], ['vad', 0]],  # saved without reference data
    [['app', 0], ['app', 1], ['vad', 1], ['vad', 0], ['vad', 1], ['rst'], ['vrd', 0], ['vad', 0]],   # refused first
    [['app', 0], ['app', 1], ['ng'], ['vas', 1, 0], ['vad', 0], ['vas', 1, 0], ['vrd', 0], ['ng'], ['rst']],
    [['app', 0], ['app', 1], ['ng'], ['vad', 0], ['vad', 1], ['vps', 0, None], ['rg', 0], ['vad', 0], ['vrl', 0, None]],
]
IMAGE_1D_ALPHA = [['vad', 0], ['vad', 1], ['vrd', 0], ['vrd', 1], ['rem', 0], ['ng'], ['vps', 0, None], ['rst']]


def _savable(tmpls, ops):
    """a session with a DaskComponent cannot be saved (GlueSerializeError, by design: the dask array
    is not serialisable): histories with a restore do not get the `dask` template"""
    if any(o[0] == 'rst' for o in ops):
        return ['std' if t == 'dask' else t for t in tmpls]
    return tmpls

VP_HELPERS = {'sc': [('x_att_helper', 'x_att'), ('y_att_helper', 'y_att')], 'hi': [('x_att_helper', 'x_att')]}
VP_FLAG_DEFAULT = {'numeric': True, 'datetime': True, 'categorical': True, 'pixel': True, 'world': True,
                   'derived': True, 'none': False}
VPT_ALPHA = [['vad', 0], ['vad', 1], ['vrd', 0], ['rem', 1], ['ng'], ['vfl', 0, 'numeric', False],
             ['vfl', 1, 'pixel', False]]


# `rc 0 1`: the second of main + derived — `t` of `std`, the derived component of `drv`, for `bare` the
# component an earlier `ac 0 num` added.  (Removing the *last* numerical component of a dataset a
# scatter / image / profile viewer shows makes layer-state callbacks raise IncompatibleAttribute —
# `cmap_att` / `attribute` become None —, which is not a picker matter: not generated.)
VP_REFILL_ALPHA = [['ac', 0, 'num'], ['ac', 1, 'cat'], ['rc', 0, 1], ['ro', 0], ['rn', 0, 0]]
VP_EMPTY = [[['vrd', 0]], [['rem', 0], ['app', 0]], [['vps', 0, None]], [['vrl', 0, None]]]
VP_REFILL_TMPLS = [('std', 'dask'), ('bare', 'std'), ('drv', 'std'), ('std', 'bare')]


VP_TMPL_COMPS = {'std': (['cat', 'dt', 'num*'], 0), 'bare': (['num*'], 0), 'drv': (['num*'], 1), 'dask': (['cat', 'num*'], 0)}


def _vp_comp_valid(tmpls, ops):
    """the numerical component a dataset starts with (`num*`: what an image / profile / scatter layer
    shows by default) is never removed — see VP_REFILL_ALPHA; removing the component an image layer
    displays raises IncompatibleAttribute out of `remove_component` on the unchanged tree even when
    other numerical components remain (layer artist, not picker: reported in design.md)"""
    mains = [list(VP_TMPL_COMPS[t][0]) for t in tmpls]
    for op in ops:
        if op[0] in ('ac', 'rc', 'ro') and op[1] < len(tmpls):
            d = op[1]
            if op[0] == 'ac':
                mains[d].append('num' if op[2] in ('num', 'dask') else op[2])
            elif op[0] == 'ro':
                mains[d].reverse()
            elif op[2] < len(mains[d]):
                del mains[d][op[2]]
            if 'num*' not in mains[d]:
                return False
    return True


def _picker_snaps(w):
    """the attribute pickers of the viewer state, in the snapshot format of family `combo`;
    component ids: numbered dataset after dataset in the order pixel, world, main, derived (for the
    standard 2-d dataset: 3i, 3i+1 pixel axes, 3i+2 `x`)"""
    serial = w.cserial
    st = w.viewer.state
    out = []
    for hname, prop in VP_HELPERS.get(w.cls, []):
        h = getattr(st, hname)
        F = ['F'] + [bool(getattr(h, FLAG_ATTR[f])) for f in FLAG_NAMES]
        H = ['H']
        for d in h._data:
            H.append([w._d(d),
                      ['m'] + [[serial.get(id(c), 'X'), _kind_atom(d.get_kind(c))] for c in d.main_components],
                      ['dv'] + [serial.get(id(c), 'X') for c in d.derived_components if c.parent is d],
                      ['p'] + [serial.get(id(c), 'X') for c in d.pixel_component_ids],
                      ['w'] + [serial.get(id(c), 'X') for c in d.world_component_ids]])
        ch = []
        for c in h.choices:
            if c is None:
                ch.append('N')
            elif isinstance(c, ChoiceSeparator):
                t = str(c)
                if t in SEP:
                    ch.append(SEP[t])
                else:
                    hit = [i for i, d in enumerate(w.data) if d.label == t]
                    ch.append(['sd', hit[0]] if hit else 'X')
            else:
                ch.append(['c', serial.get(id(c), 'X')])
        sel = getattr(st, prop)
        # a pooled viewer's helpers have latched on to the hub in an earlier case: while the helper is
        # empty the two flags are reported as set (the Spec is about helpers that hold a dataset)
        u = _sub_state(h, w.dc.hub)
        if len(h._data) == 0:
            u = ['u', True, True]
        out.append([F, H, ['c'] + ch, ['s', None if sel is None else serial.get(id(sel), 'X')], ['e', False], ['q', 0], u])
    return out


def _run_vpick(case):
    n, _nc, cls, ops = case
    gc.disable()
    w = ViewWorld(n, cls)
    snaps = [[w.snapshot(), _picker_snaps(w)]]
    for op in ops:
        w.apply(op)
        snaps.append([w.snapshot(), _picker_snaps(w)])
    w.recycle()
    w.keep.clear()
    return snaps


def _run_view(case):
    n, _nc, cls, ops = case
    gc.disable()
    w = ViewWorld(n, cls)
    snaps = [w.snapshot()]
    for op in ops:
        w.apply(op)
        snaps.append(w.snapshot())
    w.recycle()
    w.keep.clear()
    return snaps


def _valid_view(ops, max_groups=NG):
    made = 0
    for op in ops:
        if op[0] == 'ng':
            made += 1
            if made > max_groups:
                return False
        elif op[0] == 'rg' and op[1] >= made:
            return False
        elif op[0] in ('vas', 'vrs') and op[2] >= made:
            return False
        elif op[0] in ('vrl', 'vps') and op[2] is not None and op[2] >= made:
            return False
    return True


def _canonical_view(ops):
    """dataset symmetry: first mentions in the order 0, 1, 2"""
    nxt = 0
    for op in ops:
        if op[0] in ('app', 'rem', 'vad', 'vrd', 'vas', 'vrs', 'vrl', 'vps'):
            d = op[1]
            if d > nxt:
                return False
            if d == nxt:
                nxt += 1
    return True


def view_sequences(alphabet, length):
    def rec(prefix):
        if len(prefix) == length:
            yield [list(o) for o in prefix]
            return
        for op in alphabet:
            p = prefix + [op]
            if _valid_view(p):
                yield from rec(p)
    yield from rec([])


# core alphabet: collection ops on 2 datasets x 1 group + the viewer ops the property is about
VCORE = [['app', 0], ['app', 1], ['rem', 0], ['rem', 1], ['ng'], ['rg', 0],
         ['vad', 0], ['vad', 1], ['vrd', 0]]
VSMALL = [['app', 0], ['rem', 0], ['ng'], ['rg', 0], ['vad', 0]]
# extended ops: exactly one of them somewhere in a core sequence
VEXT = [['vas', 0, 0], ['vrs', 0, 0], ['vrl', 0, None], ['vrl', 0, 0], ['vps', 0, None], ['vps', 0, 0],
        ['vrd', 1], ['rg', 1], ['vas', 1, 0], ['vps', 1, None]]


def random_view_op(rng, nd, made):
    r = rng.random()
    d = lambda: rng.randrange(nd)  # noqa: E731
    g = lambda: rng.randrange(made)  # noqa: E731
    if r < 0.16:
        return ['app', d()]
    if r < 0.26:
        return ['rem', d()]
    if r < 0.36:
        return ['ng']
    if r < 0.42 and made:
        return ['rg', g()]
    if r < 0.62:
        return ['vad', d()]
    if r < 0.68:
        return ['vrd', d()]
    if made:
        if r < 0.74:
            return ['vas', d(), g()]
        if r < 0.80:
            return ['vrs', d(), g()]
        if r < 0.87:
            return ['vrl', d(), rng.choice([None, g()])]
        if r < 0.94:
            return ['vps', d(), rng.choice([None, g()])]
    else:
        if r < 0.80:
            return ['vrl', d(), None]
        if r < 0.90:
            return ['vps', d(), None]
    return ['rst']


def random_view_seq(rng, length, nd, cls, max_groups=3):
    ops, made = [], 0
    while len(ops) < length:
        op = random_view_op(rng, nd, made)
        if op[0] == 'ng':
            if made >= max_groups:
                continue
            made += 1
        ops.append(op)
    return ops


def _shrink_view(case):
    n, nc, cls, ops = case
    for k in range(len(ops) - 1, 0, -1):
        yield [n, nc, cls, ops[:k]]
    for i in range(len(ops)):
        rest = ops[:i] + ops[i + 1:]
        if _valid_view(rest, 9):
            yield [n, nc, cls, rest]
    if cls != 'sc':
        yield [n, nc, 'sc', ops]


def _view_features(case):
    cls, ops = case[2], case[3]
    f = set()
    if any(o[0] == 'rst' for o in ops):
        f.add('restore-patched-artist' if cls in ('hi', 'pr') else 'restore')
    if cls == 'im' and not isinstance(case[0], int) and any(t in ONE_D for t in case[0]):
        f.add('image-1d')
    return f


class View(Family):
    name = "view"
    exhaustive = True
    batch = 40
    budget_share = 3.0
    case_timeout = 60.0

    def __init__(self):
        self.colors = len(settings.SUBSET_COLORS)

    def setup(self):
        _gc_setup()

    def reset(self):
        Registry().clear()
        self._n = getattr(self, "_n", 0) + 1
        if self._n % 25 == 0:
            gc.collect()

    def cases(self, tier, rng):
        nc = self.colors
        keys = list(VIEWERS)
        k = 0

        def cls_next():
            nonlocal k
            k += 1
            return keys[k % 4]
        # suspected areas first (all four classes)
        seeds = [
            [['app', 0], ['ng'], ['vad', 0], ['rg', 0]],
            [['app', 0], ['vad', 0], ['ng'], ['rem', 0], ['app', 0], ['vad', 0]],
            [['app', 0], ['app', 1], ['ng'], ['vad', 0], ['vad', 1], ['vps', 0, None], ['ng'], ['rem', 0]],
            [['app', 0], ['ng'], ['vas', 0, 0], ['vad', 0], ['vrs', 0, 0], ['vad', 0], ['vrd', 0]],
            [['vad', 0], ['app', 0], ['vad', 0], ['vad', 0], ['ng'], ['vrl', 0, 0], ['ng']],
            # only the dataset's own layer is removed (the subset layers stay), then the dataset goes
            [['app', 0], ['ng'], ['vad', 0], ['vrl', 0, None], ['vrd', 0]],
            [['app', 0], ['ng'], ['vad', 0], ['vps', 0, None], ['vrd', 0], ['vad', 0]],
            [['app', 0], ['app', 1], ['ng'], ['ng'], ['vad', 0], ['vad', 1], ['vrl', 0, None], ['rem', 0], ['vrd', 1]],
            [['app', 0], ['ng'], ['vad', 0], ['vrl', 0, None], ['rst'], ['vrd', 0], ['vad', 0]],
        ]
        for ops in seeds:
            for c in keys:
                yield [ND, nc, c, ops]
        # restore of every class with layers (histogram / profile: the former finding C18c = C12's F12)
        for ops in ([['app', 0], ['vad', 0], ['rst']],
                    [['app', 0], ['ng'], ['vad', 0], ['rst'], ['vrd', 0]],
                    [['app', 0], ['rst'], ['vad', 0], ['ng']],
                    [['app', 0], ['ng'], ['vad', 0], ['rst'], ['ng'], ['rem', 0]],
                    [['app', 0], ['app', 1], ['ng'], ['vad', 0], ['vad', 1], ['vps', 0, None], ['rst'], ['ng'], ['rg', 0]],
                    [['app', 0], ['ng'], ['vas', 0, 0], ['rst'], ['vad', 0], ['rst']]):
            for c in RESTORABLE:
                yield [ND, nc, c, ops]
        # image viewer with 1-d datasets (tables / regions shown as overlays; the former finding C18b):
        # dataset 0 an image, dataset 1 a table, and the other way round
        for ops in IMAGE_1D_SEEDS:
            for tm in (['bare', 'std'], ['drv', 'reg'], ['bare', 'ext1']):
                yield [tm, nc, 'im', ops]
        for tm in (['std', 'bare'], ['reg', 'drv']):
            for ops in ([['app', 0], ['app', 1], ['vad', 0], ['vad', 1], ['vad', 0], ['vrd', 1], ['rst']],
                        [['app', 0], ['app', 1], ['ng'], ['vas', 0, 0], ['vad', 1], ['vas', 0, 0], ['rem', 1], ['ng']]):
                yield [tm, nc, 'im', ops]
        # every sequence of 3 (thorough 4) ops over a small alphabet once the image and the table are
        # layers, of 2 (3) ops once they are in the collection
        Li = 3 if tier == "quick" else 4
        for pre, Lp in (([['app', 0], ['app', 1]], Li - 1), ([['app', 0], ['app', 1], ['vad', 0], ['vad', 1]], Li)):
            for seq in itertools.product(IMAGE_1D_ALPHA, repeat=Lp):
                ops = pre + [list(o) for o in seq]
                if _valid_view(ops):
                    yield [IMAGE_1D_TMPLS[k % len(IMAGE_1D_TMPLS)], nc, 'im', ops]
                    k += 1
        # exhaustive: one extended op at every position of every core sequence
        Lx = 2 if tier == "quick" else 3
        for n_before in range(0, Lx + 1):
            for pre in view_sequences(VCORE, n_before):
                for x in VEXT + [['rst']]:
                    for post in view_sequences(VCORE, Lx - n_before):
                        ops = pre + [list(x)] + post
                        if not (_valid_view(ops) and _canonical_view(ops)):
                            continue
                        if x[0] == 'rst':
                            yield [ND, nc, RESTORABLE[k % 4], ops]
                            k += 1
                        else:
                            yield [ND, nc, cls_next(), ops]
        # exhaustive: every core sequence of exactly L ops (shorter ones are prefixes)
        L = 4 if tier == "quick" else 5
        for ops in view_sequences(VCORE, L):
            if _canonical_view(ops):
                yield [ND, nc, cls_next(), ops]
        # longer histories over a smaller alphabet (one dataset, one group)
        Ls = 5 if tier == "quick" else 7
        for ops in view_sequences(VSMALL, Ls):
            yield [ND, nc, cls_next(), ops]


class ViewRandom(View):
    name = "viewr"
    exhaustive = False
    batch = 20
    budget_share = 1.0

    def cases(self, tier, rng):
        nc = self.colors
        keys = list(VIEWERS)
        n_cases = 400 if tier == "quick" else 20000
        for i in range(n_cases):
            cls = keys[i % 4]
            nd = rng.choice([2, 3])
            length = rng.randint(4, 15) if tier == "quick" else rng.randint(4, 40)
            ops = random_view_seq(rng, length, nd, cls)
            # half of the scatter / histogram histories on datasets drawn from the templates (region
            # data, dask, derived, ... as layers); image / profile viewers need n-d arrays
            if cls in ('sc', 'hi') and (i // 4) % 2:
                yield [_savable([rng.choice(VIEW_TMPLS) for _ in range(nd)], ops), nc, cls, ops]
            elif cls == 'im' and (i // 4) % 2:
                # images and tables / region lists mixed (at least one image)
                tm = [rng.choice(('bare', 'drv', 'std', 'reg', 'ext1')) for _ in range(nd)]
                tm[rng.randrange(nd)] = rng.choice(('bare', 'drv'))
                yield [tm, nc, cls, ops]
            else:
                yield [nd, nc, cls, ops]


class VPick(View):
    """the x / y attribute pickers of ScatterViewerState and HistogramViewerState, in situ"""
    name = "vpick"
    exhaustive = True
    batch = 40
    budget_share = 1.0

    def cases(self, tier, rng):
        nc = self.colors
        k = 0
        L = 3 if tier == "quick" else 4
        keys = list(VIEWERS)
        # round 3 — the pickers as hub listeners: the viewer is given a dataset, every layer is removed
        # (four ways), a dataset is added again, and components are added / removed / renamed /
        # reordered: the empty-then-refill phase at every position of every pair (thorough: triple) of
        # component ops; all four viewer classes (the image / profile viewer-state pickers offer
        # coordinates only — those histories check that nothing breaks), subsets as further layers
        for c in keys:
            tm = ['std', 'dask'] if c in ('sc', 'hi') else ['bare', 'drv']
            for pre in ([['app', 0], ['app', 1]], [['app', 0], ['app', 1], ['ng']]):
                yield [tm, nc, c, pre + [['vad', 0], ['vrd', 0], ['vad', 0], ['ac', 0, 'num'], ['rc', 0, 1]]]
                yield [tm, nc, c, pre + [['vad', 0], ['rem', 0], ['app', 0], ['vad', 0], ['ro', 0], ['ac', 0, 'num']]]
                yield [tm, nc, c, pre + [['vad', 0], ['vad', 1], ['vrd', 0], ['vrd', 1], ['vad', 1], ['ac', 1, 'num'], ['rn', 1, 0]]]
        va = [o for o in VP_REFILL_ALPHA if tier != "quick" or o != ['ac', 1, 'cat']]
        for seq in itertools.product(va, repeat=2 if tier == "quick" else 3):
            seq = [list(o) for o in seq]
            for pos in range(len(seq) + 1):
                for empty in VP_EMPTY:
                    for refill in ([['vad', 0]], [['vad', 1]]):
                        ops = [['app', 0], ['app', 1], ['vad', 0]] + seq[:pos] + [list(o) for o in empty] + refill + seq[pos:]
                        c = keys[k % 4]
                        if c in ('sc', 'hi'):
                            tm = list(VP_REFILL_TMPLS[(k // 4) % len(VP_REFILL_TMPLS)])
                        else:
                            tm = [['bare', 'drv'], ['drv', 'bare']][(k // 4) % 2]
                        if _vp_comp_valid(tm, ops):
                            yield [tm, nc, c, ops]
                        k += 1
        for ops in view_sequences(VCORE, L):
            if _canonical_view(ops):
                yield [ND, nc, ('sc', 'hi')[k % 2], ops]
                k += 1
        for pre in view_sequences(VCORE, L - 1):
            for x in VEXT + [['rst']]:
                ops = pre + [list(x)]
                if _valid_view(ops) and _canonical_view(ops):
                    yield [ND, nc, ('sc', 'hi')[k % 2], ops]
                    k += 1
        # datasets of every component class as layers: every sequence of 2 (thorough 4) ops over a small
        # alphabet with flag flips after both datasets are layers / in the collection only, template
        # pair and viewer class rotating
        for seq in itertools.product(VPT_ALPHA, repeat=2 if tier == "quick" else 4):
            ops = [['app', 0], ['app', 1], ['vad', 1], ['vad', 0]] + [list(o) for o in seq]
            yield [list(TMPL_PAIRS[k % len(TMPL_PAIRS)]), nc, ('sc', 'hi')[(k // len(TMPL_PAIRS)) % 2], ops]
            k += 1
        for seq in itertools.product(VPT_ALPHA, repeat=2 if tier == "quick" else 4):
            ops = [['app', 0], ['app', 1]] + [list(o) for o in seq]
            yield [list(TMPL_PAIRS[k % len(TMPL_PAIRS)]), nc, ('sc', 'hi')[(k // len(TMPL_PAIRS)) % 2], ops]
            k += 1
        # ... under every flag combination: the three kind flags set, then a walk through all 16
        # combinations of the other four, for every picker and every template pair
        walk = gray_walk(['pixel', 'world', 'derived', 'none'])
        for pair in TMPL_PAIRS:
            for cls, p in (('sc', 0), ('sc', 1), ('hi', 0)):
                for kinds in itertools.product([True, False], repeat=3):
                    cur = dict(VP_FLAG_DEFAULT)
                    ops = [['app', 0], ['app', 1], ['vad', 0], ['vad', 1]]
                    ops += [['vfl', p, f, b] for f, b in zip(('numeric', 'datetime', 'categorical'), kinds) if not b]
                    for f in walk:
                        cur[f] = not cur[f]
                        ops.append(['vfl', p, f, cur[f]])
                    yield [list(pair), nc, cls, ops]
        for i in range(100 if tier == "quick" else 6000):
            cls = ('sc', 'hi')[i % 2]
            ops = random_view_seq(rng, rng.randint(4, 12), 3, cls)
            tm = 3 if i % 3 == 0 else _savable([rng.choice(TMPLS) for _ in range(3)], ops)
            if i % 3 == 2:
                # the `none` option is helper configuration no viewer state of glue sets; it is not part
                # of a saved session, while a selection of None made under it is (echo re-applies an
                # explicit None unconditionally, theorem explicit_none_accepted): histories with a
                # restore do not flip it
                names = [f for f in FLAG_NAMES if f != 'none'] if any(o[0] == 'rst' for o in ops) else FLAG_NAMES
                for _ in range(rng.randint(1, 4)):
                    ops.insert(rng.randint(0, len(ops)), ['vfl', rng.randrange(2), rng.choice(names), rng.random() < 0.5])
            yield [tm, nc, cls, ops]


for _cls in (View, ViewRandom):
    _cls.run_impl = lambda self, case: _run_view(case)
    _cls.shrink = lambda self, case: _shrink_view(case)
    _cls.line = lambda self, case, pyout: sx(["view", case, pyout])
    _cls.nontrivial = lambda self, case, po: (any(op[0] == 'vad' for op in case[3]) and
                                              any(op[0] in ('ng', 'rem', 'rg') for op in case[3]))
    _cls.signature = lambda self, case, po, res: {"construct": "+".join(sorted(_view_features(case))) or "plain"}



# ---------------------------------------------------------------------------------------------
# combo helpers
# ---------------------------------------------------------------------------------------------

from echo import SelectionCallbackProperty  # noqa: E402
from echo.selection import ChoiceSeparator  # noqa: E402
from glue.core.state_objects import State  # noqa: E402
from glue.core.component_id import ComponentID  # noqa: E402
from glue.core.data_combo_helper import (ComponentIDComboHelper, ManualDataComboHelper,  # noqa: E402
                                         DataCollectionComboHelper)
from glue.viewers.image.state import ImageViewerState, ImageLayerState  # noqa: E402
from glue.viewers.scatter.state import ScatterLayerState  # noqa: E402


class ExState(State):
    combo0 = SelectionCallbackProperty()
    combo1 = SelectionCallbackProperty(default_index=1)
    combom1 = SelectionCallbackProperty(default_index=-1)
    combom2 = SelectionCallbackProperty(default_index=-2)
    combo5 = SelectionCallbackProperty(default_index=5)


PROP_BY_IDX = {0: 'combo0', 1: 'combo1', -1: 'combom1', -2: 'combom2', 5: 'combo5'}
KIND_ATOM = {'numerical': 'num', 'categorical': 'cat', 'datetime': 'dt', 'extended': 'ext'}
FLAG_ATTR = {'numeric': 'numeric', 'datetime': 'datetime', 'categorical': 'categorical',
             'pixel': 'pixel_coord', 'world': 'world_coord', 'derived': 'derived', 'none': 'none'}
SEP = {'Main components': 'sm', 'Derived components': 'sdv', 'Coordinate components': 'sc'}
FLAG_NAMES = ('numeric', 'datetime', 'categorical', 'pixel', 'world', 'derived', 'none')
FLAG_DEFAULT = {'numeric': True, 'datetime': True, 'categorical': True, 'pixel': False, 'world': False,
                'derived': True, 'none': False}


# `ac d ext` is not generated for a RegionData (it refuses a second ExtendedComponent by design:
# ValueError) nor for the 2-d templates (the three polygons do not have their shape)
AC_INVALID = {'ext': ('reg', 'drv', 'bare')}


def _values(kind, k, d=None):
    shape = (3,) if d is None else d.shape
    if kind == 'num':
        return np.resize(np.array([1., 2., 3.]) + k, shape)
    if kind == 'cat':
        return np.resize(np.array(['u', 'v', 'w']), shape)
    if kind == 'ext':
        return ExtendedComponent(_geoms(), center_comp_ids=[d.pixel_component_ids[0]])
    if kind == 'dask':
        if shape == (3,):
            return DaskComponent(_dask())
        import dask.array as da
        return DaskComponent(da.from_array(np.zeros(shape)))
    return np.resize(np.array(['2021-01-01', '2021-01-02', '2021-01-03'], dtype='datetime64[D]'), shape)


def _sub_state(helper, hub):
    """the helper as a hub listener: (`_hub` is set, the hub holds subscriptions of the helper)"""
    return ['u', getattr(helper, '_hub', None) is not None, helper in hub._subscriptions]


class ComboWorld:
    def __init__(self, n, idx, has_dc=True):
        self.tmpls = tmpl_list(n, 'std')
        self.data = [make_data(t, i) for i, t in enumerate(self.tmpls)]
        self.cids = []
        for d in self.data:
            self.cids += data_cids(d)
        self.serial = {id(c): k for k, c in enumerate(self.cids)}
        self.dc = DataCollection(self.data)
        self.state = ExState()
        self.prop = PROP_BY_IDX[idx]
        # with the data collection (subscribed at construction) or without it, the way viewer and
        # layer states build their pickers (subscribes lazily, in append_data)
        if has_dc:
            self.helper = ComponentIDComboHelper(self.state, self.prop, self.dc)
        else:
            self.helper = ComponentIDComboHelper(self.state, self.prop)
        self.ctx = []
        self.err = False
        self.keep = [self.data, self.dc, self.state, self.helper]

    def _reg(self, cid):
        self.serial[id(cid)] = len(self.cids)
        self.cids.append(cid)

    def _comps(self, d):
        return list(d.main_components) + [c for c in d.derived_components if c.parent is d]

    def apply(self, op):
        k = op[0]
        self.err = False
        n = len(self.data)
        if k in ('ac', 'ad', 'rc', 'rn', 'ro', 'rp', 'ha', 'hr', 'dr', 'da') and op[1] >= n:
            return
        if k == 'ac':
            d = self.data[op[1]]
            cid = d.add_component(_values(op[2], len(self.cids), d), 'n%i' % len(self.cids))
            self._reg(cid)
        elif k == 'ad':
            d = self.data[op[1]]
            lbl = 'v%i' % len(self.cids)
            try:
                d[lbl] = d.pixel_component_ids[0] + 1
            except TypeError:
                # without fix C18d `RegionData.add_component` (hence `__setitem__`) cannot take a
                # ComponentLink: it iterates over it looking for shapely geometries.  Not a picker
                # matter: the derived component is then added through `add_component_link`
                if not isinstance(d, RegionData):
                    raise
                d.add_component_link(d.pixel_component_ids[0] + 1, lbl)
            self._reg(d.id[lbl])
        elif k == 'rc':
            d = self.data[op[1]]
            comps = self._comps(d)
            if op[2] < len(comps):
                d.remove_component(comps[op[2]])
        elif k == 'rn':
            d = self.data[op[1]]
            comps = self._comps(d)
            if op[2] < len(comps):
                comps[op[2]].label = comps[op[2]].label + 'r'
        elif k == 'ro':
            d = self.data[op[1]]
            d.reorder_components(list(reversed(d.components)))
        elif k == 'rp':
            d = self.data[op[1]]
            mains = list(d.main_components)
            if op[2] < len(mains):
                new = ComponentID('u%i' % len(self.cids), parent=d)
                d.update_id(mains[op[2]], new)
                self._reg(new)
        elif k == 'ha':
            self.helper.append_data(self.data[op[1]])
        elif k == 'hr':
            self.helper.remove_data(self.data[op[1]])
        elif k == 'hm':
            self.helper.set_multiple_data([self.data[d] for d in op[1:] if d < n])
        elif k == 'hc':
            self.helper.clear()
        elif k == 'fl':
            setattr(self.helper, FLAG_ATTR[op[1]], bool(op[2]))
        elif k == 'dr':
            self.dc.remove(self.data[op[1]])
        elif k == 'da':
            self.dc.append(self.data[op[1]])
        elif k == 'sel':
            v = op[1]
            try:
                if v is None:
                    setattr(self.state, self.prop, None)
                elif v < len(self.cids):
                    setattr(self.state, self.prop, self.cids[v])
                else:
                    self.err = True  # an id that does not exist: the model rejects it too
            except ValueError:
                self.err = True
        elif k == 'do':
            c = self.dc.hub.delay_callbacks()
            c.__enter__()
            self.ctx.append(c)
        elif k == 'dc':
            if self.ctx:
                self.ctx.pop().__exit__(None, None, None)
        else:
            raise ValueError(op)

    def close(self):
        while self.ctx:
            self.ctx.pop().__exit__(None, None, None)

    def _c(self, cid):
        return self.serial.get(id(cid), 'X')

    def _choice(self, ch):
        if ch is None:
            return 'N'
        if isinstance(ch, ChoiceSeparator):
            t = str(ch)
            if t in SEP:
                return SEP[t]
            for i, d in enumerate(self.data):
                if d.label == t:
                    return ['sd', i]
            return 'X'
        return ['c', self._c(ch)]

    def snapshot(self):
        h = self.helper
        F = ['F'] + [bool(getattr(h, FLAG_ATTR[f])) for f in FLAG_NAMES]
        H = ['H']
        for d in h._data:
            i = ([k for k, x in enumerate(self.data) if x is d] + ['X'])[0]
            H.append([i,
                      ['m'] + [[self._c(c), _kind_atom(d.get_kind(c))] for c in d.main_components],
                      ['dv'] + [self._c(c) for c in d.derived_components if c.parent is d],
                      ['p'] + [self._c(c) for c in d.pixel_component_ids],
                      ['w'] + [self._c(c) for c in d.world_component_ids]])
        sel = h.selection
        s = None if sel is None else (self._c(sel) if isinstance(sel, ComponentID) else 'X')
        return [F, H, ['c'] + [self._choice(c) for c in h.choices], ['s', s], ['e', bool(self.err)],
                ['q', len(self.ctx)], _sub_state(h, self.dc.hub)]


def _run_combo(case):
    n, idx, ops = case[:3]
    gc.disable()
    w = ComboWorld(n, idx, bool(case[3]) if len(case) > 3 else True)
    snaps = [w.snapshot()]
    try:
        for op in ops:
            w.apply(op)
            snaps.append(w.snapshot())
    finally:
        w.close()
    w.keep.clear()
    return snaps


CD = 2  # datasets in the combo world
# initial ids: dataset i owns 5i (pixel) 5i+1 (world) 5i+2 (c) 5i+3 (t) 5i+4 (x); new ones from 5*CD
COMBO_ALPHA = ([['ha', 0], ['ha', 1], ['hr', 0], ['hm', 1, 0], ['hm'], ['hc'],
                ['ac', 0, 'num'], ['ac', 0, 'cat'], ['ac', 1, 'dt'], ['ac', 0, 'ext'], ['ac', 1, 'dask'], ['ad', 0], ['rc', 0, 0], ['rc', 0, 2], ['rc', 0, 3],
                ['rn', 0, 0], ['ro', 0], ['rp', 0, 0], ['dr', 0], ['da', 0], ['do'], ['dc']] +
               [['fl', f, b] for f in ('numeric', 'categorical', 'pixel', 'world', 'derived', 'none') for b in (True, False)] +
               [['fl', 'datetime', False]] +
               [['sel', v] for v in (None, 0, 1, 2, 4, 7, 10)])


COMBO_CORE = [o for o in COMBO_ALPHA if o not in (
    [['hm'], ['hc'], ['ac', 0, 'cat'], ['ac', 1, 'dt'], ['ac', 0, 'ext'], ['ac', 1, 'dask'], ['rc', 0, 3], ['da', 0], ['fl', 'categorical', True],
     ['fl', 'numeric', True], ['fl', 'derived', True], ['fl', 'datetime', False], ['sel', 1], ['sel', 10],
     ['hm', 1, 0], ['rn', 0, 0], ['fl', 'world', False]])]


# the core alphabet on the non-standard templates: plus an extended / dask component
COMBO_TCORE = COMBO_CORE + [['ac', 0, 'ext'], ['ac', 0, 'dask']]
TMPL_PAIRS = [('reg', 'std'), ('std', 'reg'), ('ext1', 'drv'), ('dask', 'reg'), ('bare', 'ext1'), ('drv', 'dask')]
FLAG_COMBOS = list(itertools.product([True, False], repeat=7))


COMBO_SMALL = [['hr', 0], ['ha', 0], ['ac', 0, 'num'], ['ad', 0], ['rc', 0, 0], ['rc', 0, 2], ['ro', 0], ['rp', 0, 0],
               ['dr', 0], ['do'], ['dc'], ['fl', 'numeric', False], ['fl', 'pixel', True], ['fl', 'derived', False],
               ['fl', 'none', True], ['sel', None], ['sel', 2], ['sel', 4], ['sel', 5]]


COMBO_REFILL_ALPHA = [['ac', 0, 'num'], ['ac', 1, 'num'], ['rc', 0, 0], ['rc', 0, 2], ['rn', 0, 0], ['ro', 0], ['ro', 1],
                      ['do'], ['dc'], ['sel', 2]]
COMBO_REFILL_PHASES = [[['hr', 0], ['ha', 0]], [['hc'], ['ha', 0]], [['hm'], ['hm', 0]], [['hr', 0], ['ha', 1]],
                       [['hm'], ['hm', 1, 0]]]


def combo_n(ops):
    """number of datasets a history needs (datasets are expensive to build)"""
    m = 0
    for op in ops:
        if op[0] == 'hm':
            m = max([m] + list(op[1:]))
        elif op[0] in ('ac', 'ad', 'rc', 'rn', 'ro', 'rp', 'ha', 'hr', 'dr', 'da'):
            m = max(m, op[1])
    return m + 1


def combo_valid(ops, tmpls=None):
    """the client clears the selection only while `None` is on offer (none flag on); delay blocks
    are balanced or left open at most 2 deep; no `ac d ext` on a dataset that cannot take it"""
    none = False
    for op in ops:
        if op[0] == 'fl' and op[1] == 'none':
            none = bool(op[2])
        if op[0] == 'sel' and op[1] is None and not none:
            return False
        if op[0] == 'ac' and tmpls is not None and not isinstance(tmpls, int) and op[1] < len(tmpls) \
                and tmpls[op[1]] in AC_INVALID.get(op[2], ()):
            return False
    return True


def flag_ops(combo, order=FLAG_NAMES):
    """the `fl` ops that take a helper from its default flags to `combo` (7 booleans)"""
    want = dict(zip(FLAG_NAMES, combo))
    return [['fl', f, want[f]] for f in order if want[f] != FLAG_DEFAULT[f]]


def gray_walk(names):
    """flip sequence visiting all 2^len(names) combinations of the named flags once"""
    n = len(names)
    return [names[((i & -i).bit_length() - 1)] for i in range(1, 2 ** n)]


def random_combo_seq(rng, length, tmpls=None):
    ops = []
    none = False
    tmpls = tmpls or ['std'] * CD
    CD_ = len(tmpls)
    ncid = sum(TEMPLATES[t] for t in tmpls)
    while len(ops) < length:
        r = rng.random()
        d = rng.randrange(CD_)
        if r < 0.12:
            op = ['ha', d]
        elif r < 0.17:
            op = ['hr', d]
        elif r < 0.19:
            op = ['hm'] + [rng.randrange(CD_) for _ in range(rng.randint(0, 3))]
        elif r < 0.21:
            op = rng.choice([['hc'], ['hm']])
        elif r < 0.30:
            kind = rng.choice(AC_KINDS)
            if tmpls[d] in AC_INVALID.get(kind, ()):
                continue
            op = ['ac', d, kind]
            ncid += 1
        elif r < 0.35:
            op = ['ad', d]
            ncid += 1
        elif r < 0.45:
            op = ['rc', d, rng.randrange(5)]
        elif r < 0.49:
            op = ['rn', d, rng.randrange(4)]
        elif r < 0.53:
            op = ['ro', d]
        elif r < 0.57:
            op = ['rp', d, rng.randrange(3)]
            ncid += 1
        elif r < 0.61:
            op = ['dr', d]
        elif r < 0.64:
            op = ['da', d]
        elif r < 0.70:
            op = ['do']
        elif r < 0.77:
            op = ['dc']
        elif r < 0.89:
            f = rng.choice(list(FLAG_ATTR))
            b = rng.random() < 0.5
            if f == 'none':
                none = b
            op = ['fl', f, b]
        else:
            v = rng.choice([None] + list(range(ncid)))
            if v is None and not none:
                continue
            op = ['sel', v]
        ops.append(op)
    return ops


def _shrink_ops(prefix, ops, valid=lambda o: True):
    for k in range(len(ops) - 1, 0, -1):
        yield prefix + [ops[:k]]
    for i in range(len(ops)):
        rest = ops[:i] + ops[i + 1:]
        if valid(rest):
            yield prefix + [rest]


class Combo(Family):
    name = "combo"
    exhaustive = True
    batch = 500
    budget_share = 1.7

    def setup(self):
        _gc_setup()

    def reset(self):
        Registry().clear()
        self._n = getattr(self, "_n", 0) + 1
        if self._n % 500 == 0:
            gc.collect()

    def cases(self, tier, rng):
        idxs = [0, 1, -1, -2, 5]
        k = 0
        # suspected: selection of a removed component inside a delay block
        for idx in idxs:
            yield [CD, idx, [['ha', 0], ['do'], ['rc', 0, 0], ['sel', 2], ['dc']]]
            yield [CD, idx, [['ha', 0], ['sel', 4], ['do'], ['rc', 0, 2], ['do'], ['dc'], ['ac', 0, 'num'], ['dc']]]
            yield [CD, idx, [['ha', 0], ['ha', 1], ['sel', 7], ['do'], ['dr', 1], ['dc']]]
            yield [CD, idx, [['ha', 0], ['fl', 'none', True], ['sel', None], ['fl', 'none', False], ['rp', 0, 0]]]
        # round 3 — the helper as a hub listener.  A helper is emptied and refilled (five ways: remove_data /
        # clear / set_multiple_data([]) then append_data / set_multiple_data, with the same or the other
        # dataset) at every position of every sequence of two ops over the component alphabet (add /
        # remove / rename / reorder on a dataset in / formerly in / not in the helper, delay block, a
        # selection), with and without data collection (lazy subscription: all viewer pickers)
        for has_dc in (False, True):
            for idx in idxs[:2]:
                yield [CD, idx, [['ha', 0], ['hr', 0], ['ha', 0], ['ac', 0, 'num']], has_dc]
                yield [CD, idx, [['ha', 0], ['hc'], ['hm', 0], ['sel', 2], ['rc', 0, 0]], has_dc]
                yield [CD, idx, [['hm', 0, 1], ['hm'], ['hm', 1], ['do'], ['ro', 1], ['dc']], has_dc]
        for has_dc in (False, True):
            ra = [o for o in COMBO_REFILL_ALPHA if tier != "quick" or o not in (['rc', 0, 2], ['ro', 1])]
            for seq in itertools.product(ra, repeat=2 if tier == "quick" else 3):
                seq = [list(o) for o in seq]
                for pos in range(len(seq) + 1):
                    for ph in COMBO_REFILL_PHASES:
                        ops = [['ha', 0]] + seq[:pos] + [list(o) for o in ph] + seq[pos:]
                        if combo_valid(ops):
                            yield [CD, idxs[k % 5], ops, has_dc]
                            k += 1
        # the core alphabet in pairs on a helper without data collection
        for seq in itertools.product(COMBO_CORE + [['hc']], repeat=2):
            ops = [['ha', 0]] + [list(o) for o in seq]
            if combo_valid(ops):
                yield [combo_n(ops), idxs[k % 5], ops, False]
                k += 1
        # component kinds x flags: every dataset template (together: every component class glue has)
        # under every one of the 128 flag combinations, flags set before / after the helper gets the
        # dataset, in both orders; pairs of templates; an extended and a dask component added and
        # moved to the front under every combination
        for t in TMPLS:
            for j, combo in enumerate(FLAG_COMBOS):
                fo = flag_ops(combo, FLAG_NAMES if j % 2 else tuple(reversed(FLAG_NAMES)))
                yield [[t], idxs[k % 5], ([['ha', 0]] + fo) if (j // 2) % 2 else (fo + [['ha', 0]])]
                k += 1
        for pair in TMPL_PAIRS:
            for j, combo in enumerate(FLAG_COMBOS):
                fo = flag_ops(combo)
                yield [list(pair), idxs[k % 5], ([['hm', 0, 1]] + fo) if j % 2 else (fo + [['ha', 1], ['ha', 0]])]
                k += 1
        for j, combo in enumerate(FLAG_COMBOS):
            t = ('std', 'ext1', 'dask')[j % 3]
            yield [[t], idxs[k % 5], [['ha', 0]] + flag_ops(combo) + [['ac', 0, 'ext'], ['ro', 0], ['ac', 0, 'dask']]]
            k += 1
        # histories over the core alphabet on the templates with an extended / dask component (dataset 1:
        # the next template; thorough: on every non-standard template)
        for i, t in enumerate(TMPLS):
            if t == 'std' or (tier == "quick" and t in ('drv', 'bare')):
                continue
            tm = [t, TMPLS[(i + 1) % len(TMPLS)]]
            for seq in itertools.product(COMBO_TCORE, repeat=2 if tier == "quick" else 3):
                ops = [['ha', 0]] + [list(o) for o in seq]
                if combo_valid(ops, tm):
                    yield [tm[:combo_n(ops)], idxs[k % 5], ops]
                    k += 1
        # every sequence of L ops over the core alphabet after `ha 0`; every sequence of L-1 ops over
        # the full alphabet after each of three prefixes
        if tier == "quick":
            blocks = [([['ha', 0]], COMBO_ALPHA, 2), ([['ha', 0], ['ha', 1]], COMBO_ALPHA, 2), ([], COMBO_ALPHA, 2),
                      ([['ha', 0]], COMBO_CORE, 3)]
        else:
            blocks = [([['ha', 0]], COMBO_ALPHA, 3), ([['ha', 0], ['ha', 1]], COMBO_ALPHA, 3), ([], COMBO_ALPHA, 3),
                      ([['ha', 0]], COMBO_SMALL, 4), ([['ha', 0]], COMBO_CORE, 3)]
        for pre, alpha, n in blocks:
            for seq in itertools.product(alpha, repeat=n):
                ops = [list(o) for o in pre] + [list(o) for o in seq]
                if combo_valid(ops):
                    yield [combo_n(ops), idxs[k % 5], ops]
                    k += 1

    def run_impl(self, case):
        return _run_combo(case)

    def line(self, case, pyout):
        return sx(["combo", case, pyout])

    def nontrivial(self, case, po):
        return any(op[0] in ('ha', 'hm') for op in case[2]) and any(op[0] in ('ac', 'ad', 'rc', 'ro', 'rp', 'fl', 'dr') for op in case[2])

    def shrink(self, case):
        for c in _shrink_ops([case[0], case[1]], case[2], lambda ops: combo_valid(ops, case[0])):
            yield c + list(case[3:])

    def signature(self, case, po, res):
        return {"construct": "combo"}


class ComboRandom(Combo):
    name = "combor"
    exhaustive = False
    batch = 200
    budget_share = 0.5

    def cases(self, tier, rng):
        n = 1600 if tier == "quick" else 60000
        for i in range(n):
            # a third of the histories on the standard datasets, the rest on random templates
            tm = ['std'] * CD if i % 3 == 0 else [rng.choice(TMPLS) for _ in range(CD)]
            ops = random_combo_seq(rng, rng.randint(4, 15 if tier == "quick" else 40), tm)
            if i % 4 == 1 and len(ops) > 3:
                # an empty-then-refill phase somewhere in the first half
                j = rng.randrange(len(ops) // 2 + 1)
                d = rng.randrange(CD)
                ops[j:j] = [rng.choice([['hc'], ['hm']]), rng.choice([['ha', d], ['hm', d], ['hm', d, 1 - d]])]
            yield [tm, [0, 1, -1, -2, 5][i % 5], ops, i % 2 == 0]


# ---- dataset pickers ------------------------------------------------------------------------

class DComboWorld:
    def __init__(self, n, auto, idx, in_dc):
        if isinstance(n, int):
            self.data = [Data(x=[1., 2., 3.], label='d%i' % i) for i in range(n)]
        else:
            self.data = [make_data(t, i) for i, t in enumerate(n)]
        self.dc = DataCollection([self.data[d] for d in in_dc])
        self.state = ExState()
        self.prop = PROP_BY_IDX[idx]
        self.auto = auto
        if auto:
            self.helper = DataCollectionComboHelper(self.state, self.prop, self.dc)
        else:
            self.helper = ManualDataComboHelper(self.state, self.prop, data_collection=self.dc)
        self.ctx = []
        self.err = False
        self.nl = 0

    def apply(self, op):
        k = op[0]
        self.err = False
        n = len(self.data)
        if k in ('da', 'dr', 'ha', 'hr', 'rl') and op[1] >= n:
            return
        if k == 'da':
            self.dc.append(self.data[op[1]])
        elif k == 'dr':
            self.dc.remove(self.data[op[1]])
        elif k == 'ha':
            if not self.auto:
                self.helper.append_data(self.data[op[1]])
        elif k == 'hr':
            if not self.auto:
                self.helper.remove_data(self.data[op[1]])
        elif k == 'hm':
            if not self.auto:
                self.helper.set_multiple_data([self.data[d] for d in op[1:] if d < n])
        elif k == 'rl':
            self.nl += 1
            self.data[op[1]].label = 'L%i' % self.nl
        elif k == 'sel':
            try:
                if op[1] is None:
                    setattr(self.state, self.prop, None)
                elif op[1] < n:
                    setattr(self.state, self.prop, self.data[op[1]])
                else:
                    self.err = True
            except ValueError:
                self.err = True
        elif k == 'do':
            c = self.dc.hub.delay_callbacks()
            c.__enter__()
            self.ctx.append(c)
        elif k == 'dc':
            if self.ctx:
                self.ctx.pop().__exit__(None, None, None)
        else:
            raise ValueError(op)

    def close(self):
        while self.ctx:
            self.ctx.pop().__exit__(None, None, None)

    def _d(self, obj):
        for i, d in enumerate(self.data):
            if d is obj:
                return i
        return 'X'

    def snapshot(self):
        h = self.helper
        sel = h.selection
        return [['D'] + [self._d(d) for d in self.dc.data],
                ['M'] + ([] if self.auto else [self._d(d) for d in h._datasets]),
                ['c'] + [('N' if c is None else ['c', self._d(c)]) for c in h.choices],
                ['s', None if sel is None else self._d(sel)], ['e', bool(self.err)], ['q', len(self.ctx)]]


def _run_dcombo(case):
    n, auto, idx, in_dc, ops = case
    gc.disable()
    w = DComboWorld(n, auto, idx, in_dc)
    snaps = [w.snapshot()]
    try:
        for op in ops:
            w.apply(op)
            snaps.append(w.snapshot())
    finally:
        w.close()
    return snaps


DCOMBO_ALPHA = [['da', 0], ['da', 1], ['da', 2], ['dr', 0], ['dr', 1], ['ha', 0], ['ha', 1], ['hr', 0], ['hm', 1, 0, 1],
                ['rl', 0], ['sel', 0], ['sel', 1], ['sel', 2], ['do'], ['dc']]


DCOMBO_REFILL_ALPHA = [['dr', 0], ['da', 0], ['dr', 1], ['rl', 0], ['sel', 0], ['sel', 1], ['do'], ['dc']]


class DCombo(Family):
    name = "dcombo"
    exhaustive = True
    batch = 500
    budget_share = 1.0

    def setup(self):
        _gc_setup()

    def reset(self):
        Registry().clear()

    def cases(self, tier, rng):
        L = 3 if tier == "quick" else 4
        k = 0
        idxs = [0, 1, -1, 5]
        # a dataset leaves the collection while a picker lists / selects it
        for idx in idxs:
            yield [2, False, idx, [0, 1], [['ha', 0], ['ha', 1], ['sel', 1], ['dr', 1]]]
            yield [2, False, idx, [0], [['ha', 0], ['do'], ['dr', 0], ['dc']]]
            yield [2, True, idx, [0, 1], [['sel', 1], ['do'], ['dr', 1], ['da', 1], ['dc']]]
        # round 3: a manual helper emptied and refilled at every position of every pair (thorough: triple)
        # of collection / label / selection / delay ops
        for seq in itertools.product(DCOMBO_REFILL_ALPHA, repeat=2 if tier == "quick" else 3):
            seq = [list(o) for o in seq]
            for pos in range(len(seq) + 1):
                for ph in ([['hr', 0], ['ha', 0]], [['hm'], ['ha', 0]], [['hr', 0], ['hm', 1, 0]], [['hm'], ['ha', 1]]):
                    ops = [['ha', 0]] + seq[:pos] + [list(o) for o in ph] + seq[pos:]
                    yield [2, False, idxs[k % 4], [0, 1], ops]
                    k += 1
        # small blocks first: a budget cut-off under machine load then only drops the tail of the last one
        blocks = [(False, [], L), (False, [0, 1], L), (True, [], L), (True, [0, 1], L + 1)]
        for auto, in_dc, n in blocks:
            alpha = [o for o in DCOMBO_ALPHA if auto is False or o[0] not in ('ha', 'hr', 'hm')]
            for seq in itertools.product(alpha, repeat=n):
                ops = [list(o) for o in seq]
                nd = 1 + max([1 if in_dc else 0] + [max(o[1:]) for o in ops if o[0] in ('da', 'dr', 'ha', 'hr', 'hm', 'rl')])
                # every fourth case: datasets from the templates (all component classes), rotating
                if k % 4 == 0:
                    yield [[TMPLS[(k // 4 + j) % len(TMPLS)] for j in range(nd)], auto, idxs[k % 4], in_dc, ops]
                else:
                    yield [nd, auto, idxs[k % 4], in_dc, ops]
                k += 1

    def run_impl(self, case):
        return _run_dcombo(case)

    def line(self, case, pyout):
        return sx(["dcombo", case, pyout])

    def nontrivial(self, case, po):
        return any(op[0] in ('da', 'dr') for op in case[4])

    def shrink(self, case):
        return _shrink_ops(case[:4], case[4])

    def signature(self, case, po, res):
        return {"construct": "dcombo"}


# ---- image axes -----------------------------------------------------------------------------

def _mk_axes_data(ndim, coords, i):
    shape = (2, 3, 4, 2)[:ndim]
    c = None
    if coords == 'id':
        c = IdentityCoordinates(n_dim=ndim)
    elif coords == 'aff':
        m = np.eye(ndim + 1)
        m[0, ndim] = 1.
        if ndim >= 2:
            m[0, 1] = 1.
        c = AffineCoordinates(m)
    return Data(x=np.zeros(shape), coords=c, label='a%i' % i)


_AXES_DATA = {}


def _axes_data(n, c, i):
    # the datasets are never mutated by an ImageViewerState and belong to no collection / hub: they
    # are built once per process and shared by all cases
    key = (n, c, i)
    if key not in _AXES_DATA:
        _AXES_DATA[key] = _mk_axes_data(n, c, i)
    return _AXES_DATA[key]


class AxesWorld:
    def __init__(self, ndims, coords):
        self.data = [_axes_data(n, c, i) for i, (n, c) in enumerate(zip(ndims, coords))]
        self.state = ImageViewerState()
        self.ls = {}
        self.err = False
        self.crashed = False
        self.keep = []

    def _ref(self):
        r = self.state.reference_data
        for i, d in enumerate(self.data):
            if d is r:
                return i
        return None

    def apply(self, op):
        if self.crashed:
            return
        k, a = op
        st = self.state
        self.err = False
        ref = st.reference_data
        try:
            if k in ('x', 'y'):
                if ref is None or a >= ref.ndim:
                    return  # outside the modelled domain; never generated
                setattr(st, k + '_att', ref.pixel_component_ids[a])
            elif k in ('xw', 'yw'):
                if ref is not None and a < ref.ndim:
                    ids = ref.world_component_ids if ref.coords is not None else ref.pixel_component_ids
                    v = ids[a]
                else:
                    v = ComponentID('not-a-choice')
                setattr(st, 'x_att_world' if k == 'xw' else 'y_att_world', v)
            elif k == 'ref':
                st.reference_data = self.data[a]
            elif k == 'al':
                if a not in self.ls:
                    # what the viewer does: 1-d datasets are scatter overlays (`get_data_layer_artist`)
                    lcls = ImageLayerState if self.data[a].ndim >= 2 else ScatterLayerState
                    ls = lcls(layer=self.data[a], viewer_state=st)
                    self.ls[a] = ls
                    self.keep.append(ls)
                    st.layers.append(ls)
            elif k == 'rl':
                if a in self.ls:
                    st.layers.remove(self.ls.pop(a))
            else:
                raise ValueError(op)
        except ValueError:
            self.err = True
        except IndexError:
            self.crashed = True

    def _tok(self, cid):
        if cid is None:
            return None
        for i, d in enumerate(self.data):
            for j, c in enumerate(d.pixel_component_ids):
                if c is cid:
                    return [i, 'p', j]
            for j, c in enumerate(d.world_component_ids):
                if c is cid:
                    return [i, 'w', j]
        return ['X', 'p', 0]

    def snapshot(self):
        if self.crashed:
            return 'crash'
        st = self.state
        layers = []
        for ls in st.layers:
            for i, d in enumerate(self.data):
                if d is ls.layer and i not in layers:
                    layers.append(i)
        return [['l'] + layers, ['r', self._ref()], ['x', self._tok(st.x_att)], ['y', self._tok(st.y_att)],
                ['xw', self._tok(st.x_att_world)], ['yw', self._tok(st.y_att_world)], ['e', bool(self.err)]]


def _run_axes(case):
    ndims, worlds, coords, ops = case
    gc.disable()
    w = AxesWorld(ndims, coords)
    snaps = [w.snapshot()]
    for op in ops:
        w.apply(op)
        snaps.append(w.snapshot())
    return snaps


def axes_sequences(ndims, length, alphabet, prefix):
    """all op sequences of `length` after `prefix`; x / y setters only with an axis of the current
    reference data (tracked the way the Spec's hypothesis describes it)"""
    def track(layers, ref, op):
        k, a = op
        layers = list(layers)
        if k == 'al' and a not in layers:
            layers.append(a)
        elif k == 'rl' and a in layers:
            layers.remove(a)
        elif k == 'ref' and a in layers and ndims[a] >= 2:
            ref = a
        choices = [d for d in layers if ndims[d] >= 2]
        if ref not in choices:
            ref = choices[0] if choices else None
        return layers, ref

    def rec(seq, layers, ref, n):
        if n == 0:
            yield seq
            return
        for op in alphabet:
            if op[0] in ('x', 'y') and (ref is None or op[1] >= ndims[ref]):
                continue
            l2, r2 = track(layers, ref, op)
            yield from rec(seq + [list(op)], l2, r2, n - 1)

    layers, ref = [], None
    for op in prefix:
        layers, ref = track(layers, ref, op)
    yield from rec([list(o) for o in prefix], layers, ref, length)


def _axes_filter(ndims, seq):
    """drop x / y setters that do not name an axis of the current reference data"""
    layers, ref, out = [], None, []
    for op in seq:
        k, a = op
        if k in ('x', 'y') and (ref is None or a >= ndims[ref]):
            continue
        if k == 'al' and a not in layers:
            layers.append(a)
        elif k == 'rl' and a in layers:
            layers.remove(a)
        elif k == 'ref' and a in layers and ndims[a] >= 2:
            ref = a
        choices = [d for d in layers if ndims[d] >= 2]
        if ref not in choices:
            ref = choices[0] if choices else None
        out.append(op)
    return out


AXES_SETTERS = [[k, i] for k in ('x', 'y', 'xw', 'yw') for i in range(3)]
AXES_ALPHA = AXES_SETTERS + [['ref', 0], ['ref', 1], ['al', 0], ['al', 1], ['rl', 0], ['rl', 1]]


class Axes(Family):
    name = "axes"
    exhaustive = True
    batch = 300
    budget_share = 1.6

    def setup(self):
        _gc_setup()

    def reset(self):
        Registry().clear()
        self._n = getattr(self, "_n", 0) + 1
        if self._n % 300 == 0:
            gc.collect()

    def cases(self, tier, rng):
        kinds = ['none', 'id', 'aff']
        # the former finding C18b: a 1-d dataset (a table shown as scatter overlay) must never become
        # the reference data
        yield [[2, 1], [False, False], ['none', 'none'], [['al', 0], ['al', 1], ['rl', 0]]]
        yield [[3, 1], [True, True], ['id', 'id'], [['al', 0], ['al', 1], ['ref', 1]]]
        yield [[1, 2], [True, False], ['aff', 'none'], [['al', 0], ['ref', 0], ['al', 1], ['rl', 1], ['al', 1], ['rl', 0]]]
        ndims = [3, 2]
        pre = [['al', 0], ['al', 1]]
        k = 0

        def kind():
            nonlocal k
            k += 1
            return kinds[k % 3]
        # images and tables mixed: every sequence of length 2 (thorough: 3 for the pairs 3+1 and 1+2)
        # over the full alphabet from the empty state and after both datasets became layers, for four
        # dimension pairs; samples of the next length; random longer histories
        L1 = 2 if tier == "quick" else 3
        for nd1 in ([3, 1], [1, 2], [2, 1], [1, 1]):
            for p in ([], pre):
                for seq in axes_sequences(nd1, L1 if nd1[1] != 1 or nd1[0] == 3 else 2, AXES_ALPHA, p):
                    c = kind()
                    yield [nd1, [c != 'none'] * 2, [c, c], seq]
        for nd1 in ([3, 1], [1, 2]):
            allseq = list(axes_sequences(nd1, L1 + 1, AXES_ALPHA, pre))
            for seq in rng.sample(allseq, 500 if tier == "quick" else 3000):
                c = kind()
                yield [nd1, [c != 'none'] * 2, [c, c], seq]
        for _ in range(300 if tier == "quick" else 10000):
            nd1 = rng.choice(([3, 1], [1, 2], [2, 1], [1, 3], [1, 1]))
            seq = []
            for _ in range(rng.randint(4, 10 if tier == "quick" else 14)):
                seq.append(list(rng.choice(AXES_ALPHA)))
            seq = _axes_filter(nd1, seq)
            cs = [rng.choice(kinds), rng.choice(kinds)]
            yield [nd1, [c != 'none' for c in cs], cs, seq]
        if tier == "quick":
            # every setter sequence of length 3 on the 3-d and (after ref 1) the 2-d reference data,
            # coordinate kind rotating; every sequence of length 3 over the full alphabet
            for p in (pre, pre + [['ref', 1]]):
                for seq in axes_sequences(ndims, 3, AXES_SETTERS, p):
                    c = kind()
                    yield [ndims, [c != 'none'] * 2, [c, c], seq]
            for seq in axes_sequences(ndims, 2, AXES_ALPHA, pre):
                c = kind()
                yield [ndims, [c != 'none'] * 2, [c, c], seq]
            # samples: length-3 sequences over the full alphabet, length-4 setter sequences, mixed
            # coordinate kinds, longer mixed histories (all enumerated in the thorough tier)
            allseq = list(axes_sequences(ndims, 3, AXES_ALPHA, pre))
            for seq in rng.sample(allseq, 1200):
                c = kind()
                yield [ndims, [c != 'none'] * 2, [c, c], seq]
            allseq = list(axes_sequences(ndims, 4, AXES_SETTERS, pre))
            for seq in rng.sample(allseq, 400):
                c = kind()
                yield [ndims, [c != 'none'] * 2, [c, c], seq]
            mixed = (['none', 'id'], ['aff', 'none'], ['id', 'aff'])
            allseq = list(axes_sequences(ndims, 3, AXES_ALPHA, pre))
            for seq in rng.sample(allseq, 300):
                cs = mixed[k % 3]
                k += 1
                yield [ndims, [c != 'none' for c in cs], cs, seq]
            for _ in range(300):
                seq = []
                for _ in range(rng.randint(4, 10)):
                    seq.append(list(rng.choice(AXES_ALPHA)))
                seq = _axes_filter(ndims, seq)
                cs = [rng.choice(kinds), rng.choice(kinds)]
                yield [ndims, [c != 'none' for c in cs], cs, seq]
        else:
            # every setter sequence of length <= 4 for every coordinate kind; every sequence of length
            # 4 over the full alphabet (kind rotating); length 3 with mixed coordinate kinds
            for c in kinds:
                for p in (pre, pre + [['ref', 1]]):
                    for seq in axes_sequences(ndims, 4, AXES_SETTERS, p):
                        yield [ndims, [c != 'none'] * 2, [c, c], seq]
            for seq in axes_sequences(ndims, 4, AXES_ALPHA, pre):
                c = kind()
                yield [ndims, [c != 'none'] * 2, [c, c], seq]
            for cs in (['none', 'id'], ['aff', 'none'], ['id', 'aff']):
                for seq in axes_sequences(ndims, 3, AXES_ALPHA, pre):
                    yield [ndims, [c != 'none' for c in cs], cs, seq]
            for _ in range(40000):
                seq = []
                for _ in range(rng.randint(4, 14)):
                    seq.append(list(rng.choice(AXES_ALPHA)))
                seq = _axes_filter(ndims, seq)
                cs = [rng.choice(kinds), rng.choice(kinds)]
                yield [ndims, [c != 'none' for c in cs], cs, seq]

    def run_impl(self, case):
        return _run_axes(case)

    def line(self, case, pyout):
        return sx(["axes", [case[0], case[1], case[3]], pyout])

    def nontrivial(self, case, po):
        return any(op[0] in ('x', 'y', 'xw', 'yw') for op in case[3])

    def shrink(self, case):
        return _shrink_ops(case[:3], case[3])

    def signature(self, case, po, res):
        return {"construct": "1d-reference" if min(case[0]) < 2 else "axes"}


VPick.run_impl = lambda self, case: _run_vpick(case)
VPick.shrink = lambda self, case: _shrink_view(case)
VPick.line = lambda self, case, pyout: sx(["vpick", case, pyout])
VPick.nontrivial = lambda self, case, po: any(op[0] == 'vad' for op in case[3])
VPick.signature = lambda self, case, po, res: {"construct": "vpick"}


PROP = Property(
    id="C18",
    title="Viewers and attribute pickers mirror the collection",
    theorems=["C18.viewer_inv_init", "C18.viewer_step_inv", "C18.viewer_reachable_inv", "C18.viewer_reachable_spec",
              "C18.viewer_mirrors_collection", "C18.viewer_layers_plain", "C18.restore_layers", "C18.viewer_refusing_spec",
              "C18.refresh_sound_complete", "C18.kind_filter_whitelist", "C18.unfiltered_kind_never_offered",
              "C18.class_offered_iff", "C18.kinds_covered", "C18.refresh_order", "C18.refresh_nodup", "C18.refresh_none",
              "C18.selection_valid_after_refresh", "C18.selection_valid", "C18.picker_after_refresh_ok",
              "C18.explicit_none_accepted",
              "C18.combo_history_valid", "C18.combo_history_valid_as_coded", "C18.unsubscribe_without_reset_breaks",
              "C18.dcombo_history_valid",
              "C18.image_axes_distinct", "C18.image_axes_spec", "C18.image_1d_reference_crashes"],
    families=[Kinds(), Axes(), Combo(), ComboRandom(), DCombo(), VPick(), View(), ViewRandom()],
    trusted_base=["the `echo` callback-property library (SelectionCallbackProperty._choices_updated / __set__, delay_callback, CallbackList) is modelled (its selection rule) or assumed (callback ordering), validated by the correspondence families",
                  "matplotlib / astropy WCSAxes drawing is stubbed out in the harness process (FigureCanvasAgg.draw, draw_idle, WCSAxes._update_tick_and_label_positions): only the layer bookkeeping of the viewers is under test",
                  "GlueSerializer / GlueUnSerializer are exercised for viewer save + restore, their effect on the bookkeeping is modelled (restored objects stand for the saved ones)",
                  "C06's collection model and invariant (Model/Collection.lean, Lemmas/C06.lean) for the datasets / subset groups underneath the viewer"],
    assumptions=["datasets enter the collection without subsets of their own; subsets are created through new_subset_group only (C06)",
                 "viewer correspondence uses 2-d datasets of one shape for all four viewer classes, plus 1-d tables / region lists as overlays in the image viewer (which refuses them by raising while it has no layer: modelled as a refused request, theorem viewer_refusing_spec); layer z-order is never edited by hand (viewer.layers is sorted by zorder)",
                 "x_att / y_att setters are called with pixel axes of the current reference data; explicit selections of None only while None is on offer (echo accepts None unconditionally: theorem explicit_none_accepted)",
                 "snapshots taken while a hub delay block is open are compared with the model but not judged by the Spec (the helper has not been told yet, by design)",
                 "restore is checked for all four viewer classes (histogram / profile viewers with layers need C12's fix F12b; glue_qt is not installed, so their layer-artist records load as the live classes)"],
    rule="kinds: introspection of the tree under test - every Component subclass (recursive __subclasses__, CoordinateComponent split pixel / world) must be a constructor of the model's CompClass and occur in one of the generator's datasets, every string Data.get_kind can return (read off its source + measured on the generated components) must be a constructor of the model's Kind; all 128 flag combinations x every component class (flags through the constructor / through the setters, alternating). Dataset templates of the picker families: std (categorical, datetime, numerical, pixel + world coordinate), reg (RegionData: three numerical columns + the extended region column), ext1 (Data + ExtendedComponent), dask (categorical + DaskComponent), drv (2-d, affine coordinates, derived component), bare (2-d, no coordinates). combo also: every template x all 128 flag combinations (flags before / after append_data, two orders), six template pairs x 128, an extended and a dask component added and moved to the front x 128, every pair (thorough: triple) of ops over a 27-letter alphabet on every non-standard template; combor: two thirds of the histories on random templates, ac draws from five component classes; dcombo: every fourth case on rotating templates; vpick also: every sequence of 2 / 4 ops over a 7-letter alphabet with flag flips (after both datasets became layers / entered the collection) on six template pairs, all 128 flag combinations for every picker x template pair (8 walks of 16), random histories on random templates with flag flips; viewr: half of the scatter / histogram histories on random templates. view: one extended viewer op (add_subset / remove_subset / remove_layer / state.layers.remove / restore / second-dataset ops) at every position of every core sequence (append/remove x2 datasets, new group, remove group, add_data x2, remove_data) of length 2 (quick) / 3 (thorough); every core sequence of length 4 / 5; every sequence of length 5 / 7 over a 5-letter one-dataset alphabet; viewer class rotating by case; viewr: seeded random histories of length 4-15 / 4-40 over 2-3 datasets, up to 3 groups, with restores. vpick: the x/y attribute pickers of ScatterViewerState / HistogramViewerState read in situ after every step of every core viewer history of length 3 / 4, one extended op after every core history of length 2 / 3, 150 / 6000 random histories. combo: every sequence of 3 ops over a 25-letter core alphabet after helper.append_data + every pair over the full 39-letter alphabet after three prefixes (thorough: triples over the full alphabet, 4-sequences over 19 letters); combor: random length 4-15 / 4-40. dcombo: every sequence of length 3-4 / 4-5 over 12-15 letters for both helper classes and two initial collections. axes: every setter sequence of length 3 (thorough 4, all three coordinate kinds) on a 3-d and a 2-d reference dataset, every sequence of length 2 (thorough 4) over the full 18-letter alphabet incl. reference-data changes and layers coming and going, samples of the next length; images and 1-d tables mixed (dimension pairs 3+1, 1+2, 2+1, 1+1; tables get ScatterLayerStates as in the viewer): every sequence of length 2 (thorough 3) over the full alphabet from the empty state and after both became layers, samples of the next length, random histories. view also: save + restore of all four viewer classes inside the core histories; image viewer with a table / region list (templates std, reg, ext1) next to an image: every sequence of 3 (thorough 4) ops over an 8-letter alphabet (add_data / remove_data of both, dc.remove of the image, new group, state.layers.remove of the image, restore) after both became layers, of 2 (3) after both entered the collection; viewr: half of the image-viewer histories on mixed image / table templates. non-trivial = the history touches both sides (e.g. add_data and a collection change).",
    partial_note="Partial for per-viewer State subclasses: 'all callback-property values of State subclasses' is covered only as far as ImageViewerState's axis attributes, the viewers' layers list and the SelectionCallbackProperty rule; other callback properties (limits, colours, ...) are not modelled.",
)
