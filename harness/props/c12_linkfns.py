"""Module-level link functions for the C12 link zoo.

`glue.core.state._save_function` writes a plain function as its dotted import path and the loader
resolves it with `lookup_class_with_patches`, so user link functions must be importable: these are
the "user functions" of the generated collections.  All are exact on int64 / multiples of 1/2.
"""


def twice(x):
    return x * 2


def plus3(x):
    return x + 3


def minus3(x):
    return x - 3


def neg(x):
    return -x


def add2(x, y):
    return x + y


def sub2(x, y):
    return x - y


def lin3(x, y, z):
    return x + 2 * y - z


def pair_fw(x, y):
    """forwards of the two-output multi-link helper: (u, w) = (x + y, x - y)"""
    return x + y, x - y


def pair_bw(u, w):
    """backwards: (x', y') = (u + w, u - w)  (= (2x, 2y): not the inverse map on purpose — the
    round trip must restore the functions that were saved, not a mathematically tidy pair)"""
    return u + w, u - w


from glue.core.link_helpers import BaseMultiLink  # noqa: E402


class PairLink(BaseMultiLink):
    """A two-in / two-out multi-link helper written the documented way (sub-class of BaseMultiLink
    overriding forwards / backwards); serialised through LinkCollection.__gluestate__."""
    display = 'pair link'
    labels1 = ['x', 'y']
    labels2 = ['u', 'w']

    def forwards(self, x, y):
        return x + y, x - y

    def backwards(self, u, w):
        return u + w, u - w
