"""C02 framework family: synthetic object graphs saved and restored by the REAL GlueSerializer /
GlueUnSerializer (glue/core/state.py), compared with the Lean model Model/C02Serial.lean.

A case is `[main, heap]`, heap = list of `[cls, label|None, fields]`, field = `[phase, kind, payload]`
  phase  e (read by the loader before the object exists) | l (after a generator loader's yield) |
         c (in __setgluestate_callback__)
  kind   lit (int) | str (string) | ref (heap index, saved with context.id) | own (heap index, saved
         with context.do)

The node classes below have field-faithful `__gluestate__` / `__setgluestate__` pairs; everything else
(naming, `st__` prefix, `_working`, `do_all`, memo, generator protocol, `_try_callbacks`) is glue's code.
"""
from harness.core import use_repo

use_repo()
from glue.core.state import GlueSerializer, GlueUnSerializer, GlueSerializeError  # noqa: E402

PENDING = object()


class _Node(object):
    """A node without `label` attribute (its name comes from type(obj).__name__)."""

    def __init__(self, cls_id, fields):
        self.cls_id = cls_id
        self.fields = fields   # list of (phase, kind, python value)
        self.vals = None

    def __gluestate__(self, context):
        vals = []
        for ph, kind, v in self.fields:
            vals.append(context.do(v) if kind == "own" else context.id(v))
        return dict(cls=self.cls_id, phases=[f[0] for f in self.fields], vals=vals)

    @classmethod
    def _early(cls, rec, context):
        self = cls.__new__(cls)
        self.cls_id = rec["cls"]
        self.fields = None
        self.vals = [context.object(v) if ph == "e" else PENDING for ph, v in zip(rec["phases"], rec["vals"])]
        self._src = {k: v for k, (ph, v) in enumerate(zip(rec["phases"], rec["vals"])) if ph == "c"}
        self._late = [(k, v) for k, (ph, v) in enumerate(zip(rec["phases"], rec["vals"])) if ph == "l"]
        return self


def _plain_loader(cls, rec, context):
    return cls._early(rec, context)


def _gen_loader(cls, rec, context):
    self = cls._early(rec, context)
    yield self
    for k, v in self._late:
        self.vals[k] = context.object(v)


def _callback(self, context):
    for k in sorted(self._src):
        src = self._src.get(k)
        if src is None:       # resolved meanwhile by a re-entrant run of this callback
            continue
        self.vals[k] = context.object(src)
        self._src.pop(k, None)


class _Labelled(_Node):
    def __init__(self, cls_id, fields, label):
        super().__init__(cls_id, fields)
        self.label = label


def _mk(name, base, gen, cb):
    d = {"__setgluestate__": classmethod(_gen_loader if gen else _plain_loader)}
    if cb:
        d["__setgluestate_callback__"] = _callback
    c = type(name, (base,), d)
    c.__module__ = __name__
    globals()[name] = c
    return c


# (generator loader?, has callback?, has label?) -> class;  the class name is the label of unlabelled nodes
CLASSES = {}
for _gen in (False, True):
    for _cb in (False, True):
        for _lab in (False, True):
            _name = "N" + ("g" if _gen else "p") + ("c" if _cb else "") + ("L" if _lab else "")
            CLASSES[(_gen, _cb, _lab)] = _mk(_name, _Labelled if _lab else _Node, _gen, _cb)


def class_for(fields, label):
    gen = any(f[0] == "l" for f in fields)
    cb = any(f[0] == "c" for f in fields)
    return CLASSES[(gen, cb, label is not None)]


def effective_label(entry):
    cls_id, label, fields = entry
    return label if label is not None else class_for(fields, label).__name__


def build(heap):
    objs = []
    for cls_id, label, fields in heap:
        c = class_for(fields, label)
        objs.append(c(cls_id, None, label) if label is not None else c(cls_id, None))
    for o, (cls_id, label, fields) in zip(objs, heap):
        fl = []
        for ph, kind, v in fields:
            fl.append((ph, kind, objs[v] if kind in ("ref", "own") else v))
        o.fields = fl
    return objs


def codes(s):
    return [ord(c) for c in s]


def describe(x, inv, depth=0):
    if x is PENDING:
        return "pending"
    if isinstance(x, bool) or x is None:
        return ["l", -1 if x is None else int(x)]
    if isinstance(x, int):
        return ["l", x]
    if isinstance(x, str):
        return ["s"] + codes(x)
    if isinstance(x, _Node):
        if id(x) in inv:
            return ["r", inv[id(x)]]
        if depth > 40:
            return "anon"
        return ["o", x.cls_id, [describe(v, inv, depth + 1) for v in x.vals]]
    return "anon"


def run(case):
    main, heap = case
    objs = build(heap)
    gs = GlueSerializer(objs[main])
    try:
        text = gs.dumps()
    except GlueSerializeError as e:
        return ["save-error", "circular" if "ircular" in str(e) else "other"]
    except RecursionError:
        return ["save-error", "recursion"]
    names = list(gs._objs.keys())
    index_of = {id(o): i for i, o in enumerate(objs)}
    table = [[codes(n), index_of.get(id(gs._objs[n]), -1)] for n in names]
    u = GlueUnSerializer.loads(text)
    try:
        u.object("__main__")
    except GlueSerializeError as e:
        return ["load-error", "circular" if "ircular" in str(e) else "unrecognized" if "nrecognized" in str(e) else "other", table]
    inv = {}
    for k, n in enumerate(names):
        if n in u._objs:
            inv.setdefault(id(u._objs[n]), k)
    view = []
    distinct = set()
    for n in names:
        x = u._objs.get(n)
        if x is None:
            view.append("missing")
        else:
            distinct.add(id(x))
            view.append([x.cls_id, [describe(v, inv) for v in x.vals]])
    return ["ok", table, len(distinct), view, len(u._callbacks)]
