"""C15 — world coordinates, their links and inverses agree with the coordinate object.

Real objects: `glue.core.coordinates.{AffineCoordinates, IdentityCoordinates}`, `glue.core.Data`
with `coords=`, its world components (`Data.get_data(world_cid, view)` →
`CoordinateComponent._calculate`), and every link in `Data._coordinate_links`
(`CoordinateComponentLink.compute`).

Numbers: matrix entries, translations and sample points are integers or dyadic rationals
(`k * 2**e`), so every input is exactly a double.  Every float that comes out of glue is sent as
the *exact* rational value of the double (`Fraction(v)`; non-finite -> the atom `nonfinite`,
which every Spec rejects).  Nothing is rounded, snapped or compared in Python: the Lean driver
decides, from the exact case alone, how far a double may be from the exact rational value
(`lean/GlueVerif/Model/C15Float.lean`): forward values must be *exact* whenever every partial
sum is representable, else within the dot-product bound (n+2) 2^-53 sum|terms|; inverse values
within 32 * 2^-53 * |N| W |N| |y| where W = P^T|L||U| of Gaussian elimination with partial
pivoting, computed exactly over Q by the driver.  There is no absolute tolerance anywhere, so the
rule is as sharp at 1e-300 as at 1e+30.

Magnitude ladder (round-2 strengthening): entries and offsets 2**e for e in LADDER (1e-300 ...
1e+30), mixed within one matrix - see `ladder_stream`.  `well_conditioned` (generator filter
only; the verdict is Lean's) mirrors the driver's tolerance so that only coordinate objects are
generated whose own round trip keeps at least 2^-8 pixel at the grid corner, i.e. matrices
float64 can invert meaningfully.
"""
import itertools
import json
from fractions import Fraction

from harness.core import Family, Property, use_repo

use_repo()
import numpy as np  # noqa: E402
from glue.core import Data, DataCollection  # noqa: E402
from glue.core.coordinates import AffineCoordinates, IdentityCoordinates  # noqa: E402
from glue.core.coordinate_helpers import dependent_axes  # noqa: E402


# ------------------------------------------------------------------------------------------
# exact numbers
# ------------------------------------------------------------------------------------------

def q_sx(fr):
    fr = Fraction(fr)
    return fr.numerator if fr.denominator == 1 else ["q", fr.numerator, fr.denominator]


def q_of(x):
    """case encoding (int or [num, den]) -> Fraction"""
    return Fraction(x[0], x[1]) if isinstance(x, (list, tuple)) else Fraction(x)


def enc(fr):
    """Fraction -> case encoding"""
    fr = Fraction(fr)
    return int(fr) if fr.denominator == 1 else [fr.numerator, fr.denominator]


def exact(v):
    """the exact rational value of a double (no rounding, no tolerance)"""
    v = float(v)
    if not np.isfinite(v):
        return "nonfinite"
    return q_sx(Fraction(v))


def canon_arr(a):
    a = np.asarray(a)
    return [list(a.shape), [exact(v) for v in a.ravel().tolist()]]


# ------------------------------------------------------------------------------------------
# coordinates / views  (JSON-able case encodings)
# ------------------------------------------------------------------------------------------
# coord : ["id", n] | ["aff", rows]   rows = list of lists of (int | [num, den])
# view  : ["all", "N"|"E"] | ["basic1", item] | ["basic", [items]] | ["arrays", shape, [idx lists]]
#         | ["mask", [bools]]
# item  : ["i", k] | ["s", a, b, c]

def make_coords(coord):
    if coord[0] == "id":
        return IdentityCoordinates(n_dim=coord[1])
    rows = [[float(q_of(x)) for x in r] for r in coord[1]]
    return AffineCoordinates(np.array(rows, dtype=float))


def coord_sx(coord):
    if coord[0] == "id":
        return ["id", coord[1]]
    return ["aff", [[q_sx(q_of(x)) for x in r] for r in coord[1]]]


def coord_ndim(coord):
    return coord[1] if coord[0] == "id" else len(coord[1]) - 1


def py_view(view, shape):
    k = view[0]
    if k == "all":
        return None if view[1] == "N" else Ellipsis
    if k == "basic1":
        return py_item(view[1])
    if k == "basic":
        return tuple(py_item(it) for it in view[1])
    if k == "arrays":
        return tuple(np.array(ix, dtype=int).reshape(tuple(view[1])) for ix in view[2])
    if k == "mask":
        return np.array(view[1], dtype=bool).reshape(tuple(shape))
    raise ValueError(view)


def py_item(it):
    return it[1] if it[0] == "i" else slice(it[1], it[2], it[3])


def view_sx(view, shape):
    if view[0] == "mask":
        return ["mask", [bool(b) for b in view[1]]]
    return view


def pattern(coord):
    """coarse structural class of the linear part (for signatures / evidence)"""
    if coord[0] == "id":
        return "identity"
    n = len(coord[1]) - 1
    nz = [[q_of(coord[1][i][j]) != 0 for j in range(n)] for i in range(n)]
    off = any(nz[i][j] for i in range(n) for j in range(n) if i != j)
    diag = all(nz[i][i] for i in range(n))
    if not off:
        return "diagonal"
    if not diag:
        return "zero-on-diagonal"
    upper = any(nz[i][j] for i in range(n) for j in range(n) if i < j)
    lower = any(nz[i][j] for i in range(n) for j in range(n) if i > j)
    return "triangular" if upper != lower else "coupled"


# ------------------------------------------------------------------------------------------
# generators
# ------------------------------------------------------------------------------------------

ENTRIES = (0, 1, -1, 2)
TRANSLATIONS = {
    1: [[0], [3], [[-1, 2]]],
    2: [[0, 0], [1, 2], [[1, 2], -3]],
    3: [[0, 0, 0], [1, 2, 3], [[-3, 4], 0, 5]],
}


def det_frac(rows):
    n = len(rows)
    if n == 1:
        return rows[0][0]
    if n == 2:
        return rows[0][0] * rows[1][1] - rows[0][1] * rows[1][0]
    a, b, c = rows
    return (a[0] * (b[1] * c[2] - b[2] * c[1]) - a[1] * (b[0] * c[2] - b[2] * c[0])
            + a[2] * (b[0] * c[1] - b[1] * c[0]))


def aug(lin, t):
    n = len(lin)
    return ["aff", [list(lin[i]) + [t[i]] for i in range(n)] + [[0] * n + [1]]]


def small_matrices(n):
    """all n×n matrices over {0, 1, -1, 2} with non-zero determinant"""
    for ent in itertools.product(ENTRIES, repeat=n * n):
        rows = [list(ent[i * n:(i + 1) * n]) for i in range(n)]
        if det_frac(rows) != 0:
            yield rows


def structured_3d():
    """hand-picked 3-d patterns: permutations, triangular, chains, blocks (always generated)"""
    perms = list(itertools.permutations(range(3)))
    for p in perms:
        for scale in ((1, 1, 1), (2, -1, 1)):
            yield [[scale[i] if j == p[i] else 0 for j in range(3)] for i in range(3)]
    yield [[1, 1, 0], [0, 1, 1], [0, 0, 1]]      # upper bidiagonal chain: inverse is full upper
    yield [[1, 0, 0], [1, 1, 0], [0, 1, 1]]      # lower chain
    yield [[1, 1, 1], [0, 1, 1], [0, 0, 1]]
    yield [[1, 0, 0], [0, 1, 2], [0, -1, 1]]     # 1 + 2 block
    yield [[1, 2, 0], [-1, 1, 0], [0, 0, 2]]     # 2 + 1 block
    yield [[0, 0, 1], [1, 1, 0], [-1, 1, 0]]     # block + permutation
    yield [[0, 1, 0], [1, 0, 1], [0, 0, 1]]
    yield [[1, 0, 1], [0, 1, 0], [1, 0, -1]]     # axes 0 and 2 coupled, 1 separate
    yield [[2, 1, 1], [1, 2, 1], [1, 1, 2]]


def block_matrices(rng, k):
    """separable and block matrices (the cases in which the shortcuts are really taken)"""
    scales = [1, -1, 2, 3, [1, 2], [-3, 2]]
    for n in (2, 3):
        for _ in range(k):
            yield aug([[rng.choice(scales) if i == j else 0 for j in range(n)] for i in range(n)],
                      [rng.choice([0, 1, -2, [1, 2]]) for _ in range(n)])
    blocks = list(small_matrices(2))
    for _ in range(2 * k):
        b = rng.choice(blocks)
        lone = rng.randrange(3)                    # the axis that is on its own
        pair = [i for i in range(3) if i != lone]
        m = [[0] * 3 for _ in range(3)]
        # optionally route the lone world axis to the lone pixel axis (diagonal) — always invertible
        m[lone][lone] = rng.choice([1, -1, 2])
        for a in range(2):
            for c in range(2):
                m[pair[a]][pair[c]] = b[a][c]
        yield aug(m, rng.choice(TRANSLATIONS[3]))


def random_dyadic(n, rng):
    """random matrix with dyadic entries and non-zero determinant (bounded inverse denominators)"""
    while True:
        if n == 1:
            rows = [[Fraction(rng.choice([k for k in range(-16, 17) if k]), rng.choice([1, 2, 4, 8]))]]
        elif n == 2:
            rows = [[Fraction(rng.randint(-12, 12), 4) if rng.random() < 0.8 else Fraction(0) for _ in range(2)] for _ in range(2)]
        else:
            rows = [[Fraction(rng.randint(-6, 6), 2) if rng.random() < 0.65 else Fraction(0) for _ in range(3)] for _ in range(3)]
        if det_frac(rows) != 0:
            t = [Fraction(rng.randint(-8, 8), rng.choice([1, 2, 4])) for _ in range(n)]
            return aug([[enc(x) for x in r] for r in rows], [enc(x) for x in t])


# ------------------------------------------------------------------------------------------
# magnitude ladder  (round-2 strengthening: scale-dependent tolerances)
# ------------------------------------------------------------------------------------------
# 2**e next to 1e-300, 1e-30, 5e-17 (< eps), 1e-12, 6e-11, 1e-10, 1e-8, 6e-8, 1e-6, 1e-5, 1e-3, 1,
# 1e3, 1e5, 1e8, 1e12, 1e30 - exact doubles, exact rationals for the Lean side.
LADDER = (-997, -100, -54, -40, -34, -33, -27, -24, -20, -17, -10, 0, 10, 17, 27, 40, 100)
MIX_LADDER = tuple(e for e in LADDER if e != -997)     # rungs that may be mixed freely in one matrix
MANT = (1, -1, 3, -3, 5, 1, 1)
# now and then a mantissa that needs 31 / 53 bits (anything computed or stored in lower precision shows)
LONG_MANT = (Fraction(2 ** 30 + 1, 2 ** 30), Fraction(-(2 ** 52 + 1), 2 ** 52), Fraction(2 ** 53 - 1, 2 ** 52))
U53 = Fraction(1, 2 ** 53)
INV_K = 32                       # = Flt.invK
TIE = 1 - Fraction(1, 2 ** 30)   # = Flt.tie
LO, HI = Fraction(1, 2 ** 1000), Fraction(2 ** 1000)


def p2(e):
    return Fraction(2) ** e


def exact_inverse(M):
    """inverse over Q (Gauss-Jordan) or None"""
    n = len(M)
    A = [list(r) + [Fraction(int(i == j)) for j in range(n)] for i, r in enumerate(M)]
    for c in range(n):
        piv = next((r for r in range(c, n) if A[r][c] != 0), None)
        if piv is None:
            return None
        A[c], A[piv] = A[piv], A[c]
        pv = A[c][c]
        A[c] = [x / pv for x in A[c]]
        for r in range(n):
            if r != c and A[r][c] != 0:
                f = A[r][c]
                A[r] = [a - f * b for a, b in zip(A[r], A[c])]
    return [r[n:] for r in A]


def gepp_w(M):
    """mirror of Flt.geppW: entrywise max of P^T|L||U| over all (near-)tied partial-pivoting paths"""
    n = len(M)
    best = [[Fraction(0)] * n for _ in range(n)]

    def rec(c, rows):
        if not rows:
            return True
        mx = max(abs(r[1][c]) for r in rows)
        if mx == 0:
            return False
        for k, (idx, cur, acc) in enumerate(rows):
            if abs(cur[c]) < mx * TIE:
                continue
            up = [abs(x) for x in cur]
            w = [a + b for a, b in zip(acc, up)]
            rest = []
            for j, (i2, c2, a2) in enumerate(rows):
                if j == k:
                    continue
                f = c2[c] / cur[c]
                if f != 0:
                    c2 = [a - f * b for a, b in zip(c2, cur)]
                    a2 = [a + abs(f) * b for a, b in zip(a2, up)]
                rest.append((i2, c2, a2))
            if rec(c + 1, rest):
                best[idx] = [max(a, b) for a, b in zip(best[idx], w)]
        return True
    rec(0, [(i, list(M[i]), [Fraction(0)] * n) for i in range(n)])
    return best


def corner_tolerance(M, corner=4):
    """mirror of the driver's round-trip tolerance (Flt.invTol with forward tolerances, taken
    without the exactness shortcut, i.e. an upper bound) at the pixel position (corner, ...);
    None when singular or out of the binary64 range used."""
    n = len(M) - 1
    N = exact_inverse(M)
    if N is None:
        return None
    W = gepp_w(M)
    r = range(n + 1)
    NW = [[sum(abs(N[p][k]) * W[k][l] for k in r) for l in r] for p in r]
    C = [[sum(NW[p][l] * abs(N[l][w]) for l in r) for w in r] for p in r]
    for mat in (M, N, W, C):
        for row in mat:
            for x in row:
                if x != 0 and not (LO <= abs(x) <= HI):
                    return None
    x = [Fraction(corner)] * n + [Fraction(1)]
    y = [sum(M[k][j] * x[j] for j in r) for k in range(n)]
    d = [(n + 2) * U53 * sum(abs(M[k][j] * x[j]) for j in r) for k in range(n)]
    return max(sum(INV_K * U53 * C[p][w] * (abs(y[w]) + d[w]) + abs(N[p][w]) * d[w] for w in range(n))
               + INV_K * U53 * C[p][n] for p in range(n))


def well_conditioned(lin, t):
    """generator filter (the verdict is Lean's): float64 can invert this meaningfully"""
    n = len(lin)
    M = [[Fraction(x) for x in lin[i]] + [Fraction(t[i])] for i in range(n)] + [[Fraction(0)] * n + [Fraction(1)]]
    tol = corner_tolerance(M)
    return tol is not None and tol <= Fraction(1, 256)


def aug_q(lin, t):
    return aug([[enc(x) for x in r] for r in lin], [enc(x) for x in t])


def ladder_shapes(n, s):
    """linear parts with the rung `s` placed in every structural role (O(1) entries elsewhere)"""
    z, o = Fraction(0), Fraction(1)
    if n == 1:
        return [("diagonal", [[s]]), ("diagonal", [[-3 * s]])]
    if n == 2:
        return [
            ("diagonal", [[s, z], [z, o]]), ("diagonal", [[o, z], [z, s]]), ("diagonal", [[s, z], [z, -s]]),
            ("permuted", [[z, s], [o, z]]), ("permuted", [[z, 2 * o], [s, z]]),
            ("triangular", [[o, s], [z, o]]),            # tiny coupling next to O(1) diagonal
            ("triangular", [[s, z], [s, s]]), ("triangular", [[s, o], [z, o]]),   # tiny diagonal entry
            ("coupled", [[o, s], [s, o]]), ("coupled", [[s, o], [o, s]]),
            ("coupled", [[s, -s], [s, s]]),              # rotation at scale s
            ("coupled", [[s, -o], [s, o]]),              # one column (pixel axis) at scale s
            ("coupled", [[s, -s], [o, o]]),              # one row (world axis) at scale s
            ("coupled", [[3 * s, o], [o, 2 * o]]),
        ]
    return [
        ("diagonal", [[s, z, z], [z, o, z], [z, z, o]]), ("diagonal", [[o, z, z], [z, -o, z], [z, z, s]]),
        ("diagonal", [[s, z, z], [z, s, z], [z, z, -3 * s]]),
        ("diagonal", [[-p2(-12), z, z], [z, p2(-12), z], [z, z, s]]),     # spectral cube
        ("permuted", [[z, z, s], [o, z, z], [z, o, z]]), ("permuted", [[z, s, z], [s, z, z], [z, z, o]]),
        ("triangular", [[o, s, z], [z, o, s], [z, z, o]]),               # chain of tiny couplings
        ("triangular", [[s, z, z], [o, s, z], [z, o, s]]),               # tiny diagonal, O(1) chain
        ("block", [[o, -o, z], [o, o, z], [z, z, s]]), ("block", [[s, -s, z], [s, s, z], [z, z, o]]),
        ("block", [[o, z, s], [z, o, z], [s, z, -o]]), ("block", [[z, z, s], [o, o, z], [-o, o, z]]),
        ("coupled", [[s, s, z], [-s, s, s], [z, -s, 3 * s]]), ("coupled", [[o, s, s], [s, o, s], [s, s, o]]),
        ("coupled", [[s, o, z], [o, s, o], [z, o, s]]), ("coupled", [[s, -o, z], [s, o, o], [s, z, 2 * o]]),
    ]


def ladder_offsets(n, s, rng):
    """offsets: none; a few pixels' worth; 2**20 and 2**36 pixels' worth (Julian dates, wavelengths
    far from zero: the world values are huge compared with the step); plus one unrelated rung"""
    base = [[Fraction(0)] * n, [3 * s] * n, [s * 2 ** 20] + [Fraction(0)] * (n - 1), [-5 * s * 2 ** 36] * n,
            [s * (2 ** 31 + 1)] * n]
    if s != p2(-997):
        base.append([p2(rng.choice(MIX_LADDER)) * rng.choice(MANT) for _ in range(n)])
    return base


def ladder_structured(rng, quick):
    """every rung in every structural role, dimensions 1-3.  thorough: every (rung, role, offset);
    quick: every rung with every other role (which half alternates from rung to rung and with the
    seed) and one offset kind (rotating)."""
    phase = rng.randrange(2)
    for ri, e in enumerate(LADDER):
        if e == 0:
            continue
        s = p2(e)
        for n in (1, 2, 3):
            for k, (_, lin) in enumerate(ladder_shapes(n, s)):
                offs = ladder_offsets(n, s, rng)
                if quick and n > 1 and (ri + k + phase) % 2:
                    continue
                for t in ([offs[(ri + k // 2) % len(offs)]] if quick else offs):
                    if well_conditioned(lin, t):
                        yield aug_q(lin, t)


def ladder_random(rng):
    """one random matrix with entries m * 2**e, e from 1-3 rungs mixed in the same matrix, in one of
    the pattern classes; offsets from any rung.  None when float64 cannot invert it meaningfully."""
    n = rng.choice([1, 2, 2, 3, 3, 3])
    kind = rng.choice(["diagonal", "permuted", "triangular", "coupled", "block"])
    exps = rng.sample(MIX_LADDER, rng.choice([1, 2, 2, 3]))
    long_m = rng.random() < 0.25
    ent = lambda: (rng.choice(LONG_MANT) if long_m and rng.random() < 0.5 else Fraction(rng.choice(MANT))) * p2(rng.choice(exps))  # noqa: E731
    A = [[Fraction(0)] * n for _ in range(n)]
    if kind == "diagonal":
        for i in range(n):
            A[i][i] = ent()
    elif kind == "permuted":
        perm = list(range(n))
        rng.shuffle(perm)
        for i in range(n):
            A[i][perm[i]] = ent()
    elif kind == "triangular":
        up = rng.random() < 0.5
        for i in range(n):
            for j in range(n):
                if i == j or ((i < j) == up and rng.random() < 0.7):
                    A[i][j] = ent()
    elif kind == "coupled" or n < 3:
        for i in range(n):
            for j in range(n):
                if rng.random() < 0.8:
                    A[i][j] = ent()
    else:
        lone = rng.randrange(3)
        pair = [i for i in range(3) if i != lone]
        A[lone][lone] = ent()
        for a in pair:
            for c in pair:
                A[a][c] = ent()
        if rng.random() < 0.5:                         # block + permutation of the world axes
            rng.shuffle(A)
    scale = min(abs(x) for r in A for x in r if x != 0) if any(x != 0 for r in A for x in r) else Fraction(1)
    t = [rng.choice([Fraction(0), ent(), scale * rng.choice(MANT) * 2 ** rng.choice([0, 10, 20, 30]),
                     Fraction(rng.choice(MANT)) * p2(rng.choice(MIX_LADDER))]) for _ in range(n)]
    if not well_conditioned(A, t):
        return None
    return aug_q(A, t)


def ladder_stream(tier, rng):
    quick = tier == "quick"
    yield from ladder_structured(rng, quick)
    want, tries = (200 if quick else 2500), 0
    while want and tries < 40000:
        tries += 1
        c = ladder_random(rng)
        if c is not None:
            want -= 1
            yield c


def is_ladder(coord):
    """an affine matrix with an entry or offset outside [2**-8, 2**8]"""
    if coord[0] != "aff":
        return False
    return any(x != 0 and not (Fraction(1, 256) <= abs(x) <= 256) for r in coord[1] for x in map(q_of, r))


def coords_stream(tier, rng, n_dims=(1, 2, 3)):
    """structured first (exhaustive small scope), seeded random after"""
    quick = tier == "quick"
    for n in n_dims:
        yield ["id", n]
    if 1 in n_dims:
        for m in small_matrices(1):
            for t in TRANSLATIONS[1]:
                yield aug(m, t)
    if 2 in n_dims:
        for m in small_matrices(2):
            ts = TRANSLATIONS[2][1:2] if quick else TRANSLATIONS[2]
            for t in ts:
                yield aug(m, t)
    if 3 in n_dims:
        for m in structured_3d():
            yield aug(m, TRANSLATIONS[3][1])
    yield from ladder_stream(tier, rng)
    if 3 in n_dims:
        pool = None
        if not quick:
            pool = list(small_matrices(3))
        yield from block_matrices(rng, 25 if quick else 200)
        k = 180 if quick else 3000
        for _ in range(k):
            dens = rng.choice([0.34, 0.45, 0.6, 1.0])
            if pool is not None and dens == 1.0:
                m = rng.choice(pool)
            else:
                # sparse patterns (blocks, permutations, triangles) are where the shortcuts are taken
                while True:
                    ent = [rng.choice(ENTRIES[1:]) if rng.random() < dens else 0 for _ in range(9)]
                    m = [ent[0:3], ent[3:6], ent[6:9]]
                    if det_frac(m) != 0:
                        break
            yield aug(m, rng.choice(TRANSLATIONS[3]))
    for _ in range(120 if quick else 2000):
        yield random_dyadic(rng.choice(n_dims), rng)


SLICES = [[None, None, None], [1, None, None], [None, -1, None], [0, 0, None], [None, None, 2], [1, 3, None],
          [None, None, -1], [2, None, -2], [-2, None, None], [5, 9, None], [None, None, None], [0, 2, None],
          [None, None, 3], [-3, -1, None]]


def items_for(h, rng, allow_bad=False):
    its = [["i", rng.randrange(-h, h)], ["i", 0], ["i", h - 1]]
    its += [["s"] + s for s in SLICES]
    if allow_bad:
        its.append(["i", h + 1])
    return its


def views_for(shape, rng, k_basic, k_arr, masks=True):
    n = len(shape)
    yield ["all", "N"]
    yield ["all", "E"]
    yield ["basic1", ["i", rng.randrange(-shape[0], shape[0])]]
    yield ["basic1", ["s"] + rng.choice(SLICES)]
    yield ["basic", [["i", rng.randrange(0, h)] for h in shape]]                      # all scalars
    yield ["basic", [["s", 0, 0, None]] + [["s", None, None, None]] * (n - 1)]        # empty first axis
    if n > 1:
        yield ["basic", [["s", None, None, None]] * (n - 1) + [["s", 2, 1, None]]]    # empty last axis
    for _ in range(k_basic):
        ln = rng.randint(1, n)
        bad = rng.random() < 0.04
        yield ["basic", [rng.choice(items_for(shape[i], rng, bad)) for i in range(ln)]]
    for _ in range(k_arr):
        ash = rng.choice([[0], [1], [3], [2, 2]])
        cnt = int(np.prod(ash))
        yield ["arrays", ash, [[rng.randrange(0, h) for _ in range(cnt)] for h in shape]]
    if masks:
        size = int(np.prod(shape))
        yield ["mask", [rng.random() < 0.4 for _ in range(size)]]
        yield ["mask", [False] * size]
        if rng.random() < 0.3:
            yield ["mask", [True] * size]


def shapes_for(n, tier, rng, k):
    fixed = {1: [[1], [4]], 2: [[3, 4], [1, 3], [2, 1]], 3: [[2, 3, 4], [1, 2, 1], [3, 1, 2]]}[n]
    out = list(fixed[: max(1, min(k, len(fixed)))])
    m = 4 if tier == "quick" else 5
    while len(out) < k:
        out.append([rng.randint(1, m) for _ in range(n)])
    return out


# ------------------------------------------------------------------------------------------
# histories on one dataset object  (round-3 strengthening: state that survives a mutation)
# ------------------------------------------------------------------------------------------
# A history case is [coord, shape, ["hist", ops]]: one Data object is built from (coord, shape) and goes
# through `ops`; every read is judged by the Lean Spec against the CURRENT (shape, coords).
# op   : ["rw", view]                 read every world component under the view
#      | ["rl", view]                 compute every coordinate link under the view
#      | ["uvd", shape, cref]         Data.update_values_from_data(Data(x=zeros(shape), coords=cref))
#      | ["setc", cref]               data.coords = cref
#      | ["touch", kind]              kind: upc (update_components) | add | rm (unrelated component) | dc (join a
#                                     DataCollection: hub attached) | sub (new subset)
# cref : "same" (the very object the dataset has) | "eq" (equal but distinct object) | "none" | ["new", coord]

def cref_coord(cur, cref):
    """case encoding of the coordinates the dataset has after assigning `cref` (None = no coordinates)"""
    if cref in ("same", "eq"):
        return cur
    if cref == "none":
        return None
    return cref[1]


def view_valid(view, shape):
    n = len(shape)
    k = view[0]
    if k == "all" or k == "basic1":
        return n >= 1
    if k == "basic":
        return len(view[1]) <= n
    if k == "arrays":
        return len(view[2]) == n and all(0 <= i < h for ix, h in zip(view[2], shape) for i in ix)
    if k == "mask":
        return len(view[1]) == int(np.prod(shape))
    return False


def hist_valid(coord, shape, ops):
    cur, sh = coord, list(shape)
    for op in ops:
        if op[0] in ("rw", "rl"):
            if not view_valid(op[1], sh):
                return False
        elif op[0] == "uvd":
            sh = list(op[1])
            cur = cref_coord(cur, op[2])
        elif op[0] == "setc":
            cur = cref_coord(cur, op[1])
        if cur is not None and coord_ndim(cur) != len(sh):
            return False
    return True


def hist_line_ops(coord, shape, ops):
    """ops with every cref resolved to the explicit coordinates (what the Lean state machine gets)"""
    cur, sh, out = coord, list(shape), []
    for op in ops:
        if op[0] in ("rw", "rl"):
            out.append([op[0], view_sx(op[1], sh)])
        elif op[0] == "uvd":
            cur, sh = cref_coord(cur, op[2]), list(op[1])
            out.append(["uvd", sh, "N" if cur is None else coord_sx(cur)])
        elif op[0] == "setc":
            cur = cref_coord(cur, op[1])
            out.append(["setc", "N" if cur is None else coord_sx(cur)])
        else:
            out.append(["touch", op[1]])
    return out


def read_world(d, view):
    v = py_view(view, d.shape)
    comps = d.components
    out = []
    for cid in d.world_component_ids:
        if not any(cid is c for c in comps) or d.get_component(cid)._data is not d:
            return "bad-world-components"
        try:
            out.append(canon_arr(d.get_data(cid, view=v)))
        except IndexError:
            out.append("index-error")
    return out


def read_links(d, view):
    v = py_view(view, d.shape)
    links = list(d._coordinate_links)
    n = d.ndim
    if d.coords is None and not links:
        return []
    if len(links) != 2 * n or len(d.world_component_ids) != n:
        return "bad-links"
    out = []
    for i in range(n):
        p2w, w2p = links[2 * i], links[2 * i + 1]
        if not (p2w.pixel2world and not w2p.pixel2world and p2w.index == i and w2p.index == i
                and p2w.get_to_id() is d.world_component_ids[i] and w2p.get_to_id() is d.pixel_component_ids[i]):
            return "bad-links"
        row = []
        for l in (p2w, w2p):
            row.append([int(k) for k in l.from_needed])
            try:
                row.append(canon_arr(l.compute(d, v)))
            except IndexError:
                row.append("index-error")
        out.append(row)
    return out


def run_history(coord, shape, ops):
    d = Data(x=np.zeros(tuple(shape)), coords=make_coords(coord), label="d")
    keep = [d, d.coords]          # strong references for the whole case
    cur = coord
    outs = []
    k = 0
    for op in ops:
        k += 1
        try:
            if op[0] == "rw":
                outs.append(read_world(d, op[1]))
                continue
            if op[0] == "rl":
                outs.append(read_links(d, op[1]))
                continue
            if op[0] in ("uvd", "setc"):
                cref = op[2] if op[0] == "uvd" else op[1]
                if cref == "same":
                    obj = d.coords
                elif cref == "eq":
                    obj = None if cur is None else make_coords(cur)
                elif cref == "none":
                    obj = None
                else:
                    obj = make_coords(cref[1])
                cur = cref_coord(cur, cref)
                keep.append(obj)
                if op[0] == "uvd":
                    other = Data(x=np.full(tuple(op[1]), float(k)), coords=obj, label="d")
                    keep.append(other)
                    d.update_values_from_data(other)
                else:
                    d.coords = obj
            elif op[1] == "upc":
                d.update_components({d.id["x"]: np.full(d.shape, float(k))})
            elif op[1] == "add":
                d.add_component(np.full(d.shape, float(k)), "y%d" % k)
            elif op[1] == "rm":
                ys = [c for c in d.main_components if c.label.startswith("y")]
                if ys:
                    d.remove_component(ys[-1])
            elif op[1] == "dc":
                if d.hub is None:
                    keep.append(DataCollection([d]))
            elif op[1] == "sub":
                keep.append(d.new_subset())
            else:
                raise ValueError(op)
            outs.append("ok")
        except Exception as e:        # the Spec rejects anything that is not the expected observation
            outs.append("exc-" + type(e).__name__)
    return outs


# base objects of the exhaustive core:
# (coord, shape, other shape, other coord of the same dimension, (shape, coord) of another dimension)
def hist_bases():
    perm = aug([[0, 2], [3, 0]], [1, 2])
    tri = aug([[1, 1], [0, 1]], [0, 0])
    diag2 = aug([[2, 0], [0, -1]], [[1, 2], -3])
    blk = aug([[1, 0, 0], [0, 1, 2], [0, -1, 1]], [1, 2, 3])
    chain = aug([[1, 1, 0], [0, 1, 1], [0, 0, 1]], [0, 0, 0])
    one = aug([[2]], [3])
    return [
        (diag2, [3, 4], [2, 5], perm, ([2, 3, 2], blk)),          # separable: the broadcasting branches
        (perm, [3, 4], [4, 3], tri, ([5], one)),
        (tri, [2, 3], [3, 2], ["id", 2], ([2, 2, 3], chain)),
        (["id", 2], [3, 2], [2, 4], diag2, ([3], ["id", 1])),
        (blk, [2, 3, 2], [3, 2, 3], chain, ([3, 4], perm)),
        (one, [4], [6], aug([[-1]], [[1, 2]]), ([2, 3], tri)),
    ]


def read_kinds(shape, rng, final):
    """one view of every kind (which branch of `_calculate` / `compute` it takes)"""
    n = len(shape)
    size = int(np.prod(shape))
    vs = [["all", "N"], ["all", "E"],
          ["mask", [rng.random() < 0.5 for _ in range(size)]],
          ["arrays", [3], [[rng.randrange(0, h) for _ in range(3)] for h in shape]],
          ["basic", [["s", None, None, None]] * n],
          ["basic", [["i", rng.randrange(0, h)] for h in shape]],
          ["basic1", ["s"] + rng.choice(SLICES)],
          ["basic", [rng.choice(items_for(shape[i], rng)) for i in range(rng.randint(1, n))]]]
    if final == "rl":
        vs = [v for v in vs if v[0] != "mask"]
    return vs


def mutation_kinds(shape, shape2, other, alt):
    """every way (shape, coords) can change or must be kept, as op lists"""
    muts = []
    for sh in (shape, shape2):
        for cref in ("same", "eq", ["new", other], "none"):
            muts.append([["uvd", sh, cref]])
    for cref in ("same", "eq", ["new", other], ["new", ["id", len(shape)]], "none"):
        muts.append([["setc", cref]])
    for kind in ("upc", "add", "dc", "sub"):
        muts.append([["touch", kind]])
    muts.append([["touch", "add"], ["touch", "rm"]])
    muts.append([["setc", "none"], ["setc", ["new", other]]])                 # coords None and back
    muts.append([["uvd", shape2, "none"], ["uvd", shape2, ["new", other]]])
    muts.append([["uvd", shape2, "same"], ["uvd", shape, "same"]])            # there and back again
    muts.append([["touch", "dc"], ["uvd", shape2, "same"]])
    muts.append([["touch", "dc"], ["setc", ["new", other]]])
    # another number of dimensions (pixel components re-created, coords go through None) - and back
    muts.append([["uvd", alt[0], ["new", alt[1]]]])
    muts.append([["uvd", alt[0], "none"], ["setc", ["new", alt[1]]]])
    muts.append([["uvd", alt[0], ["new", alt[1]]], ["uvd", shape2, ["new", other]]])
    return muts


def shape_after(shape, ops):
    sh = list(shape)
    for op in ops:
        if op[0] == "uvd":
            sh = list(op[1])
    return sh


def hist_core(tier, rng, final):
    """exhaustive short core: read kind x mutation kind x read kind on every base object; the first read
    alternates between world components and links, the last one is the family's own kind"""
    for coord, shape, shape2, other, alt in hist_bases():
        for mi, mut in enumerate(mutation_kinds(shape, shape2, other, alt)):
            sh2 = shape_after(shape, mut)
            firsts = read_kinds(shape, rng, "rw")
            if tier == "quick":
                # None and Ellipsis are one path (alternate); of the optimised kinds keep full slices and mixed
                firsts = [firsts[mi % 2], firsts[2], firsts[3], firsts[4], firsts[7]]
            for fi, v1 in enumerate(firsts):
                first = "rw" if (fi + mi) % 3 or v1[0] == "mask" else "rl"
                for v2 in read_kinds(sh2, rng, final):
                    yield [coord, shape, ["hist", [[first, v1]] + mut + [[final, v2]]]]


def hist_pool(n, tier, rng):
    pool = [["id", n]] + [random_dyadic(n, rng) for _ in range(2)]
    if n >= 2:
        pool.append(aug(rng.choice(list(itertools.islice(small_matrices(n), 200))), TRANSLATIONS[n][1]))
    if n == 3:
        pool += list(block_matrices(rng, 1))[-2:]
        pool.append(aug(rng.choice(list(structured_3d())), TRANSLATIONS[3][1]))
    shapes = shapes_for(n, tier, rng, 3) + [[rng.randint(1, 4 if tier == "quick" else 5) for _ in range(n)]]
    return pool, shapes


def hist_random(tier, rng, final, count):
    """longer random histories (4-12 ops + final read) over a pool of coordinate objects per dimension"""
    for _ in range(count):
        pools = {}

        def pool_of(n):
            if n not in pools:
                pools[n] = hist_pool(n, tier, rng)
            return pools[n]
        n = rng.choice([1, 2, 2, 2, 3, 3])
        pool, shapes = pool_of(n)
        coord = rng.choice(pool)
        shape = rng.choice(shapes)
        cur, sh, ops = coord, shape, []
        for _ in range(rng.randint(4, 12)):
            r = rng.random()
            pool, shapes = pool_of(len(sh))
            if r < 0.5:
                kind = final if rng.random() < 0.6 else ("rw" if final == "rl" else "rl")
                vs = [v for v in views_for(sh, rng, 3, 2, masks=(kind == "rw"))]
                # the non-optimised views are the ones that could be served from a stale full grid
                v = rng.choice(vs if rng.random() < 0.5 else [w for w in vs if w[0] in ("all", "mask", "arrays")])
                ops.append([kind, v])
            elif r < 0.68:
                cref = rng.choice(["same", "same", "eq", "none", ["new", rng.choice(pool)]])
                sh = rng.choice(shapes) if rng.random() < 0.7 else sh
                ops.append(["uvd", sh, cref])
                cur = cref_coord(cur, cref)
            elif r < 0.73:                                  # another number of dimensions
                n2 = rng.choice([k for k in (1, 2, 3) if k != len(sh)])
                pool, shapes = pool_of(n2)
                cref = rng.choice(["none", ["new", rng.choice(pool)], ["new", rng.choice(pool)]])
                sh = rng.choice(shapes)
                ops.append(["uvd", sh, cref])
                cur = cref_coord(cur, cref)
            elif r < 0.86:
                cref = rng.choice(["same", "eq", "none", ["new", rng.choice(pool)], ["new", rng.choice(pool)]])
                ops.append(["setc", cref])
                cur = cref_coord(cur, cref)
            else:
                ops.append(["touch", rng.choice(["upc", "add", "rm", "dc", "sub"])])
        ops.append([final, rng.choice([["all", "N"], ["all", "E"]] + list(views_for(sh, rng, 2, 1, masks=(final == "rw"))))])
        assert hist_valid(coord, shape, ops)
        yield [coord, shape, ["hist", ops]]


def hist_cases(tier, rng, final):
    yield from hist_core(tier, rng, final)
    yield from hist_random(tier, rng, final, 250 if tier == "quick" else 6000)


def interleave(a, b):
    """alternate between two streams (so that a family that stops on its deadline has run both)"""
    a, b = iter(a), iter(b)
    for x in a:
        yield x
        y = next(b, None)
        if y is None:
            yield from a
            return
        yield y
    yield from b


def is_hist(case):
    return isinstance(case[2], list) and case[2] and case[2][0] == "hist"


def shrink_hist(case):
    coord, shape, (_, ops) = case
    for i in range(len(ops) - 1):                       # drop an op (the last read stays)
        ops2 = ops[:i] + ops[i + 1:]
        if hist_valid(coord, shape, ops2):
            yield [coord, shape, ["hist", ops2]]
    for i, op in enumerate(ops):
        if op[0] in ("rw", "rl") and op[1][0] != "all":
            yield [coord, shape, ["hist", ops[:i] + [[op[0], ["all", "N"]]] + ops[i + 1:]]]
        if op[0] in ("uvd", "setc"):
            cref = op[-1]
            if isinstance(cref, list):
                for c2 in shrink_coord(cref[1]):
                    yield [coord, shape, ["hist", ops[:i] + [op[:-1] + [["new", c2]]] + ops[i + 1:]]]
    for c2 in shrink_coord(coord):
        yield [c2, shape, ["hist", ops]]


# ------------------------------------------------------------------------------------------
# families
# ------------------------------------------------------------------------------------------

class Xform(Family):
    """The coordinate object alone: constructor checks, correlation matrix, dependent_axes,
    pixel_to_world, world_to_pixel ∘ pixel_to_world, world_to_pixel."""
    name = "xform"
    exhaustive = False
    batch = 200
    budget_share = 0.6

    def cases(self, tier, rng):
        # constructor error branches
        yield [["aff", [[1, 0, 0], [0, 1, 0]]], []]                    # not square
        yield [["aff", [[1, 0, 0], [0, 1, 0], [0, 1, 1]]], []]         # last row not 0..0 1
        yield [["aff", [[1, 0, 0], [0, 1, 0], [0, 0, 2]]], []]
        yield [["aff", [[1, 1, 0], [1, 1, 0], [0, 0, 1]]], []]         # singular
        yield [["aff", [[0, 5], [0, 1]]], []]                          # singular 1-d
        yield [["aff", [[1, 2, 0, 0], [2, 4, 0, 0], [0, 0, 1, 0], [0, 0, 0, 1]]], []]
        for coord in coords_stream(tier, rng):
            n = coord_ndim(coord)
            pts = [[0] * n, [1] * n, list(range(1, n + 1))]
            for _ in range(3):
                pts.append([rng.choice([rng.randint(-5, 9), [rng.randint(-9, 9) * 2 + 1, 2]]) for _ in range(n)])
            yield [coord, pts]

    def run_impl(self, case):
        coord, pts = case
        try:
            c = make_coords(coord)
        except np.linalg.LinAlgError:    # (a subclass of ValueError)
            return "linalg-error"
        except ValueError:
            return "value-error"
        n = coord_ndim(coord)
        corr = [[bool(b) for b in row] for row in np.asarray(c.axis_correlation_matrix)]
        deps = [[int(k) for k in dependent_axes(c, a)] for a in range(n)]
        cols = [np.array([float(q_of(p[j])) for p in pts]) for j in range(n)]

        def tup(r):
            return (r,) if n == 1 else tuple(r)
        w = tup(c.pixel_to_world_values(*cols))
        back = tup(c.world_to_pixel_values(*w))
        inv = tup(c.world_to_pixel_values(*cols))

        def per_point(arrs):
            return [[exact(arrs[j][k]) for j in range(n)] for k in range(len(pts))]
        return [corr, deps, per_point(w), per_point(back), per_point(inv)]

    def line(self, case, pyout):
        from harness.core import sx
        coord, pts = case
        return sx(["xform", [coord_sx(coord), [[q_sx(q_of(x)) for x in p] for p in pts]], pyout])

    def nontrivial(self, case, po):
        return case[0][0] == "aff" and isinstance(po, list)

    def signature(self, case, pyout, res):
        return {"pattern": pattern(case[0]) if isinstance(pyout, list) else "ctor-error"}

    def shrink(self, case):
        coord, pts = case
        for k in range(len(pts)):
            yield [coord, pts[:k] + pts[k + 1:]]
        for c2 in shrink_coord(coord):
            yield [c2, pts]


def shrink_coord(coord):
    if coord[0] != "aff":
        return
    rows = coord[1]
    n = len(rows) - 1
    for i in range(n):
        if rows[i][n] != 0:
            r2 = [list(r) for r in rows]
            r2[i][n] = 0
            yield ["aff", r2]
    for i in range(n):
        for j in range(n):
            for v in (0, 1):
                if rows[i][j] != v and (rows[i][j] not in (0, 1) or v == 0):
                    r2 = [list(r) for r in rows]
                    r2[i][j] = v
                    if det_frac([[q_of(x) for x in r[:n]] for r in r2[:n]]) != 0:
                        yield ["aff", r2]


class _DataFamily(Family):
    batch = 120
    _cache = (None, None)

    def data_for(self, coord, shape):
        key = json.dumps([coord, shape])
        if self._cache[0] != key:
            d = Data(x=np.zeros(tuple(shape)), coords=make_coords(coord))
            type(self)._cache = (key, d)
        return self._cache[1]

    def line(self, case, pyout):
        from harness.core import sx
        coord, shape, view = case
        if is_hist(case):
            return sx([self.name, [coord_sx(coord), shape, ["hist"] + hist_line_ops(coord, shape, view[1])], pyout])
        return sx([self.name, [coord_sx(coord), shape, view_sx(view, shape)], pyout])

    def signature(self, case, pyout, res):
        return {"pattern": pattern(case[0]), "view": case[2][0]}

    def nontrivial(self, case, po):
        if is_hist(case) and not any(op[0] not in ("rw", "rl") for op in case[2][1]):
            return False
        return len(case[1]) >= 2 and case[0][0] == "aff"

    def shrink(self, case):
        if is_hist(case):
            yield from shrink_hist(case)
            return
        coord, shape, view = case
        if view[0] != "all":
            yield [coord, shape, ["all", "N"]]
        if view[0] == "basic" and len(view[1]) > 1:
            yield [coord, shape, ["basic", view[1][:-1]]]
        if view[0] in ("all",):
            for i, h in enumerate(shape):
                if h > 2:
                    yield [coord, shape[:i] + [h - 1] + shape[i + 1:], view]
        for c2 in shrink_coord(coord):
            yield [c2, shape, view]


class World(_DataFamily):
    """Every world component of a dataset under a view:
    `Data.get_data(world_cid, view)` vs `pixel_to_world_values(grid)[view]`."""
    name = "world"
    budget_share = 1.6

    def fresh_cases(self, tier, rng):
        quick = tier == "quick"
        for coord in coords_stream(tier, rng):
            n = coord_ndim(coord)
            for shape in shapes_for(n, tier, rng, 1 if quick else 2):
                lad = quick and is_ladder(coord)
                for view in views_for(shape, rng, 3 if lad else 7 if quick else 14, 1 if lad else 2 if quick else 4):
                    yield [coord, shape, view]

    def cases(self, tier, rng):
        yield from interleave(self.fresh_cases(tier, rng), hist_cases(tier, rng, "rw"))

    def run_impl(self, case):
        coord, shape, view = case
        if is_hist(case):
            return run_history(coord, shape, view[1])
        d = self.data_for(coord, shape)
        v = py_view(view, shape)
        out = []
        for cid in d.world_component_ids:
            try:
                out.append(canon_arr(d.get_data(cid, view=v)))
            except IndexError:
                out.append("index-error")
        return out


class Link(_DataFamily):
    """Every automatically created pixel→world and world→pixel link of a dataset, computed
    under a view, vs the transformation applied directly."""
    name = "link"
    budget_share = 1.4

    def fresh_cases(self, tier, rng):
        quick = tier == "quick"
        for coord in coords_stream(tier, rng):
            n = coord_ndim(coord)
            for shape in shapes_for(n, tier, rng, 1 if quick else 2):
                lad = quick and is_ladder(coord)
                for view in views_for(shape, rng, 2 if lad else 5 if quick else 10, 1 if lad else 2 if quick else 4, masks=False):
                    yield [coord, shape, view]

    def cases(self, tier, rng):
        yield from interleave(self.fresh_cases(tier, rng), hist_cases(tier, rng, "rl"))

    def run_impl(self, case):
        coord, shape, view = case
        if is_hist(case):
            return run_history(coord, shape, view[1])
        d = self.data_for(coord, shape)
        v = py_view(view, shape)
        links = list(d._coordinate_links)
        n = len(shape)
        assert len(links) == 2 * n
        out = []
        for i in range(n):
            p2w, w2p = links[2 * i], links[2 * i + 1]
            assert p2w.pixel2world and not w2p.pixel2world and p2w.index == i and w2p.index == i
            assert p2w.get_to_id() is d.world_component_ids[i] and w2p.get_to_id() is d.pixel_component_ids[i]
            row = []
            for l in (p2w, w2p):
                row.append([int(k) for k in l.from_needed])
                try:
                    row.append(canon_arr(l.compute(d, v)))
                except IndexError:
                    row.append("index-error")
            out.append(row)
        return out


PROP = Property(
    id="C15",
    title="World coordinates, their links and inverses agree with the coordinate object",
    theorems=["C15.w2p_p2w", "C15.w2p_p2w_coord", "C15.inverse_le3", "C15.det_ne_zero_iff", "C15.mkAffine_wf", "C15.coupledAxes_closed", "C15.need_subset_dep", "C15.need_subset_dep_of_diag", "C15.world_eq_direct", "C15.world_eq_direct_partial", "C15.world_eq_direct_pinned_of_diag", "C15.w2p_shortcut", "C15.w2p_shortcut_partial", "C15.inverse_pattern_covered", "C15.corr_matrix_exact", "C15.dep_scale_invariant", "C15.links_eq_direct", "C15.link_p2w_eq_direct_partial", "C15.identity_coords", "C15.world_eq_direct_history", "C15.history_read_current_state", "C15.cached_grid_survives_shape_change", "C15.permuted_axes_wrong", "C15.triangular_inverse_wrong", "C15.chain_from_needed_wrong"],
    families=[Xform(), World(), Link()],
    trusted_base=["IEEE binary64 arithmetic of numpy matmul (any summation order, with or without FMA) and of LAPACK gesv behind np.linalg.inv: doubles are sent to Lean as exact rationals and accepted by rules computed by the Lean driver from the exact case (lean/GlueVerif/Model/C15Float.lean): forward values exact whenever all partial sums are representable, else within (n+2) 2^-53 sum|terms|; inverse values within 32 * 2^-53 * |N| W |N| |y| (first-order Higham bound for Gaussian elimination with partial pivoting, W = P^T|L||U| computed exactly over Q on every near-tied pivot path; constant calibrated: worst observed 2.4 of 32). No absolute tolerance.",
                  "numpy meshgrid / unbroadcast / broadcast_arrays / broadcast_to / basic and advanced indexing are modelled by their value semantics (Model/Coords.lean: viewPoints, subst)"],
    assumptions=["astropy WCS objects are not modelled: only AffineCoordinates and IdentityCoordinates (the property's quantifier)",
                 "matrices are generated only if float64 can invert them meaningfully: the driver's own round-trip tolerance at pixel (4,..,4) is <= 2^-8 pixel and all magnitudes (matrix, inverse, |N|W|N|) lie in [2^-1000, 2^1000]; the rung 2^-997 is only used in fixed structural roles (no random mixing: products of two such entries underflow)",
                 "views: None, Ellipsis, scalars, slices (any non-zero step), tuples of these not longer than ndim, tuples of ndim in-range non-negative integer index arrays, full-shape Boolean masks"],
    rule="coordinates: identity 1-3 d, all 0/±1/2 matrices with non-zero determinant for n = 1, 2 (all of them) and n = 3 (hand-picked patterns + seeded sample), translations from a fixed set, seeded random dyadic matrices; magnitude ladder 2^e, e in {-997,-100,-54,-40,-34,-33,-27,-24,-20,-17,-10,10,17,27,40,100} (1e-300 .. 1e30): every rung in every structural role (diagonal, permuted, triangular, coupled, block; one axis / all axes / one row / one column / one coupling at the rung) for n = 1..3 with offsets of 0, 3, 2^20, 2^31+1, 5*2^36 steps and an unrelated rung, plus seeded random matrices mixing 1-3 rungs (mantissas 1, 3, 5, 1+2^-30, 1+2^-52, 2-2^-52); shapes <= 3-d with sides <= 4 (5 thorough); views from the stated domain; non-trivial = affine coordinates (xform) / affine and >= 2-d (world, link)",
)
