"""C08 — region containment is geometrically exact and equivariant under move / rotate / copy.

Real classes of glue/core/roi.py are executed on exactly representable inputs; every number is sent
to the Lean driver as an exact rational (`Fraction(float)`), so the model works on *the same*
inputs.  The driver evaluates `Impl` (the coded branches) and `Spec` (the geometric definition) and
compares with the implementation outside the boundary band `near r p eps`.
"""
import itertools
import math
from fractions import Fraction

from harness.core import Family, Property, sx, use_repo

use_repo()
import numpy as np  # noqa: E402
from glue.core import roi as R  # noqa: E402
from glue.core.exceptions import UndefinedROI  # noqa: E402

# ------------------------------------------------------------------------------------------
# exact numbers
# ------------------------------------------------------------------------------------------


def qx(v):
    """float / int / Fraction -> atom or (q num den); non-finite -> nan / inf / -inf."""
    if isinstance(v, Fraction):
        f = v
    else:
        v = float(v)
        if math.isnan(v):
            return "nan"
        if math.isinf(v):
            return "inf" if v > 0 else "-inf"
        f = Fraction(v)
    return f.numerator if f.denominator == 1 else ["q", f.numerator, f.denominator]


def fl(e):
    """inverse of qx for finite entries (used when a case is replayed from JSON)."""
    if isinstance(e, list):
        return e[1] / e[2] if abs(e[1]) < 2 ** 1000 else float(Fraction(e[1], e[2]))
    if e == "nan":
        return float("nan")
    if e == "inf":
        return float("inf")
    if e == "-inf":
        return float("-inf")
    return float(e)


def frac(e):
    if isinstance(e, list):
        return Fraction(e[1], e[2])
    return Fraction(e)


def bits(arr):
    a = np.asarray(arr)
    if a.dtype != bool:
        return "not-bool-" + str(a.dtype)
    return "b" + "".join("1" if b else "0" for b in a.ravel(order="C").tolist())


# ------------------------------------------------------------------------------------------
# rotations: exact rational unit vectors
# ------------------------------------------------------------------------------------------

PYTH = [(3, 4, 5), (5, 12, 13), (8, 15, 17), (7, 24, 25), (20, 21, 29), (119, 120, 169), (65, 72, 97)]
QUARTERS = [(1, 0), (0, 1), (-1, 0), (0, -1)]


def turn(cs, k):
    """rotate the unit vector by k quarter turns."""
    c, s = cs
    for _ in range(k % 4):
        c, s = -s, c
    return c, s


def pyth_rots():
    out = []
    for a, b, h in PYTH:
        for k in range(4):
            out.append(turn((Fraction(a, h), Fraction(b, h)), k))
            out.append(turn((Fraction(b, h), Fraction(a, h)), k))
    return out


def tilt_rots():
    """angles within 2^-k of a multiple of pi/2, on both sides: theta = m*pi/2 +- 2*atan(2^-k)."""
    out = []
    for k in (8, 16, 24, 28, 30, 32, 34, 40, 50):
        t = Fraction(1, 2 ** k)
        c, s = (1 - t * t) / (1 + t * t), 2 * t / (1 + t * t)
        for m in range(4):
            out.append(turn((c, s), m))
            out.append(turn((c, -s), m))
    return out


ALL_ROTS = [(Fraction(c), Fraction(s)) for c, s in QUARTERS] + pyth_rots() + tilt_rots()


def theta_of(c, s, k=0):
    return math.atan2(float(s), float(c)) + 2 * math.pi * k


def pick_rot(rng, kind=None):
    kind = kind or rng.choice(["q", "q", "p", "p", "p", "t", "t"])
    if kind == "q":
        c, s = rng.choice(QUARTERS)
    elif kind == "p":
        c, s = rng.choice(pyth_rots())
    else:
        c, s = rng.choice(tilt_rots())
    k = rng.choice([0, 0, 0, 0, 1, -1, 3])
    return [qx(Fraction(c)), qx(Fraction(s)), k]


def is_quarter(rot):
    return rot[0] in (0, 1, -1) and rot[1] in (0, 1, -1)


# ------------------------------------------------------------------------------------------
# regions
# ------------------------------------------------------------------------------------------

def dy(rng, lo=-64, hi=64, den=8):
    """small dyadic number (exact in every intermediate double operation of the coded tests)."""
    return Fraction(rng.randint(lo * den, hi * den), den)


def anyfloat(rng, scale=10.0):
    return rng.choice([rng.uniform(-scale, scale), rng.uniform(-scale, scale), round(rng.uniform(-scale, scale), 2),
                       rng.uniform(-1e-3, 1e-3) * scale, rng.uniform(-1e3, 1e3) * scale])


def mk_roi(spec):
    """case description -> glue object."""
    k = spec[0]
    if k == "rect":
        xmin, xmax, ymin, ymax, c, s, w = spec[1:]
        return R.RectangularROI(fl(xmin), fl(xmax), fl(ymin), fl(ymax), theta=theta_of(frac(c), frac(s), w))
    if k == "circle":
        return R.CircularROI(fl(spec[1]), fl(spec[2]), fl(spec[3]))
    if k == "ellipse":
        xc, yc, rx, ry, c, s, w = spec[1:]
        return R.EllipticalROI(fl(xc), fl(yc), fl(rx), fl(ry), theta=theta_of(frac(c), frac(s), w))
    if k == "annulus":
        return R.CircularAnnulusROI(fl(spec[1]), fl(spec[2]), fl(spec[3]), fl(spec[4]))
    if k == "range":
        cls = R.XRangeROI if spec[1] == "x" else R.YRangeROI
        return cls(fl(spec[2]), fl(spec[3]))
    if k == "poly":
        return R.PolygonalROI([fl(v[0]) for v in spec[1:]], [fl(v[1]) for v in spec[1:]])
    if k == "undef":
        return {"rect": R.RectangularROI(), "circle": R.CircularROI(), "ellipse": R.EllipticalROI(),
                "annulus": R.CircularAnnulusROI(0.0, 0.0, 2.0, 1.0), "annulus0": R.CircularAnnulusROI(0.0, 0.0, 0.0, 1.0),
                "range": R.XRangeROI(), "poly": R.PolygonalROI()}[spec[1]]
    raise ValueError(spec)


def roi_scale(spec):
    vals = []

    def walk(e):
        if isinstance(e, list) and e and e[0] == "q":
            vals.append(abs(Fraction(e[1], e[2])))
        elif isinstance(e, list):
            for x in e:
                walk(x)
        elif isinstance(e, int):
            vals.append(abs(Fraction(e)))
    if spec[0] in ("rect", "ellipse"):
        walk(spec[1:-3])
    else:
        walk(spec[1:])
    m = max(vals + [Fraction(1)])
    p = 1
    while p < m:
        p *= 2
    return Fraction(p)


def pow2_ge(m):
    """smallest power of two >= m (Fraction; m > 0), also below 1."""
    p = Fraction(1)
    while p < m:
        p *= 2
    while p / 2 >= m:
        p /= 2
    return p


def roi_size(spec):
    """The region's OWN scale: a power of two >= its largest extent (0 for a point-like region).  The
    recorded band is 1e-6 * this -- never relative to the distance from the origin, never an absolute
    constant; the driver adds the rounding bound 2^-44 * (|centre| + |p| + size) itself."""
    k = spec[0]
    if k == "rect":
        ext = max(abs(frac(spec[2]) - frac(spec[1])), abs(frac(spec[4]) - frac(spec[3])))
    elif k == "circle":
        ext = abs(frac(spec[3]))
    elif k == "ellipse":
        ext = max(abs(frac(spec[3])), abs(frac(spec[4])))
    elif k == "annulus":
        ext = max(abs(frac(spec[3])), abs(frac(spec[4])))
    elif k == "range":
        ext = abs(frac(spec[3]) - frac(spec[2]))
    elif k == "poly":
        xs = [frac(v[0]) for v in spec[1:]]
        ys = [frac(v[1]) for v in spec[1:]]
        ext = max(max(xs) - min(xs), max(ys) - min(ys)) if xs else Fraction(0)
    else:
        ext = Fraction(0)
    return pow2_ge(ext) if ext > 0 else Fraction(0)


def band_eps(spec):
    """(eps sent to the driver, float eps used to place boundary points)."""
    size = roi_size(spec)
    eps = size * Fraction(1, 10 ** 6)
    if eps > 0:
        return eps, float(eps)
    m = float(roi_scale(spec))
    return eps, 1e-12 * m


def roi_extent(spec):
    """(cx, cy, radius) of a disc that contains the region (floats; only used to place test points)."""
    k = spec[0]
    if k == "rect":
        xmin, xmax, ymin, ymax = [fl(e) for e in spec[1:5]]
        return (xmin + xmax) / 2, (ymin + ymax) / 2, math.hypot(xmax - xmin, ymax - ymin) / 2
    if k == "circle":
        return fl(spec[1]), fl(spec[2]), abs(fl(spec[3]))
    if k == "ellipse":
        return fl(spec[1]), fl(spec[2]), max(abs(fl(spec[3])), abs(fl(spec[4])))
    if k == "annulus":
        return fl(spec[1]), fl(spec[2]), abs(fl(spec[4]))
    if k == "range":
        lo, hi = fl(spec[2]), fl(spec[3])
        return (lo + hi) / 2, (lo + hi) / 2, abs(hi - lo) / 2
    if k == "poly":
        xs = [fl(v[0]) for v in spec[1:]]
        ys = [fl(v[1]) for v in spec[1:]]
        cx, cy = (min(xs) + max(xs)) / 2, (min(ys) + max(ys)) / 2
        return cx, cy, max(math.hypot(max(xs) - min(xs), max(ys) - min(ys)) / 2, 0.5)
    return 0.0, 0.0, 1.0


def boundary_points(spec, n, rng, eps, offs=None):
    """floats on / just off the boundary (any float is an exact rational input)."""
    k = spec[0]
    out = []
    if offs is None:
        offs = [0.0, eps / 10, -eps / 10, 5 * eps, -5 * eps, 50 * eps, -50 * eps, 1000 * eps, -1000 * eps]
    for _ in range(n):
        d = rng.choice(offs)
        if k == "rect":
            xmin, xmax, ymin, ymax = [fl(e) for e in spec[1:5]]
            c, s = float(frac(spec[5])), float(frac(spec[6]))
            hw, hh = (xmax - xmin) / 2, (ymax - ymin) / 2
            cx, cy = xmin + hw, ymin + hh
            side = rng.randint(0, 3)
            t = rng.uniform(-1.1, 1.1)
            if side == 0:
                u, v = hw + d, t * hh
            elif side == 1:
                u, v = -hw - d, t * hh
            elif side == 2:
                u, v = t * hw, hh + d
            else:
                u, v = t * hw, -hh - d
            out.append((cx + c * u - s * v, cy + s * u + c * v))
        elif k in ("circle", "annulus"):
            r = fl(spec[3]) if k == "circle" or rng.random() < 0.5 else fl(spec[4])
            a = rng.uniform(0, 2 * math.pi)
            out.append((fl(spec[1]) + (r + d) * math.cos(a), fl(spec[2]) + (r + d) * math.sin(a)))
        elif k == "ellipse":
            rx, ry = fl(spec[3]), fl(spec[4])
            c, s = float(frac(spec[5])), float(frac(spec[6]))
            a = rng.uniform(0, 2 * math.pi)
            f = 1 + d / max(min(abs(rx), abs(ry)), 1e-300) * rng.choice([1, 3])
            u, v = f * rx * math.cos(a), f * ry * math.sin(a)
            out.append((fl(spec[1]) + c * u - s * v, fl(spec[2]) + s * u + c * v))
        elif k == "range":
            b = fl(spec[2]) if rng.random() < 0.5 else fl(spec[3])
            o = rng.uniform(-5, 5)
            out.append((b + d, o) if spec[1] == "x" else (o, b + d))
        elif k == "poly":
            vs = spec[1:]
            i = rng.randrange(len(vs))
            a, b = vs[i], vs[(i + 1) % len(vs)]
            t = rng.choice([0.0, 1.0, 0.5, rng.random()])
            ax, ay, bx, by = fl(a[0]), fl(a[1]), fl(b[0]), fl(b[1])
            L = math.hypot(bx - ax, by - ay) or 1.0
            nx, ny = -(by - ay) / L, (bx - ax) / L
            out.append((ax + t * (bx - ax) + d * nx, ay + t * (by - ay) + d * ny))
    return out


def gen_rect(rng, mode):
    if mode == "dy":
        x0, y0 = dy(rng), dy(rng)
        w, h = Fraction(rng.randint(0, 256), 8), Fraction(rng.randint(0, 256), 8)
        if rng.random() < 0.15:
            w = Fraction(1, 1024) * rng.randint(0, 3)          # thin / degenerate
        if rng.random() < 0.15:
            h = Fraction(1, 1024) * rng.randint(0, 3)
        rot = pick_rot(rng)
        return ["rect", qx(x0), qx(x0 + w), qx(y0), qx(y0 + h)] + rot
    x0, y0 = anyfloat(rng), anyfloat(rng)
    w = abs(anyfloat(rng)) * rng.choice([1, 1, 1e-3, 1e3])
    h = abs(anyfloat(rng)) * rng.choice([1, 1, 1e-3, 1e3])
    return ["rect", qx(x0), qx(x0 + w), qx(y0), qx(y0 + h)] + pick_rot(rng)


def gen_circle(rng, mode):
    if mode == "dy":
        return ["circle", qx(dy(rng)), qx(dy(rng)), qx(Fraction(rng.randint(0, 256), 8))]
    return ["circle", qx(anyfloat(rng)), qx(anyfloat(rng)), qx(abs(anyfloat(rng)))]


def gen_ellipse(rng, mode):
    if mode == "dy":
        rx = Fraction(rng.choice([0, 1, 2, 4, 8, 16, 3, 5, 12, 100]), rng.choice([1, 1, 2, 8, 64]))
        ry = Fraction(rng.choice([0, 1, 2, 4, 8, 16, 3, 5, 12, 100]), rng.choice([1, 1, 2, 8, 64]))
        return ["ellipse", qx(dy(rng)), qx(dy(rng)), qx(rx), qx(ry)] + pick_rot(rng)
    return ["ellipse", qx(anyfloat(rng)), qx(anyfloat(rng)), qx(abs(anyfloat(rng)) * rng.choice([1, 1e-3, 1e2])),
            qx(abs(anyfloat(rng)))] + pick_rot(rng)


def gen_annulus(rng, mode):
    if mode == "dy":
        ri = Fraction(rng.randint(1, 128), 8)
        ro = ri + Fraction(rng.randint(1, 128), rng.choice([8, 8, 1024]))
        return ["annulus", qx(dy(rng)), qx(dy(rng)), qx(ri), qx(ro)]
    ri = abs(anyfloat(rng)) + 1e-6
    return ["annulus", qx(anyfloat(rng)), qx(anyfloat(rng)), qx(ri), qx(ri + abs(anyfloat(rng)) + 1e-9)]


def gen_range(rng, mode):
    if mode == "dy":
        lo = dy(rng)
        return ["range", rng.choice("xy"), qx(lo), qx(lo + Fraction(rng.randint(0, 256), 8))]
    lo = anyfloat(rng)
    return ["range", rng.choice("xy"), qx(lo), qx(lo + abs(anyfloat(rng)))]


POLY_SHAPES = {
    "tri": [(0, 0), (4, 0), (0, 3)],
    "square": [(0, 0), (4, 0), (4, 4), (0, 4)],
    "square-closed": [(0, 0), (4, 0), (4, 4), (0, 4), (0, 0)],
    "concave": [(0, 0), (6, 0), (6, 6), (3, 2), (0, 6)],
    "concave-closed": [(0, 0), (6, 0), (6, 6), (3, 2), (0, 6), (0, 0)],
    "bowtie": [(0, 0), (4, 4), (4, 0), (0, 4)],
    "star": [(0, 3), (2, -3), (-3, 1), (3, 1), (-2, -3)],
    "comb": [(0, 0), (7, 0), (7, 5), (6, 5), (6, 1), (5, 1), (5, 5), (4, 5), (4, 1), (3, 1), (3, 5), (0, 5)],
    "dup-vertex": [(0, 0), (4, 0), (4, 0), (4, 4), (0, 4)],
    "line": [(0, 0), (4, 0)],
    "line3": [(-2, 0), (4, 0), (1, 0)],
    "point": [(1, 2)],
    "sliver": [(0, 0), (8, 0), (8, Fraction(1, 512))],
}


def gen_poly(rng, mode, shape=None):
    if shape is None and rng.random() < 0.6:
        shape = rng.choice(sorted(POLY_SHAPES))
    if shape is not None:
        sc = Fraction(rng.choice([1, 1, 2, 1]), rng.choice([1, 1, 2, 8]))
        ox, oy = (dy(rng, -8, 8), dy(rng, -8, 8)) if mode == "dy" else (Fraction(anyfloat(rng)), Fraction(anyfloat(rng)))
        vs = [(Fraction(x) * sc + ox, Fraction(y) * sc + oy) for x, y in POLY_SHAPES[shape]]
    else:
        n = rng.randint(3, 9)
        if mode == "dy":
            vs = [(dy(rng, -8, 8, 2), dy(rng, -8, 8, 2)) for _ in range(n)]
        else:
            # one common scale per polygon (mixed magnitudes give spikes whose lobes cancel: the
            # centroid is then ill-conditioned in double precision)
            S = rng.choice([1e-3, 1.0, 10.0, 1e3])
            ox, oy = rng.uniform(-10, 10) * S, rng.uniform(-10, 10) * S
            vs = [(Fraction(ox + rng.uniform(-S, S)), Fraction(oy + rng.uniform(-S, S))) for _ in range(n)]
        if rng.random() < 0.3:
            vs.append(vs[0])
    if mode != "dy":
        vs = [(Fraction(float(x)), Fraction(float(y))) for x, y in vs]
    return ["poly"] + [[qx(x), qx(y)] for x, y in vs]


GENS = {"rect": gen_rect, "circle": gen_circle, "ellipse": gen_ellipse, "annulus": gen_annulus,
        "range": gen_range, "poly": gen_poly}


def exact_ok(spec, mode):
    """Is every double operation of the coded test exact on small dyadic inputs?"""
    k = spec[0]
    if k == "range":
        return True
    if k == "rect":
        rot = spec[5:8]
        if rot[2] != 0 or not is_quarter(rot):
            return False
        return rot[1] == 0 or mode == "dy"
    if mode != "dy":
        return False
    if k in ("circle", "annulus", "poly"):
        return True
    if k == "ellipse":
        rot = spec[5:8]
        if rot[2] != 0 or not is_quarter(rot):
            return False

        def pow2(e):
            f = frac(e)
            return f > 0 and (f.numerator & (f.numerator - 1)) == 0 and (f.denominator & (f.denominator - 1)) == 0
        return pow2(spec[3]) and pow2(spec[4])
    return False


def sample_points(spec, rng, mode, n_grid=6, n_bnd=12, n_rand=10, eps=0.0, specials=True):
    cx, cy, rad = roi_extent(spec)
    rad = max(rad, 1e-3)
    pts = []
    if mode == "dy":
        # dyadic grid covering the region (many points exactly on edges and vertices)
        step = Fraction(1, 2)
        gx0 = Fraction(math.floor(cx - 1.3 * rad - 1))
        span = 2 * math.ceil(1.3 * rad + 1)
        m = max(2, min(n_grid, span * 2 + 1))
        idx = sorted(set(round(i * (span * 2) / (m - 1)) for i in range(m)))
        gy0 = Fraction(math.floor(cy - 1.3 * rad - 1))
        for j in idx:
            for i in idx:
                pts.append((float(gx0 + i * step), float(gy0 + j * step)))
        for _ in range(n_rand):
            pts.append((float(Fraction(math.floor((cx + rng.uniform(-1.3, 1.3) * rad) * 8), 8)),
                        float(Fraction(math.floor((cy + rng.uniform(-1.3, 1.3) * rad) * 8), 8))))
        if spec[0] == "poly":
            for v in spec[1:]:
                pts.append((fl(v[0]), fl(v[1])))
    else:
        for _ in range(n_rand + n_grid * n_grid):
            pts.append((cx + rng.uniform(-1.4, 1.4) * rad, cy + rng.uniform(-1.4, 1.4) * rad))
        pts.append((cx, cy))
    if mode != "dy" or not exact_ok(spec, mode):
        pts += boundary_points(spec, n_bnd, rng, eps)
    elif spec[0] in ("rect", "range", "circle", "annulus"):
        # exactly representable boundary points for the exact classes
        if spec[0] == "rect":
            xmin, xmax, ymin, ymax = [fl(e) for e in spec[1:5]]
            pts += [(xmin, ymin), (xmax, ymax), (xmin, (ymin + ymax) / 2), ((xmin + xmax) / 2, ymax)]
        elif spec[0] == "range":
            pts += [(fl(spec[2]), fl(spec[2])), (fl(spec[3]), fl(spec[3]))]
        else:
            r = fl(spec[3])
            pts += [(fl(spec[1]) + r, fl(spec[2])), (fl(spec[1]), fl(spec[2]) - r)]
            if spec[0] == "annulus":
                r = fl(spec[4])
                pts += [(fl(spec[1]) + r, fl(spec[2])), (fl(spec[1]), fl(spec[2]) - r)]
    if specials:
        far = 1e6 * max(rad, 1.0)
        pts += [(cx + far, cy), (cx, cy - far), (-far, far)]
        nan, inf = float("nan"), float("inf")
        pts += [(nan, cy), (cx, nan), (inf, cy), (cx, -inf), (nan, nan), (-inf, inf)]
    return pts


# ------------------------------------------------------------------------------------------
# magnitude / offset ladder (round 2): region sizes 2^-40 .. 2^40, centres 0, +-2^-30, +-1, +-2^21,
# +-2^31, +-2^50 (+ a jitter of eighths of the size, so that coordinates carry many significant bits),
# thin and fat aspect ratios.  Everything is an exact dyadic, chosen so that every parameter and every
# lattice point is exactly representable; test points are placed at distances proportional to the
# LOCAL scale (the size of the region), never to the distance from the origin.
# ------------------------------------------------------------------------------------------

LAD_SIZE_EXP = (-40, -30, -20, -10, -3, 0, 3, 10, 21, 31, 40)
LAD_CENTRES = [Fraction(0)] + [sg * Fraction(2) ** e for e in (-30, 0, 21, 31, 50) for sg in (1, -1)]


def rep(v):
    """is the rational exactly representable as a double?"""
    return Fraction(float(v)) == v


def lad_frame(rng, exact, iso=False, ratio=None, max_aspect=None):
    """-> (cx, cy, Sx, Sy): centre from the ladder (|centre| <= 2^ratio * smallest size, so that the
    region stays resolvable in doubles) and the size along each axis (aspect 1, or thin along one axis)."""
    e = rng.choice(LAD_SIZE_EXP)
    aspects = [0, 0, 0, 4, 12] if exact else [0, 0, 0, 10, 20, 30]
    if max_aspect is not None:
        aspects = [a for a in aspects if a <= max_aspect]
    a = 0 if iso else rng.choice(aspects)
    S = Fraction(2) ** e
    Sx, Sy = (S, S / 2 ** a) if rng.random() < 0.5 else (S / 2 ** a, S)
    R = ratio if ratio is not None else (40 if exact else 36)
    lim = min(Sx, Sy) * 2 ** R
    cands = [c for c in LAD_CENTRES if abs(c) <= lim]
    cands = cands + cands[-4:]               # the largest admissible offsets twice as often
    cx = rng.choice(cands) + Fraction(rng.randint(-4, 4), 8) * Sx
    cy = rng.choice(cands) + Fraction(rng.randint(-4, 4), 8) * Sy
    return cx, cy, Sx, Sy


QUARTER_ROTS = [[1, 0, 0], [0, 1, 0], [-1, 0, 0], [0, -1, 0]]


def lad_region(rng, kind, frame, exact, rot=None):
    """-> (spec, special) : region centred on the frame centre, extents = eighths of the frame sizes;
    `special` = lattice points (in sixteenths of the sizes, relative to the centre) on the boundary."""
    cx, cy, Sx, Sy = frame
    sp = []
    if kind == "rect":
        jw, jh = 2 * rng.randint(1, 8), 2 * rng.randint(1, 8)     # width = jw/8 * Sx
        w, h = Fraction(jw, 8) * Sx, Fraction(jh, 8) * Sy
        rot = rot or (rng.choice(QUARTER_ROTS) if exact else pick_rot(rng))
        spec = ["rect", qx(cx - w / 2), qx(cx + w / 2), qx(cy - h / 2), qx(cy + h / 2)] + rot
        a, b = (jw, jh) if rot[1] == 0 else (jh * Sy / Sx, jw * Sx / Sy)   # half extents in sixteenths after a quarter turn
        if Fraction(a).denominator == 1 and Fraction(b).denominator == 1 and max(a, b) <= 64:
            a, b = int(a), int(b)
            sp = [(a, 0), (-a, 0), (0, b), (0, -b), (a, b), (-a, -b), (a, -b), (a, b - 1), (a - 1, b)]
    elif kind == "circle":
        j = rng.choice([1, 2, 4, 5, 8, 10, 16])
        spec = ["circle", qx(cx), qx(cy), qx(Fraction(j, 8) * Sx)]
        sp = [(2 * j, 0), (-2 * j, 0), (0, 2 * j), (0, -2 * j)]
        if j % 5 == 0:
            q = j // 5
            sp += [(6 * q, 8 * q), (-8 * q, 6 * q), (6 * q, -8 * q)]
    elif kind == "annulus":
        ji = rng.choice([1, 2, 4, 5, 10])
        if exact:
            jo = ji + rng.choice([1, 2, 5, 6])
            ro = Fraction(jo, 8) * Sx
        else:
            ro = Fraction(ji, 8) * Sx + rng.choice([Fraction(1, 8), Fraction(1, 2), Fraction(1, 2 ** 12), Fraction(1, 2 ** 24)]) * Sx
            jo = None
        spec = ["annulus", qx(cx), qx(cy), qx(Fraction(ji, 8) * Sx), qx(ro)]
        sp = [(2 * ji, 0), (0, -2 * ji)]
        if jo is not None:
            sp += [(2 * jo, 0), (0, 2 * jo), (-2 * jo, 0)]
            for j in (ji, jo):
                if j % 5 == 0:
                    sp += [(6 * j // 5, 8 * j // 5), (-8 * j // 5, -6 * j // 5)]
    elif kind == "ellipse":
        if exact:
            ix, iy = rng.choice([-1, 0, 1]), rng.choice([-1, 0, 1])
            rx, ry = Sx * Fraction(2) ** ix, Sy * Fraction(2) ** iy
            rot = rng.choice(QUARTER_ROTS)
            a, b = (rx / Sx * 16, ry / Sy * 16) if rot[1] == 0 else (ry / Sx * 16, rx / Sy * 16)
            if Fraction(a).denominator == 1 and Fraction(b).denominator == 1 and max(a, b) <= 64:
                a, b = int(a), int(b)
                sp = [(a, 0), (-a, 0), (0, b), (0, -b)]
                if a % 5 == 0 and b % 5 == 0:
                    sp += [(3 * a // 5, 4 * b // 5), (-4 * a // 5, 3 * b // 5)]
        else:
            rx, ry = Fraction(rng.randint(1, 16), 8) * Sx, Fraction(rng.randint(1, 16), 8) * Sy
            rot = rot or pick_rot(rng)
        spec = ["ellipse", qx(cx), qx(cy), qx(rx), qx(ry)] + rot
    elif kind == "range":
        ori = rng.choice("xy")
        c0, S0 = (cx, Sx) if ori == "x" else (cy, Sy)
        jw = 2 * rng.randint(1, 8)
        spec = ["range", ori, qx(c0 - Fraction(jw, 16) * S0), qx(c0 + Fraction(jw, 16) * S0)]
        sp = [(jw, jw), (-jw, -jw), (jw, 0), (0, -jw)]
    elif kind == "poly":
        names = [n for n in sorted(POLY_SHAPES) if not (exact and n == "sliver")]
        if rng.random() < 0.7:
            ks = [(2 * Fraction(x) - 6, 2 * Fraction(y) - 6) for x, y in POLY_SHAPES[rng.choice(names)]]
        else:
            ks = [(Fraction(rng.randint(-12, 12)), Fraction(rng.randint(-12, 12))) for _ in range(rng.randint(3, 7))]
            if rng.random() < 0.3:
                ks.append(ks[0])
        spec = ["poly"] + [[qx(cx + kx * Sx / 16), qx(cy + ky * Sy / 16)] for kx, ky in ks]
        sp = [(int(kx), int(ky)) for kx, ky in ks if kx.denominator == 1 and ky.denominator == 1]
        for (a, b), (c, d) in zip(ks, ks[1:] + ks[:1]):
            m = ((a + c) / 2, (b + d) / 2)
            if m[0].denominator == 1 and m[1].denominator == 1:
                sp.append((int(m[0]), int(m[1])))
    else:
        raise ValueError(kind)
    return spec, sp


def spec_rep(spec):
    """every number of the description is exactly the double the implementation receives."""
    ok = []

    def walk(e):
        if isinstance(e, list) and e and e[0] == "q":
            ok.append(rep(Fraction(e[1], e[2])))
        elif isinstance(e, list):
            for x in e:
                walk(x)
        elif isinstance(e, int):
            ok.append(abs(e) < 2 ** 1000 and rep(Fraction(e)))
    walk(spec[:-3] if spec[0] in ("rect", "ellipse") else spec)
    return all(ok)


def lad_points_exact(rng, frame, special):
    """lattice points (sixteenths of the sizes about the centre): coarse grid, random, on and next to the
    boundary, far.  Only exactly representable ones are kept."""
    cx, cy, Sx, Sy = frame
    ks = []
    m = rng.choice([4, 5, 7])
    for j in range(m):
        for i in range(m):
            ks.append((round(-20 + 40 * i / (m - 1)), round(-20 + 40 * j / (m - 1))))
    for _ in range(8):
        ks.append((rng.randint(-24, 24), rng.randint(-24, 24)))
    for kx, ky in special:
        ks.append((kx, ky))
        if rng.random() < 0.6:
            ks.append((kx + rng.choice([-1, 1]), ky))
        if rng.random() < 0.6:
            ks.append((kx, ky + rng.choice([-1, 1])))
    ks += [(0, 0), (1024, 0), (0, -1024), (-4096, 4096)]
    pts = []
    for kx, ky in ks:
        x, y = cx + kx * Sx / 16, cy + ky * Sy / 16
        if rep(x) and rep(y):
            pts.append((float(x), float(y)))
    return pts


def lad_offsets(frame):
    """signed distances from the boundary: size * 2^-j for both sizes -- from well inside / outside
    (size/8) down to below the rounding error."""
    _, _, Sx, Sy = frame
    offs = [0.0]
    for S in {float(max(Sx, Sy)), float(min(Sx, Sy))}:
        for j in (3, 8, 14, 20, 24, 28, 32, 36, 40, 44, 48, 52):
            offs += [S * 2.0 ** -j, -S * 2.0 ** -j]
    return offs


def lad_points_band(rng, spec, frame, n_bnd=24, n_rand=14, specials=True):
    """arbitrary doubles: well inside / outside at distances proportional to the local size (anisotropic
    for thin regions), and points at size * 2^-j from the boundary."""
    cx, cy, Sx, Sy = [float(v) for v in frame]
    R = max(Sx, Sy)
    pts = [(cx, cy)]
    for _ in range(n_rand):
        if spec[0] in ("rect", "ellipse") and not is_quarter(spec[5:8]) or rng.random() < 0.3:
            pts.append((cx + rng.uniform(-1.6, 1.6) * R, cy + rng.uniform(-1.6, 1.6) * R))
        else:
            pts.append((cx + rng.uniform(-1.6, 1.6) * Sx, cy + rng.uniform(-1.6, 1.6) * Sy))
    pts += boundary_points(spec, n_bnd, rng, None, offs=lad_offsets(frame))
    if specials:
        pts += [(cx + 2.0 ** 20 * R, cy), (cx, cy - 2.0 ** 30 * R), (float("nan"), cy), (cx, float("inf"))]
    return pts


LAD_KINDS = ("rect", "ellipse", "poly", "circle", "annulus", "range", "rect", "poly", "ellipse")


def lad_contains_case(rng, kind, exact, rot=None):
    iso = kind in ("circle", "annulus")
    frame = lad_frame(rng, exact, iso=iso)
    spec, special = lad_region(rng, kind, frame, exact, rot=rot)
    if not spec_rep(spec):
        return None
    if exact:
        pts = lad_points_exact(rng, frame, special)
        if rng.random() < 0.3:
            pts += [(float("nan"), float(frame[1])), (float(frame[0]), float("-inf"))]
    else:
        pts = lad_points_band(rng, spec, frame, specials=rng.random() < 0.5)
    layouts = ["c", "c", "f", "strided", "readonly"] + ([] if kind == "range" else ["list"])
    shape = rng.choice(factor_shapes(len(pts)))
    # eps = 0: on the ladder the only band is the rounding bound the driver derives from the exact inputs
    return [spec, pts_sx(pts, shape), 0, bool(exact), rng.choice(layouts)]


# exact mirror of the prescribed motions (only used to PLACE test points around the final region)

def poly_center_frac(vs):
    closed = len(vs) > 1 and vs[0] == vs[-1]
    core = vs[:-1] if closed else vs
    n = len(core)
    mx, my = sum(v[0] for v in core) / n, sum(v[1] for v in core) / n
    o = [(x - mx, y - my) for x, y in vs]
    a2 = sum(a[0] * b[1] - a[1] * b[0] for a, b in zip(o, o[1:]))
    if not closed:
        a2 += o[-1][0] * o[0][1] - o[-1][1] * o[0][0]
    if a2 == 0 or len(vs) == 3:
        return mx, my
    oc = [(x - mx, y - my) for x, y in core]
    sx_ = sy_ = Fraction(0)
    for a, b in zip([oc[-1]] + oc[:-1], oc):
        d = a[0] * b[1] - a[1] * b[0]
        sx_ += (a[0] + b[0]) * d
        sy_ += (a[1] + b[1]) * d
    return sx_ / (3 * a2) + mx, sy_ / (3 * a2) + my


# c = roi.copy(), then a vertex edit of the ORIGINAL (fork*: go on with the copy) or of the COPY (c*: go on
# with the original): the object that is observed must be the region it was (F24, fixed)
FORK_EDITS = {"forkadd": ("orig", "add"), "forkrepl": ("orig", "repl"), "forkrem": ("orig", "rem"),
              "cadd": ("copy", "add"), "crepl": ("copy", "repl"), "crem": ("copy", "rem")}


def final_spec(spec, ops):
    """the region the prescribed rigid motions lead to (exact rationals, then rounded to doubles)."""
    k = spec[0]
    if k == "poly":
        vs = [(frac(v[0]), frac(v[1])) for v in spec[1:]]
        cur = (Fraction(1), Fraction(0))
        for o in ops:
            if o == "rt":
                cur = (Fraction(1), Fraction(0))
            if not isinstance(o, list):
                continue
            if o[0] in FORK_EDITS:
                continue
            if o[0] in ("def", "add", "repl", "rem"):
                if o[0] == "def":
                    vs = [(frac(v[0]), frac(v[1])) for v in o[2][1:]]
                    cur = (Fraction(1), Fraction(0))
                elif o[0] == "add":
                    vs = vs + [(frac(o[1]), frac(o[2]))]
                elif o[0] == "repl":
                    vs = vs[:-1] + [(frac(o[1]), frac(o[2]))]
                else:
                    d = [(frac(o[1]) - x) ** 2 + (frac(o[2]) - y) ** 2 for x, y in vs]
                    i = d.index(min(d))
                    vs = vs[:i] + vs[i + 1:]
                continue
            ctr = poly_center_frac(vs)
            if o[0] == "move":
                dx, dy = frac(o[1]) - ctr[0], frac(o[2]) - ctr[1]
                vs = [(x + dx, y + dy) for x, y in vs]
            elif o[0] == "rot":
                c, s_ = frac(o[1]), frac(o[2])
                dc, ds = c * cur[0] + s_ * cur[1], s_ * cur[0] - c * cur[1]
                if not (dc == 1 and ds == 0):
                    vs = [(dc * (x - ctr[0]) - ds * (y - ctr[1]) + ctr[0], ds * (x - ctr[0]) + dc * (y - ctr[1]) + ctr[1]) for x, y in vs]
                cur = (c, s_)
        return ["poly"] + [[qx(float(x)), qx(float(y))] for x, y in vs]
    out = list(spec)
    for o in ops:
        if not isinstance(o, list):
            continue
        if o[0] == "move":
            tx, ty = frac(o[1]), frac(o[2])
            if k == "rect":
                w, h = frac(out[2]) - frac(out[1]), frac(out[4]) - frac(out[3])
                out[1:5] = [qx(float(tx - w / 2)), qx(float(tx + w / 2)), qx(float(ty - h / 2)), qx(float(ty + h / 2))]
            elif k == "range":
                t = tx if out[1] == "x" else ty
                w = frac(out[3]) - frac(out[2])
                out[2:4] = [qx(float(t - w / 2)), qx(float(t + w / 2))]
            else:
                out[1:3] = [qx(tx), qx(ty)]
        elif o[0] == "rot" and k in ("rect", "ellipse"):
            out[-3:] = o[1:4]
        elif o[0] == "def":
            n = o[2]
            if k == "rect":
                xs, ys = sorted([frac(n[1]), frac(n[2])]), sorted([frac(n[3]), frac(n[4])])
                out[1:5] = [qx(xs[0]), qx(xs[1]), qx(ys[0]), qx(ys[1])]
            elif k == "ellipse":
                out[1:5] = n[1:5]
            elif k == "range":
                out[2:4] = n[2:4]
            else:
                out = list(n)
    return out


def lad_ops_case(rng, kind, first=None, ratio=None, n_bnd=20):
    iso = kind in ("circle", "annulus")
    # polygons: |centre| <= 2^30 * smallest size keeps the area of every non-degenerate lattice polygon far above
    # the rounding threshold of center() (1e-12 extent^2 + 4 n eps |v| extent after F23)
    ratio = ratio if ratio is not None else (30 if kind == "poly" else 34)
    frame = lad_frame(rng, False, iso=iso, ratio=ratio, max_aspect=20)
    cx, cy, Sx, Sy = frame
    spec, _ = lad_region(rng, kind, frame, False)
    if not spec_rep(spec):
        return None
    lim = min(Sx, Sy) * 2 ** ratio
    cands = [c for c in LAD_CENTRES if abs(c) <= lim]
    cands = cands + cands[-4:]
    ops = list(first or [])
    for _ in range(rng.randint(0 if first else 1, 4 - len(ops))):
        c = rng.random()
        if c < 0.5:
            # target = ladder centre + an odd number of eighths of the size (many significant bits: a
            # displacement computed in single precision, or with an absolute tolerance, goes wrong)
            tx = rng.choice(cands) + Fraction(2 * rng.randint(-4, 3) + 1, 8) * Sx
            ty = rng.choice(cands) + Fraction(2 * rng.randint(-4, 3) + 1, 8) * Sy
            if not (rep(tx) and rep(ty)):
                continue
            ops.append(["move", qx(tx), qx(ty)])
        elif c < 0.75 and kind in ("rect", "ellipse", "poly"):
            ops.append(["rot"] + pick_rot(rng, rng.choice(["q", "p", "p", "t"])))
        elif c < 0.83:
            ops.append("copy")
        elif c < 0.92:
            ops.append("rt")
        else:
            ops.append("fork")
    fin = final_spec(spec, ops)
    fcx, fcy, _ = roi_extent(fin)
    if kind == "poly":
        fc = poly_center_frac([(frac(v[0]), frac(v[1])) for v in fin[1:]])
        fcx, fcy = float(fc[0]), float(fc[1])
    fframe = (Fraction(fcx), Fraction(fcy), Sx, Sy)
    pts = lad_points_band(rng, fin, fframe, n_bnd=n_bnd, n_rand=12, specials=False)
    # around the centres visited earlier (the region must have left them)
    for o in [["move", qx(cx), qx(cy)]] + [o for o in ops if isinstance(o, list) and o[0] == "move"][:-1]:
        pts.append((fl(o[1]) + 0.3 * float(Sx), fl(o[2]) - 0.2 * float(Sy)))
    return [spec, ops, pts_sx(pts, (len(pts),)), 0, 0]


def lad_proj_case(rng, exact):
    """screen = alpha * (world - W) + c with power-of-two alpha: the world frame has its own ladder size and
    offset, so the translation column cancels a large term exactly when honest doubles are used."""
    kind = rng.choice(["rect", "circle", "ellipse", "poly", "range", "annulus"])
    iso = kind in ("circle", "annulus")
    frame = lad_frame(rng, exact, iso=iso, ratio=30, max_aspect=12)
    cx, cy, Sx, Sy = frame
    spec, special = lad_region(rng, kind, frame, exact)
    if not spec_rep(spec):
        return None
    Ws = Fraction(2) ** rng.choice(LAD_SIZE_EXP)
    wc = [c for c in LAD_CENTRES if abs(c) <= Ws * 2 ** 30 and (c == 0 or abs(c) >= Ws / 16)]
    W = [rng.choice(wc) + Fraction(rng.randint(-4, 4), 8) * Ws for _ in range(3)]
    w = rng.choice([1, 1, 2, 4])
    ax, ay = Sx / Ws, Sy / Ws
    perm = rng.choice([(0, 1, 2), (1, 0, 2), (2, 1, 0), (0, 2, 1)])      # which world axis feeds screen x, y, depth
    M = [Fraction(0)] * 16
    M[0 + perm[0]] = w * ax
    M[3] = w * (cx - ax * W[perm[0]])
    M[4 + perm[1]] = w * ay
    M[7] = w * (cy - ay * W[perm[1]])
    M[8 + perm[2]] = Fraction(1)
    M[15] = Fraction(w)
    if not exact:
        # shear and perspective: not exact any more, the driver bounds the rounding error per point
        M[0 + perm[1]] += w * ax * Fraction(rng.randint(-2, 2), 4)
        M[4 + perm[2]] += w * ay * Fraction(rng.randint(-2, 2), 8)
        if rng.random() < 0.5:
            M[12 + perm[2]] = Fraction(rng.choice([1, -1]), 8) / Ws
    if not all(rep(m) for m in M):
        return None
    pts = []
    if exact:
        ks = [(round(-20 + 40 * i / 4), round(-20 + 40 * j / 4)) for j in range(5) for i in range(5)]
        ks += [(rng.randint(-24, 24), rng.randint(-24, 24)) for _ in range(6)]
        for kx, ky in special:
            ks += [(kx, ky), (kx + rng.choice([-1, 1]), ky)]
        for kx, ky in ks:
            q = [None] * 3
            q[perm[0]] = W[perm[0]] + kx * Ws / 16
            q[perm[1]] = W[perm[1]] + ky * Ws / 16
            q[perm[2]] = W[perm[2]] + Fraction(rng.randint(-16, 16), 8) * Ws
            # every product and every partial sum of the two dot products must be representable
            sxv = [M[j] * q[j] for j in range(3)] + [M[3]]
            syv = [M[4 + j] * q[j] for j in range(3)] + [M[7]]
            if all(rep(v) for v in q) and all(rep(v) for v in sxv + syv) and rep(sum(sxv)) and rep(sum(syv)) and \
                    rep(sum(sxv) / w) and rep(sum(syv) / w):
                pts.append([float(v) for v in q])
    else:
        for _ in range(30):
            sxy = (cx + Fraction(rng.randint(-24, 24), 16) * Sx, cy + Fraction(rng.randint(-24, 24), 16) * Sy)
            q3 = None
            v = solve4(M, [sxy[0] * w, sxy[1] * w, W[perm[2]] + Fraction(rng.randint(-16, 16), 8) * Ws, w])
            if v is not None and v[3] != 0:
                q3 = [float(v[i] / v[3]) for i in range(3)]
            if q3 is not None and all(math.isfinite(t) for t in q3):
                pts.append(q3)
    if rng.random() < 0.2:
        pts.append([float("nan"), float(W[1]), float(W[2])])
        pts.append([float(W[0]), float(W[1]), float("inf")])
    if not pts:
        return None
    shape = rng.choice(factor_shapes(len(pts)))
    return [spec, [qx(m) for m in M], ["pts3", list(shape)] + [[qx(a), qx(b), qx(c)] for a, b, c in pts], 0, bool(exact),
            rng.choice(["c", "f", "list"])]


def pts_sx(pts, shape):
    return ["pts", list(shape)] + [[qx(x), qx(y)] for x, y in pts]


# ------------------------------------------------------------------------------------------
# array layouts (python side only; the logical point list in C order is what Lean sees)
# ------------------------------------------------------------------------------------------

def factor_shapes(n):
    out = [(n,)]
    for a in range(2, int(n ** 0.5) + 1):
        if n % a == 0:
            out.append((a, n // a))
            b = n // a
            for c in range(2, int(b ** 0.5) + 1):
                if b % c == 0:
                    out.append((a, c, b // c))
                    break
    return out


def lay_out(xs, ys, layout, shape):
    """-> the two array arguments as python would receive them."""
    x = np.array(xs, dtype=float).reshape(shape)
    y = np.array(ys, dtype=float).reshape(shape)
    if layout == "c":
        return x, y
    if layout == "f":
        return np.asfortranarray(x), np.asfortranarray(y)
    if layout == "strided":
        bx = np.zeros(tuple(2 * s for s in shape))
        by = np.zeros(tuple(2 * s for s in shape))
        sl = tuple(slice(1, None, 2) for _ in shape)
        bx[sl], by[sl] = x, y
        return bx[sl], by[sl]
    if layout == "list":
        return x.tolist(), y.tolist()
    if layout == "int":
        return x.astype(np.int64), y.astype(np.int64)
    if layout == "readonly":
        x.setflags(write=False)
        y.setflags(write=False)
        return x, y
    raise ValueError(layout)


# ------------------------------------------------------------------------------------------
# families
# ------------------------------------------------------------------------------------------

class L0Poly(Family):
    """L0: matplotlib's Path.contains_points against the even-odd crossing model (exact inputs,
    boundary points included)."""
    name = "l0poly"
    batch = 200
    budget_share = 1.0

    def cases(self, tier, rng):
        n = 1000 if tier == "quick" else 6000
        grid = ["grid", -5, ["q", 1, 2], 21, -5, ["q", 1, 2], 21]
        for name in sorted(POLY_SHAPES):
            vs = [[qx(Fraction(x)), qx(Fraction(y))] for x, y in POLY_SHAPES[name]]
            yield [vs, grid]
        for _ in range(n):
            k = rng.randint(1, 9)
            vs = [[qx(Fraction(rng.randint(-8, 8), 2)), qx(Fraction(rng.randint(-8, 8), 2))] for _ in range(k)]
            if rng.random() < 0.3:
                vs.append(vs[0])
            yield [vs, grid]

    def run_impl(self, case):
        from matplotlib.path import Path
        vs, grid = case
        xs = [fl(grid[1]) + i * fl(grid[2]) for i in range(grid[3])]
        ys = [fl(grid[4]) + j * fl(grid[5]) for j in range(grid[6])]
        pts = np.array([(x, y) for y in ys for x in xs], dtype=float)
        verts = np.array([(fl(v[0]), fl(v[1])) for v in vs], dtype=float)
        return bits(Path(verts).contains_points(pts).astype(bool))

    def nontrivial(self, case, po):
        return "1" in po and "0" in po


class Contains(Family):
    """contains() of every class against Impl (outside the band, or everywhere when the double
    arithmetic is exact) and against the geometric Spec; all array layouts."""
    name = "contains"
    batch = 50
    budget_share = 3.0

    def one(self, rng, kind, mode, big=False):
        spec = GENS[kind](rng, mode)
        eps, feps = band_eps(spec)
        exact = exact_ok(spec, mode)
        eps = Fraction(0) if exact else eps
        pts = sample_points(spec, rng, mode, eps=feps,
                            n_grid=rng.choice([3, 5, 7]), n_bnd=rng.choice([6, 16]), n_rand=rng.choice([0, 8]),
                            specials=rng.random() < 0.7)
        if exact:
            # every point must be a small dyadic as well (the far / random float points are not)
            pts = [(x, y) for x, y in pts if (math.isnan(x) or math.isinf(x) or (abs(x) <= 4096 and float(x * 1024).is_integer()))
                   and (math.isnan(y) or math.isinf(y) or (abs(y) <= 4096 and float(y * 1024).is_integer()))] \
                if spec[0] not in ("range",) and not (spec[0] == "rect" and spec[6] == 0) else pts
        n = len(pts)
        shapes = factor_shapes(n)
        shape = rng.choice(shapes)
        layouts = ["c", "c", "f", "strided", "readonly"]
        if spec[0] != "range":
            layouts.append("list")
        if all(float(v).is_integer() and abs(v) < 2 ** 53 for p in pts for v in p if not (math.isnan(v) or math.isinf(v))) and \
                not any(math.isnan(v) or math.isinf(v) for p in pts for v in p):
            layouts.append("int")
        layout = rng.choice(layouts)
        return [spec, pts_sx(pts, shape), qx(eps), exact, layout]

    def cases(self, tier, rng):
        # undefined regions raise UndefinedROI
        for u in ("rect", "circle", "ellipse", "annulus", "annulus0", "range", "poly"):
            yield [["undef", u], pts_sx([(0.0, 0.0)], (1,)), 0, True, "c"]
        # exhaustive sweep: every rotation in the table x a few rectangles / ellipses, grid + boundary points
        rng2 = rng
        for c, s in ALL_ROTS:
            for k in (0,) if tier == "quick" else (0, 1, -2):
                for spec in (["rect", -2, 6, 1, 4, qx(c), qx(s), k], ["rect", qx(Fraction(-7, 8)), qx(Fraction(1, 8)), 0, 16, qx(c), qx(s), k],
                             ["ellipse", 1, -1, 4, 2, qx(c), qx(s), k], ["ellipse", 0, 0, qx(Fraction(1, 8)), 5, qx(c), qx(s), k]):
                    eps, feps = band_eps(spec)
                    exact = exact_ok(spec, "dy")
                    eps = Fraction(0) if exact else eps
                    pts = sample_points(spec, rng2, "dy", n_grid=7, n_bnd=16, eps=feps, specials=False)
                    if not exact:
                        pts += boundary_points(spec, 16, rng2, feps)
                    yield [spec, pts_sx(pts, (len(pts),)), qx(eps), exact, "c"]
        # scalar / 0-d / empty inputs
        for kind in ("rect", "circle", "ellipse", "annulus", "range", "poly"):
            spec = GENS[kind](rng, "dy")
            cx, cy, _ = roi_extent(spec)
            p = (float(math.floor(cx * 8) / 8), float(math.floor(cy * 8) / 8))
            yield [spec, pts_sx([p], ()), qx(band_eps(spec)[0]), False, "scalar"]
            yield [spec, pts_sx([p], ()), qx(band_eps(spec)[0]), False, "0d"]
            yield [spec, pts_sx([], (0,)), 0, False, "c"]
            yield [spec, pts_sx([], (2, 0)), 0, False, "c"]
        # broadcast views: x varies along the last axis, y along the first (np.broadcast_to, stride 0)
        nb = 120 if tier == "quick" else 1000
        for _ in range(nb):
            # points_inside_poly is the one code path that unbroadcasts its input: polygons get half the cases
            kind = rng.choice(sorted(GENS) + ["poly"] * 5)
            mode = rng.choice(["dy", "fl"])
            spec = GENS[kind](rng, mode)
            cx, cy, rad = roi_extent(spec)
            rad = max(rad, 0.5)
            nx, ny = rng.randint(1, 9), rng.randint(1, 9)
            x0 = Fraction(math.floor((cx - 1.2 * rad) * 4), 4)
            y0 = Fraction(math.floor((cy - 1.2 * rad) * 4), 4)
            dxs = Fraction(max(1, math.ceil(2.4 * rad * 4 / max(nx - 1, 1))), 4)
            dys = Fraction(max(1, math.ceil(2.4 * rad * 4 / max(ny - 1, 1))), 4)
            exact = exact_ok(spec, mode) and float(x0) == x0
            eps = Fraction(0) if exact else band_eps(spec)[0]
            g = ["grid", qx(x0), qx(dxs), nx, qx(y0), qx(dys), ny]
            if rng.random() < 0.4:
                # x and y both constant along a leading axis of length k (both stride 0 there)
                yield [spec, ["rep", rng.randint(1, 3), g], qx(eps), exact, "bcast3"]
            else:
                yield [spec, g, qx(eps), exact, rng.choice(["bcast", "bcast", "meshgrid", "bcast-x"])]
        # magnitude / offset ladder: exact lattice cases (boundary included) and arbitrary-double band cases
        for i, (c, s) in enumerate(ALL_ROTS):
            for k in (0,) if tier == "quick" else (0, 1, -2):
                for kind in ("rect", "ellipse"):
                    case = lad_contains_case(rng, kind, False, rot=[qx(c), qx(s), k])
                    if case is not None:
                        yield case
        nl = 800 if tier == "quick" else 8000
        for i in range(nl):
            case = lad_contains_case(rng, LAD_KINDS[i % len(LAD_KINDS)], exact=(i % 2 == 0))
            if case is not None:
                yield case
        # random regions of every class
        nr = 2600 if tier == "quick" else 27000
        for i in range(nr):
            kind = ("rect", "rect", "ellipse", "ellipse", "poly", "poly", "circle", "annulus", "range")[i % 9]
            mode = "dy" if rng.random() < 0.55 else "fl"
            yield self.one(rng, kind, mode)
        # large arrays (thorough): more than 10^6 distinct points in one call
        if tier == "thorough":
            for spec, n in ((["rect", 100, 900, 200, 700, 1, 0, 0], 1050), (["circle", 500, 500, 300], 1024), (["range", "y", 100, 300], 1100),
                            (["poly", [100, 100], [900, 200], [500, 300], [800, 900], [200, 800]], 420),
                            (["rect", 100, 900, 200, 700, ["q", 3, 5], ["q", 4, 5], 0], 400)):
                exact = exact_ok(spec, "dy")
                eps = Fraction(0) if exact else band_eps(spec)[0]
                yield [spec, ["grid", 0, 1, n, 0, 1, n], qx(eps), exact, "meshgrid"]

    def run_impl(self, case):
        spec, ptsd, _eps, _exact, layout = case
        roi = mk_roi(spec)
        if ptsd[0] == "rep":
            k, g = ptsd[1], ptsd[2]
            xs = np.array([fl(g[1]) + i * fl(g[2]) for i in range(g[3])])
            ys = np.array([fl(g[4]) + j * fl(g[5]) for j in range(g[6])])
            shape = (k, len(ys), len(xs))
            x = np.broadcast_to(xs[None, None, :], shape)
            y = np.broadcast_to(ys[None, :, None], shape)
        elif ptsd[0] == "grid":
            xs = np.array([fl(ptsd[1]) + i * fl(ptsd[2]) for i in range(ptsd[3])])
            ys = np.array([fl(ptsd[4]) + j * fl(ptsd[5]) for j in range(ptsd[6])])
            shape = (len(ys), len(xs))
            if layout == "bcast":
                x = np.broadcast_to(xs[None, :], shape)
                y = np.broadcast_to(ys[:, None], shape)
            elif layout == "bcast-x":
                x = np.broadcast_to(xs[None, :], shape)
                y = np.ascontiguousarray(np.broadcast_to(ys[:, None], shape))
            else:
                x, y = np.meshgrid(xs, ys)
        else:
            shape = tuple(ptsd[1])
            xs = [fl(p[0]) for p in ptsd[2:]]
            ys = [fl(p[1]) for p in ptsd[2:]]
            if layout == "scalar":
                x, y = xs[0], ys[0]
            elif layout == "0d":
                x, y = np.array(xs[0]), np.array(ys[0])
            else:
                x, y = lay_out(xs, ys, layout, shape)
        try:
            res = roi.contains(x, y)
        except UndefinedROI:
            return "undefined"
        return [list(np.shape(res)), bits(res)]

    def nontrivial(self, case, po):
        return isinstance(po, list) and "1" in po[1] and "0" in po[1]

    def signature(self, case, po, res):
        return {"class": case[0][0], "layout": case[4]}

    def shrink(self, case):
        spec, ptsd, eps, exact, layout = case
        if ptsd[0] == "pts" and len(ptsd) > 3:
            pts = ptsd[2:]
            h = len(pts) // 2
            for sub in (pts[:h], pts[h:]):
                yield [spec, ["pts", [len(sub)]] + sub, eps, exact, "c"]
            if len(pts) <= 16:
                for i in range(len(pts)):
                    sub = pts[:i] + pts[i + 1:]
                    yield [spec, ["pts", [len(sub)]] + sub, eps, exact, "c"]

    def describe(self, case):
        d = list(case)
        if isinstance(d[1], list) and len(d[1]) > 12:
            d[1] = d[1][:12] + ["…%d more" % (len(d[1]) - 12)]
        return d


class Ops(Family):
    """move_to / rotate_to / copy / save-restore sequences: containment must follow the rigid motion
    of the original region (Spec pulls every test point back), the reported centre is the target."""
    name = "ops"
    batch = 40
    budget_share = 3.0

    def gen_ops(self, rng, spec, n):
        kind = spec[0]
        ops = []
        for _ in range(n):
            c = rng.random()
            if c < 0.4:
                t = [qx(dy(rng, -16, 16)), qx(dy(rng, -16, 16))] if rng.random() < 0.6 else [qx(anyfloat(rng)), qx(anyfloat(rng))]
                ops.append(["move"] + t)
            elif c < 0.7 and kind in ("rect", "ellipse", "poly"):
                ops.append(["rot"] + pick_rot(rng))
            elif c < 0.8:
                ops.append("copy")
            elif c < 0.9:
                ops.append("rt")
            elif kind == "poly" and c < 0.96:
                ops.append(self.gen_forkedit(rng, spec))
            else:
                ops.append("fork")
        return ops

    @staticmethod
    def gen_forkedit(rng, spec):
        """copy, then add_point / replace_last_point / remove_point on one of the two polygon objects."""
        v0 = (frac(spec[1][0]), frac(spec[1][1]))
        return [rng.choice(sorted(FORK_EDITS)), qx(dy(rng, -8, 8, 2) + v0[0].__floor__()), qx(dy(rng, -8, 8, 2) + v0[1].__floor__())]

    def build(self, rng, kind, mode, nops):
        spec = GENS[kind](rng, mode)
        if kind == "poly" and len(spec) > 4 and mode == "dy":
            # exactly collinear polygons with > 3 vertices: float `area() == 0` is not robust (documented limit)
            pass
        ops = self.gen_ops(rng, spec, nops)
        return self.finish(rng, spec, ops, mode)

    def finish(self, rng, spec, ops, mode):
        # band and centre tolerance relative to the region's own size; the driver adds the rounding bound
        # 2^-44 * (#ops + 1) * (largest visited |centre| + size) * kappa^2 from the exact inputs
        scale = roi_size(spec)
        eps = scale * Fraction(1, 10 ** 6)
        # test points around every centre the region visits
        cx, cy, rad = roi_extent(spec)
        if spec[0] == "poly":
            try:
                c0 = mk_roi(spec).center()
                cx, cy = float(c0[0]), float(c0[1])
                rad = 2 * rad
            except Exception:
                pass
        rad = max(rad, 1e-3)
        centres = [(cx, cy)]
        for o in ops:
            if isinstance(o, list) and o[0] == "move":
                if spec[0] == "range":
                    centres.append((fl(o[1]), fl(o[1])) if spec[1] == "x" else (fl(o[2]), fl(o[2])))
                else:
                    centres.append((fl(o[1]), fl(o[2])))
        fcx, fcy = centres[-1]
        pts = []
        m = rng.choice([4, 6])
        for j in range(m):
            for i in range(m):
                pts.append((fcx + (2 * i / (m - 1) - 1) * 1.3 * rad, fcy + (2 * j / (m - 1) - 1) * 1.3 * rad))
        for _ in range(12):
            pts.append((fcx + rng.uniform(-1.3, 1.3) * rad, fcy + rng.uniform(-1.3, 1.3) * rad))
        for ccx, ccy in centres[:-1]:
            pts.append((ccx, ccy))
            pts.append((ccx + 0.3 * rad, ccy - 0.2 * rad))
        pts.append((fcx, fcy))
        if mode == "dy":
            pts = [(math.floor(x * 16) / 16, math.floor(y * 16) / 16) for x, y in pts]
        return [spec, ops, pts_sx(pts, (len(pts),)), qx(eps), qx(scale * Fraction(1, 10 ** 9))]

    # ---- round 3: redefinition of the region OBJECT (reset / update_limits / set_range / add_point ...) ----
    def gen_transform(self, rng, kind, rots=None):
        if kind in ("rect", "ellipse", "poly") and rng.random() < 0.6:
            if rots is not None:
                c, s_ = rng.choice(rots)
                return ["rot", qx(c), qx(s_), rng.choice([0, 0, 1, -1])]
            return ["rot"] + pick_rot(rng, rng.choice(["q", "p", "p", "t"]))
        return ["move", qx(dy(rng, -16, 16)), qx(dy(rng, -16, 16))]

    def gen_define(self, rng, kind, mode, spec):
        new = GENS[kind](rng, mode if kind != "poly" else "dy")
        if kind == "range":
            new[1] = spec[1]
        if kind == "rect":
            # non-degenerate, limits possibly given in the wrong order (update_limits sorts them)
            if rng.random() < 0.3:
                new[1], new[2] = new[2], new[1]
            if rng.random() < 0.3:
                new[3], new[4] = new[4], new[3]
        if kind in ("rect", "ellipse"):
            new[-3:] = [1, 0, 0]
        return ["def", rng.choice([1, 1, 1, 0]) if kind != "poly" else 1, new]

    def gen_edit(self, rng, spec, ops):
        """add_point / replace_last_point / remove_point on the polygon the exact mirror predicts."""
        cur = final_spec(spec, ops)
        vs = [(frac(v[0]), frac(v[1])) for v in cur[1:]]
        c = rng.random()
        if c < 0.4 or len(vs) < 4:
            return ["add", qx(dy(rng, -8, 8, 2) + vs[0][0].__floor__()), qx(dy(rng, -8, 8, 2) + vs[0][1].__floor__())]
        if c < 0.65:
            return ["repl", qx(dy(rng, -8, 8, 2) + vs[0][0].__floor__()), qx(dy(rng, -8, 8, 2) + vs[0][1].__floor__())]
        # reference point = a current vertex that is clearly the nearest one (others differ by > size/64,
        # or are exact duplicates, in which case the first one goes in python and in the model alike)
        i = rng.randrange(len(vs))
        size = roi_size(cur)
        x, y = float(vs[i][0]), float(vs[i][1])
        for j, v in enumerate(vs):
            d2 = (v[0] - Fraction(x)) ** 2 + (v[1] - Fraction(y)) ** 2
            if v != vs[i] and d2 < (size / 64) ** 2:
                return ["add", qx(vs[0][0] + 1), qx(vs[0][1] - 2)]
        if any(v == vs[i] for v in vs[:i] + vs[i + 1:]) and any(isinstance(o, list) and o[0] == "rot" for o in ops):
            return ["add", qx(vs[0][0] + 1), qx(vs[0][1] - 2)]
        return ["rem", qx(x), qx(y)]

    def finish_redef(self, rng, spec, ops, mode):
        """test points on the region the exact mirror of the prescribed semantics predicts (placement only)."""
        fin = final_spec(spec, ops)
        sizes = [roi_size(spec), roi_size(fin)] + [roi_size(o[2]) for o in ops if isinstance(o, list) and o[0] == "def"]
        scale = max(sizes)
        eps = scale * Fraction(1, 10 ** 6)
        fmode = "fl"
        pts = sample_points(fin, rng, fmode, n_grid=5, n_bnd=14, n_rand=12, eps=max(float(eps), 1e-12), specials=False)
        if fin[0] == "poly":
            fc = poly_center_frac([(frac(v[0]), frac(v[1])) for v in fin[1:]])
            _, _, rad = roi_extent(fin)
            for _ in range(16):
                pts.append((float(fc[0]) + rng.uniform(-1.2, 1.2) * rad, float(fc[1]) + rng.uniform(-1.2, 1.2) * rad))
        # where the object used to be (before the redefinition)
        cx, cy, rad = roi_extent(spec)
        pts += [(cx, cy), (cx + 0.3 * rad, cy - 0.2 * rad)]
        if mode == "dy":
            pts = pts + [(math.floor(x * 16) / 16, math.floor(y * 16) / 16) for x, y in pts[:20]]
        return [spec, ops, pts_sx(pts, (len(pts),)), qx(eps), qx(scale * Fraction(1, 10 ** 9))]

    def redef_core(self, rng, tier):
        """exhaustive short core: transform -> reset -> define -> transform -> contains, per class."""
        rots = [(Fraction(0), Fraction(1)), (Fraction(3, 5), Fraction(4, 5)), (Fraction(-1), Fraction(0)),
                (Fraction(5, 13), Fraction(-12, 13))]
        firsts = {"rect": ["rect", -2, 6, 1, 4, 1, 0, 0], "ellipse": ["ellipse", 1, -1, 4, 2, 1, 0, 0],
                  "poly": ["poly", [0, 0], [4, 0], [0, 3]], "circle": ["circle", 1, 2, 3], "annulus": ["annulus", 1, 2, 1, 3],
                  "range": ["range", "x", -1, 3]}
        seconds = {"rect": ["rect", 16, 10, 10, 12, 1, 0, 0], "ellipse": ["ellipse", 13, 11, 3, 1, 1, 0, 0],
                   "poly": ["poly", [10, 10], [16, 10], [16, 12], [10, 12]], "circle": ["circle", 13, 11, 2],
                   "annulus": ["annulus", 13, 11, 2, 4], "range": ["range", "x", 10, 16]}
        for kind in ("poly", "rect", "ellipse", "circle", "annulus", "range"):
            pre = [[["move", 5, -3]]]
            post = [[], [["move", -7, 2]]]
            if kind in ("rect", "ellipse", "poly"):
                pre = [[["rot", qx(c), qx(s_), 0]] for c, s_ in rots] + pre + [[["move", 5, -3], ["rot", 0, 1, 1]]]
                post = [[["rot", qx(c), qx(s_), 0]] for c, s_ in rots] + post + [[["rot", 0, 1, 0], ["move", 2, 2]]]
            for a in pre:
                for b in post:
                    for via in ((1,) if kind == "poly" else (1, 0)):
                        yield self.finish_redef(rng, firsts[kind], a + [["def", via, seconds[kind]]] + b, "dy")
        # polygon vertex edits between two rotations (the angle bookkeeping survives an edit, not a reset)
        tri = firsts["poly"]
        for c, s_ in rots:
            r1 = ["rot", qx(c), qx(s_), 0]
            for ed in (["add", 5, 5], ["repl", -2, 4], ["rem", 0, 0]):
                for c2, s2 in rots[:2]:
                    base = tri if ed[0] != "rem" else ["poly", [0, 0], [6, 0], [6, 6], [3, 2], [0, 6]]
                    if ed[0] == "rem":
                        continue
                    yield self.finish_redef(rng, base, [r1, ed, ["rot", qx(c2), qx(s2), 0]], "dy")
            yield self.finish_redef(rng, ["poly", [0, 0], [6, 0], [6, 6], [3, 2], [0, 6]],
                                    [["rem", 3, 2], r1, ["add", 3, 1], ["rot", 1, 0, 0]], "dy")

    def redef_random(self, rng, kind, mode):
        spec = GENS[kind](rng, mode)
        if kind == "poly" and len(spec) < 4:
            spec = ["poly", [0, 0], [4, 0], [0, 3]]
        ops = []
        for _ in range(rng.randint(0, 2)):
            ops.append(self.gen_transform(rng, kind))
        n_red = rng.choice([1, 1, 2])
        for _ in range(n_red):
            if kind == "poly" and rng.random() < 0.45:
                for _ in range(rng.randint(1, 2)):
                    ops.append(self.gen_edit(rng, spec, ops))
            else:
                ops.append(self.gen_define(rng, kind, mode, spec))
                if kind == "poly" and rng.random() < 0.3:
                    ops.append(self.gen_edit(rng, spec, ops))
            for _ in range(rng.randint(0, 2)):
                c = rng.random()
                if kind == "poly" and c >= 0.9:
                    ops.append(self.gen_forkedit(rng, spec))
                else:
                    ops.append(self.gen_transform(rng, kind) if c < 0.8 else rng.choice(["copy", "rt", "fork"]))
        return self.finish_redef(rng, spec, ops, mode)

    def fork_core(self, rng):
        """exhaustive short core for F24: (transform) -> copy + vertex edit of the other object -> (transform /
        second fork / own edit) -> contains; every edit, both directions."""
        tri = ["poly", [0, 0], [4, 0], [0, 3]]
        pent = ["poly", [0, 0], [6, 0], [6, 6], [3, 2], [0, 6]]
        pres = [[], [["rot", ["q", 3, 5], ["q", 4, 5], 0]], [["move", 5, -3]], ["rt"], [["add", 5, 5]]]
        posts = [[], [["rot", 0, 1, 0]], [["move", -7, 2]], [["add", 2, 7]], [["repl", -2, 4]], ["copy"], ["fork"]]
        for base in (tri, pent):
            for name in sorted(FORK_EDITS):
                xy = [3, 2] if FORK_EDITS[name][1] == "rem" and base is pent else ([0, 3] if FORK_EDITS[name][1] == "rem" else [9, 9])
                for a in pres:
                    for b in posts:
                        yield self.finish_redef(rng, base, a + [[name] + xy] + b, "dy")
            # two forks in a row, in both directions (the copy of a copy, the original edited twice)
            for n1, n2 in (("forkadd", "forkrepl"), ("cadd", "forkadd"), ("forkrepl", "crepl"), ("crem", "cadd")):
                yield self.finish_redef(rng, base, [[n1, 9, 9], [n2, -3, 5], ["move", 1, 1]], "dy")

    def cases(self, tier, rng):
        yield from self.redef_core(rng, tier)
        yield from self.fork_core(rng)
        kinds3 = ("poly", "rect", "ellipse", "poly", "circle", "annulus", "range", "poly", "rect")
        for i in range(450 if tier == "quick" else 5000):
            yield self.redef_random(rng, kinds3[i % len(kinds3)], "dy" if rng.random() < 0.6 else "fl")
        # F16 / F17 regression shapes first: closed polygons moved twice, half-turn rotations
        sq = ["poly", [0, 0], [4, 0], [4, 4], [0, 4], [0, 0]]
        tri = ["poly", [0, 0], [2, 0], [0, 1]]
        yield self.finish(rng, sq, [["move", 5, 5], ["move", -3, 2]], "dy")
        yield self.finish(rng, sq, ["rt", ["move", 5, 5]], "dy")
        yield self.finish(rng, tri, [["rot", -1, 0, 0]], "dy")
        yield self.finish(rng, tri, [["rot", 0, 1, 0], ["rot", 0, -1, 0]], "dy")
        # every rotation of the table applied to one rectangle, one ellipse, two polygons, followed by a move
        for c, s in ALL_ROTS:
            for spec in (["rect", -2, 6, 1, 4, 1, 0, 0], ["ellipse", 1, -1, 4, 2, ["q", 3, 5], ["q", 4, 5], 0],
                         ["poly", [0, 0], [6, 0], [6, 6], [3, 2], [0, 6]], ["poly", [0, 0], [4, 0], [4, 4], [0, 4], [0, 0]]):
                yield self.finish(rng, spec, [["rot", qx(c), qx(s), 0]], "dy")
                if tier == "thorough":
                    yield self.finish(rng, spec, [["move", 3, -2], ["rot", qx(c), qx(s), 1], ["move", 0, 0]], "dy")
        # magnitude / offset ladder
        for i, (c, s) in enumerate(ALL_ROTS):
            for kind in ("poly", ("rect", "ellipse")[i % 2]) if tier == "quick" else ("poly", "rect", "ellipse", "poly"):
                case = lad_ops_case(rng, kind, first=[["rot", qx(c), qx(s), 0]])
                if case is not None:
                    yield case
        # small turns (2 atan 2^-k, both directions) away from every quarter turn, region near the origin
        # relative to its size (tight rounding bound): a rotate_to that is skipped, or a branch that is taken,
        # for an angle below an absolute threshold moves the boundary by angle * size
        for m in range(4):
            for k in (8, 16, 24, 28, 30, 32, 34, 40, 50):
                for sg in (1, -1):
                    t = Fraction(1, 2 ** k)
                    c, s = turn(((1 - t * t) / (1 + t * t), sg * 2 * t / (1 + t * t)), m)
                    qc, qs = turn((Fraction(1), Fraction(0)), m)
                    first = ([["rot", qx(qc), qx(qs), 0]] if m else []) + [["rot", qx(c), qx(s), 0]]
                    for kind in ("poly",) if tier == "quick" else ("poly", "rect", "ellipse", "poly"):
                        case = lad_ops_case(rng, kind, first=first, ratio=4, n_bnd=40)
                        if case is not None:
                            yield case
        for i in range(400 if tier == "quick" else 4500):
            case = lad_ops_case(rng, LAD_KINDS[i % len(LAD_KINDS)])
            if case is not None:
                yield case
        n = 1700 if tier == "quick" else 18000
        kinds = ("rect", "ellipse", "poly", "poly", "rect", "circle", "annulus", "range", "poly")
        for i in range(n):
            kind = kinds[i % len(kinds)]
            mode = "dy" if rng.random() < 0.6 else "fl"
            yield self.build(rng, kind, mode, rng.randint(0, 4))

    @staticmethod
    def roundtrip(roi):
        from glue.core.state import GlueSerializer, GlueUnSerializer
        return GlueUnSerializer.loads(GlueSerializer(roi).dumps()).object("__main__")

    def run_impl(self, case):
        spec, ops, ptsd, _eps, _tol = case
        roi = mk_roi(spec)
        keep = [roi]
        isrange = spec[0] == "range"
        for o in ops:
            if o == "copy":
                roi = roi.copy()
            elif o == "rt":
                roi = self.roundtrip(roi)
            elif o == "fork":
                c = roi.copy()
                # mutate the original afterwards: the copy must not follow
                if isrange:
                    roi.move_to(12345.0)
                else:
                    roi.move_to(12345.0, -777.0)
                    if spec[0] in ("rect", "ellipse", "poly"):
                        roi.rotate_to(1.0)
                roi = c
            elif o[0] == "def":
                bad = self.redefine(roi, spec[0], o[1], o[2])
                if bad is not None:
                    return bad
            elif o[0] == "add":
                roi.add_point(fl(o[1]), fl(o[2]))
            elif o[0] == "repl":
                roi.replace_last_point(fl(o[1]), fl(o[2]))
            elif o[0] == "rem":
                roi.remove_point(fl(o[1]), fl(o[2]))
            elif o[0] in FORK_EDITS:
                who, what = FORK_EDITS[o[0]]
                c = roi.copy()
                if type(c) is not type(roi):
                    return "copy-changes-class"
                other, seen = (roi, c) if who == "orig" else (c, roi)
                if spec[0] == "poly":
                    # in-place edit of ONE object: the other one must not follow
                    n0 = len(other.vx)
                    if what == "add":
                        other.add_point(fl(o[1]), fl(o[2]))
                    elif what == "repl":
                        other.replace_last_point(fl(o[1]), fl(o[2]))
                    else:
                        other.remove_point(fl(o[1]), fl(o[2]))
                    # the edit itself must have happened on the edited object
                    if len(other.vx) != n0 + {"add": 1, "repl": 0, "rem": -1 if n0 else 0}[what] or len(other.vx) != len(other.vy):
                        return "fork-edit-not-applied"
                    keep.append(other)
                roi = seen
            elif o[0] == "move":
                if isrange:
                    roi.move_to(fl(o[1]) if spec[1] == "x" else fl(o[2]))
                else:
                    roi.move_to(fl(o[1]), fl(o[2]))
            elif o[0] == "rot":
                roi.rotate_to(theta_of(frac(o[1]), frac(o[2]), o[3]))
            keep.append(roi)
        xs = np.array([fl(p[0]) for p in ptsd[2:]])
        ys = np.array([fl(p[1]) for p in ptsd[2:]])
        res = roi.contains(xs, ys)
        c = roi.center()
        if isrange:
            c = (c, c)
        return [bits(res), [qx(float(c[0])), qx(float(c[1]))]]

    @staticmethod
    def redefine(roi, kind, via, new):
        """reset() (when `via`) and define the region again through the class's own definers; returns an
        atom if the reset object still claims to be defined / answers contains()."""
        if via:
            roi.reset()
            if roi.defined():
                return "defined-after-reset"
            try:
                roi.contains(np.array([0.0]), np.array([0.0]))
                return "contains-after-reset"
            except UndefinedROI:
                pass
        if kind == "rect":
            # update_limits(xmin, ymin, xmax, ymax)
            roi.update_limits(fl(new[1]), fl(new[3]), fl(new[2]), fl(new[4]))
        elif kind == "circle":
            roi.move_to(fl(new[1]), fl(new[2]))
            roi.set_radius(fl(new[3]))
        elif kind == "ellipse":
            roi.move_to(fl(new[1]), fl(new[2]))
            roi.radius_x = fl(new[3])
            roi.radius_y = fl(new[4])
        elif kind == "annulus":
            roi.move_to(fl(new[1]), fl(new[2]))
            roi.inner_radius = fl(new[3])
            roi.outer_radius = fl(new[4])
        elif kind == "range":
            roi.set_range(fl(new[2]), fl(new[3]))
        elif kind == "poly":
            vs = new[1:]
            for i, v in enumerate(vs):
                if i % 3 == 2:
                    # the way MplPolygonalROI scrubs: a provisional vertex, then replace_last_point
                    roi.add_point(fl(v[0]) + 1.5, fl(v[1]) - 0.5)
                    roi.replace_last_point(fl(v[0]), fl(v[1]))
                else:
                    roi.add_point(fl(v[0]), fl(v[1]))
        if not roi.defined():
            return "undefined-after-definition"
        return None

    def nontrivial(self, case, po):
        return isinstance(po, list) and "1" in po[0] and "0" in po[0] and len(case[1]) > 0

    def signature(self, case, po, res):
        ops = case[1]
        kinds = sorted(set(o if isinstance(o, str) else o[0] for o in ops))
        closed = case[0][0] == "poly" and len(case[0]) > 2 and case[0][1] == case[0][-1]
        half = any(isinstance(o, list) and o[0] == "rot" and o[1] == -1 and o[2] == 0 for o in ops)
        sig = {"class": case[0][0], "ops": "+".join(kinds), "closed-polygon": closed, "half-turn": half,
               "copy-then-edit-original": case[0][0] == "poly" and any(k in FORK_EDITS for k in kinds)}
        if case[0][0] == "poly" and len(case[0]) > 4:
            # a polygon whose signed area is exactly zero (bow-tie, collinear vertices) that is turned and moved afterwards
            vs = [(frac(v[0]), frac(v[1])) for v in case[0][1:]]
            a2 = sum(a[0] * b[1] - a[1] * b[0] for a, b in zip(vs, vs[1:] + vs[:1]))
            rots = [i for i, o in enumerate(ops) if isinstance(o, list) and o[0] == "rot" and not (o[1] == 1 and o[2] == 0)]
            moves = [i for i, o in enumerate(ops) if isinstance(o, list) and o[0] == "move"]
            sig["zero-area"] = (a2 == 0)
            sig["rot-then-move"] = bool(rots and moves and rots[0] < moves[-1])
        return sig

    def shrink(self, case):
        spec, ops, ptsd, eps, tol = case
        for i in range(len(ops)):
            yield [spec, ops[:i] + ops[i + 1:], ptsd, eps, tol]
        pts = ptsd[2:]
        if len(pts) > 1:
            h = len(pts) // 2
            for sub in (pts[:h], pts[h:]):
                yield [spec, ops, ["pts", [len(sub)]] + sub, eps, tol]

    def describe(self, case):
        d = list(case)
        if len(d[2]) > 10:
            d[2] = d[2][:10] + ["…%d more" % (len(d[2]) - 10)]
        return d


MATS = {
    "identity": [1, 0, 0, 0, 0, 1, 0, 0, 0, 0, 1, 0, 0, 0, 0, 1],
    "yxz": [0, 1, 0, 0, 0, 0, 1, 0, 1, 0, 0, 0, 0, 0, 0, 1],
    "affine": [Fraction(1, 2), Fraction(-1, 4), 0, 3, Fraction(1, 4), 1, Fraction(1, 2), -2, 0, 0, 1, 0, 0, 0, 0, 1],
    "scale-w2": [1, 0, 0, 0, 0, 1, 0, 0, 0, 0, 1, 0, 0, 0, 0, 2],
    "perspective": [1, 0, 0, 0, 0, 1, 0, 0, 0, 0, 1, 0, 0, 0, Fraction(1, 4), 1],
    "perspective2": [2, 0, 1, 0, 0, 2, 1, 0, 0, 0, 1, 1, Fraction(1, 8), 0, Fraction(-1, 2), 3],
}


def solve4(M, rhs):
    """exact solution of the 4x4 system (Fractions); None if singular."""
    A = [[Fraction(M[4 * i + j]) for j in range(4)] + [Fraction(rhs[i])] for i in range(4)]
    for col in range(4):
        piv = next((r for r in range(col, 4) if A[r][col] != 0), None)
        if piv is None:
            return None
        A[col], A[piv] = A[piv], A[col]
        pv = A[col][col]
        A[col] = [x / pv for x in A[col]]
        for r in range(4):
            if r != col and A[r][col] != 0:
                f = A[r][col]
                A[r] = [x - f * y for x, y in zip(A[r], A[col])]
    return [A[i][4] for i in range(4)]


def preimage(M, sx, sy, zz):
    """a 3-d point (multiples of 1/8) that the projection sends close to the screen point (sx, sy)."""
    v = solve4(M, [sx, sy, zz, 1])
    if v is None or v[3] == 0:
        return None
    return [float(Fraction(math.floor(v[i] / v[3] * 8), 8)) for i in range(3)]


class Proj(Family):
    """Projected3dROI.contains3d: matrix x homogeneous point, divide, 2-d test; chunk loop."""
    name = "proj"
    batch = 20
    budget_share = 1.5

    def cases(self, tier, rng):
        yield [["undef", "rect"], [qx(Fraction(m)) for m in MATS["identity"]], ["pts3", [1], [0, 0, 0]], 0, True, "c"]
        # one call with more than 10^6 points also in the quick tier (cheapest region: a range)
        yield [["range", "x", 100, 300], [qx(Fraction(m)) for m in MATS["scale-w2"]], ["grid3", 0, 1, 1001, 0, 1, 1001, 0, 1, 1], 0, True, "bcast"]
        n = 600 if tier == "quick" else 4000
        for i in range(n):
            kind = rng.choice(["rect", "circle", "ellipse", "poly", "range", "annulus"])
            spec = GENS[kind](rng, "dy")
            mname = rng.choice(sorted(MATS))
            M = [Fraction(m) for m in MATS[mname]]
            if rng.random() < 0.3:
                M = [Fraction(rng.randint(-8, 8), 4) for _ in range(12)] + [0, 0, rng.choice([0, 0, Fraction(1, 8)]), rng.choice([1, 2, 4])]
            cx, cy, rad = roi_extent(spec)
            rad = max(rad, 1.0)
            npts = rng.choice([1, 6, 24, 60])
            pts = []
            for _ in range(npts):
                sxy = (Fraction(math.floor((cx + rng.uniform(-1.5, 1.5) * rad) * 8), 8),
                       Fraction(math.floor((cy + rng.uniform(-1.5, 1.5) * rad) * 8), 8))
                q = preimage(M, sxy[0], sxy[1], Fraction(rng.randint(-16, 16), 8))
                if q is None or max(abs(t) for t in q) > 4096:
                    q = [float(sxy[0]), float(sxy[1]), float(Fraction(rng.randint(-64, 64), 8))]
                pts.append(q)
            if rng.random() < 0.3:
                pts.append([float("nan"), 1.0, 1.0])
                pts.append([1.0, float("inf"), 1.0])
                pts.append([1.0, 1.0, float("-inf")])
            affine = M[12:] == [0, 0, 0, 1] or M[12:] == [0, 0, 0, 2] or M[12:] == [0, 0, 0, 4]
            exact = exact_ok(spec, "dy") and affine
            eps = Fraction(0) if exact else band_eps(spec)[0]
            shape = rng.choice(factor_shapes(len(pts)))
            yield [spec, [qx(m) for m in M], ["pts3", list(shape)] + [[qx(a), qx(b), qx(c)] for a, b, c in pts], qx(eps), exact,
                   rng.choice(["c", "f", "list"])]
        # magnitude / offset ladder
        for i in range(200 if tier == "quick" else 1600):
            case = lad_proj_case(rng, exact=(i % 2 == 0))
            if case is not None:
                yield case
        # grids as broadcast views, 3-d
        for i in range(20 if tier == "quick" else 200):
            spec = GENS[rng.choice(["rect", "circle", "poly"])](rng, "dy")
            M = [Fraction(m) for m in MATS[rng.choice(["identity", "yxz", "affine", "perspective"])]]
            nx, ny, nz = rng.randint(1, 6), rng.randint(1, 6), rng.randint(1, 4)
            cx, cy, rad = roi_extent(spec)
            g = ["grid3", qx(Fraction(math.floor(cx - rad - 1))), qx(Fraction(max(1, math.ceil(2 * rad + 2)), max(nx - 1, 1) * 2) * 2), nx,
                 qx(Fraction(math.floor(cy - rad - 1))), qx(Fraction(max(1, math.ceil(2 * rad + 2)), max(ny - 1, 1) * 2) * 2), ny, -1, 1, nz]
            yield [spec, [qx(m) for m in M], g, qx(band_eps(spec)[0]), False, rng.choice(["bcast", "c"])]
        if tier == "thorough":
            # > 10^6 points: iterate_chunks(n_max=10**6) needs several chunks
            for spec, M, dims in ((["circle", 500, 500, 300], "identity", (110, 100, 100)),
                                  (["rect", 100, 900, 200, 700, 1, 0, 0], "yxz", (3, 700, 500)),
                                  (["range", "x", 100, 300], "scale-w2", (1001, 1001, 1))):
                nx, ny, nz = dims
                g = ["grid3", 0, max(1, 1000 // nx), nx, 0, max(1, 1000 // ny), ny, 0, max(1, 1000 // nz), nz]
                yield [spec, [qx(Fraction(m)) for m in MATS[M]], g, 0, True, "bcast" if M != "yxz" else "c"]

    def run_impl(self, case):
        spec, M, ptsd, _eps, _exact, layout = case
        roi2 = mk_roi(spec)
        mat = np.array([fl(m) for m in M], dtype=float).reshape(4, 4)
        roi = R.Projected3dROI(roi_2d=roi2, projection_matrix=mat)
        if ptsd[0] == "grid3":
            xs = np.array([fl(ptsd[1]) + i * fl(ptsd[2]) for i in range(ptsd[3])])
            ys = np.array([fl(ptsd[4]) + i * fl(ptsd[5]) for i in range(ptsd[6])])
            zs = np.array([fl(ptsd[7]) + i * fl(ptsd[8]) for i in range(ptsd[9])])
            shape = (len(zs), len(ys), len(xs))
            x = np.broadcast_to(xs[None, None, :], shape)
            y = np.broadcast_to(ys[None, :, None], shape)
            z = np.broadcast_to(zs[:, None, None], shape)
            if layout != "bcast":
                x, y, z = np.ascontiguousarray(x), np.ascontiguousarray(y), np.ascontiguousarray(z)
        else:
            shape = tuple(ptsd[1])
            cols = [np.array([fl(p[i]) for p in ptsd[2:]], dtype=float).reshape(shape) for i in range(3)]
            if layout == "f":
                cols = [np.asfortranarray(c) for c in cols]
            elif layout == "list":
                cols = [c.tolist() for c in cols]
            x, y, z = cols
        try:
            res = roi.contains3d(x, y, z)
        except UndefinedROI:
            return "undefined"
        if np.size(res) <= 4096:
            # F24: a copy owns its 2-d region and its matrix - moving / turning the original afterwards
            # (Projected3dROI forwards move_to / rotate_to to roi_2d) or editing its matrix in place must not reach it
            obs = roi.copy()
            if type(obs) is not type(roi) or type(obs.roi_2d) is not type(roi2):
                return "copy-changes-class"
            if spec[0] == "range":
                roi2.move_to(12345.0)
            else:
                roi.move_to(12345.0, -777.0)
                if spec[0] in ("rect", "ellipse", "poly"):
                    roi.rotate_to(1.0)
                if spec[0] == "poly":
                    roi2.add_point(-4321.0, 99.0)
            roi.projection_matrix[:, 3] += 1000.0
            if bits(obs.contains3d(x, y, z)) != bits(res):
                return "copy-follows-original"
        return [list(np.shape(res)), bits(res)]

    def nontrivial(self, case, po):
        return isinstance(po, list) and "1" in po[1] and "0" in po[1]

    def signature(self, case, po, res):
        return {"class": case[0][0]}

    def describe(self, case):
        d = list(case)
        if len(d[2]) > 10:
            d[2] = d[2][:10] + ["…%d more" % (len(d[2]) - 10)]
        return d


class Disc(Family):
    """Discretisation clause (numerical; no theorem — needs real trigonometry): the polygon returned by
    to_polygon() has its vertices on the boundary, contains every point of the region scaled by
    cos(pi/99) and nothing outside the region (off the band)."""
    name = "disc"
    batch = 6
    budget_share = 1.2

    def ladder(self, rng, kind):
        iso = kind in ("circle", "annulus")
        frame = lad_frame(rng, False, iso=iso, max_aspect=10)
        spec, _ = lad_region(rng, kind, frame, False)
        if not spec_rep(spec):
            return None
        if kind == "annulus" and fl(spec[3]) > 0.98 * fl(spec[4]):
            return None
        cx, cy, Sx, Sy = [float(v) for v in frame]
        pts = []
        for _ in range(40):
            a = rng.uniform(0, 2 * math.pi)
            f = rng.choice([0, 0.3, 0.9, 0.99, 0.9993, 0.9996, 1.0, 1.0007, 1.01, 1.5])
            if kind == "ellipse":
                rx, ry = fl(spec[3]), fl(spec[4])
                c, s = float(frac(spec[5])), float(frac(spec[6]))
                u, v = f * rx * math.cos(a), f * ry * math.sin(a)
                pts.append((cx + c * u - s * v, cy + s * u + c * v))
            elif kind == "annulus":
                r = fl(spec[3]) if rng.random() < 0.5 else fl(spec[4])
                pts.append((cx + f * r * math.cos(a), cy + f * r * math.sin(a)))
            elif kind == "circle":
                pts.append((cx + f * fl(spec[3]) * math.cos(a), cy + f * fl(spec[3]) * math.sin(a)))
            else:
                pts.append((cx + rng.uniform(-1.2, 1.2) * max(Sx, Sy), cy + rng.uniform(-1.2, 1.2) * max(Sx, Sy)))
        return [spec, pts_sx(pts, (len(pts),)), 0]

    def cases(self, tier, rng):
        for i in range(50 if tier == "quick" else 400):
            case = self.ladder(rng, ("circle", "ellipse", "annulus", "rect", "ellipse")[i % 5])
            if case is not None:
                yield case
        n = 60 if tier == "quick" else 450
        for i in range(n):
            kind = ("circle", "ellipse", "annulus", "rect", "ellipse")[i % 5]
            mode = "dy" if rng.random() < 0.5 else "fl"
            spec = GENS[kind](rng, mode)
            if kind == "annulus" and fl(spec[3]) > 0.98 * fl(spec[4]):
                spec[4] = qx(fl(spec[3]) * 1.5)
            cx, cy, rad = roi_extent(spec)
            if rad <= 0:
                continue
            pts = []
            for _ in range(40):
                a = rng.uniform(0, 2 * math.pi)
                f = rng.choice([0, 0.3, 0.9, 0.99, 0.9993, 0.9996, 1.0, 1.0007, 1.01, 1.5])
                if kind == "ellipse":
                    rx, ry = fl(spec[3]), fl(spec[4])
                    c, s = float(frac(spec[5])), float(frac(spec[6]))
                    u, v = f * rx * math.cos(a), f * ry * math.sin(a)
                    pts.append((cx + c * u - s * v, cy + s * u + c * v))
                elif kind == "annulus":
                    r = fl(spec[3]) if rng.random() < 0.5 else fl(spec[4])
                    pts.append((cx + f * r * math.cos(a), cy + f * r * math.sin(a)))
                else:
                    pts.append((cx + f * rad * math.cos(a), cy + f * rad * math.sin(a)))
            yield [spec, pts_sx(pts, (len(pts),)), qx(band_eps(spec)[0])]

    def run_impl(self, case):
        spec, ptsd, _eps = case
        roi = mk_roi(spec)
        vx, vy = roi.to_polygon()
        verts = [[qx(float(a)), qx(float(b))] for a, b in zip(vx, vy)]
        pg = R.PolygonalROI(vx, vy)
        xs = np.array([fl(p[0]) for p in ptsd[2:]])
        ys = np.array([fl(p[1]) for p in ptsd[2:]])
        return [verts, bits(pg.contains(xs, ys))]

    def nontrivial(self, case, po):
        return isinstance(po, list) and "1" in po[1] and "0" in po[1]

    def signature(self, case, po, res):
        return {"class": case[0][0]}

    def describe(self, case):
        return [case[0], "…points", case[2]]


class Cat(Family):
    name = "cat"
    exhaustive = True
    budget_share = 0.2

    def cases(self, tier, rng):
        L = 4 if tier == "quick" else 5
        xs = list(range(-1, 6))
        yield [[], xs]
        for n in range(1, L + 1):
            for cats in itertools.product(range(0, 5), repeat=n):
                yield [list(cats), xs]

    def run_impl(self, case):
        cats, xs = case
        # category labels are strings in glue; integers are mapped to one-letter labels (order-preserving)
        lab = lambda i: chr(ord("b") + i)  # noqa: E731
        roi = R.CategoricalROI([lab(c) for c in cats]) if cats else R.CategoricalROI()
        roi2 = Ops.roundtrip(roi) if cats else roi
        x = np.array([lab(i) for i in xs])
        a, b = roi.contains(x, None), roi2.copy().contains(x, None)
        if bits(a) != bits(b):
            return "copy-or-restore-differs"
        if cats:
            # F24: the copy owns its array of categories
            c = roi.copy()
            roi.categories[0] = "~"
            if bits(c.contains(x, None)) != bits(a):
                return "copy-follows-original"
        return bits(a)

    def nontrivial(self, case, po):
        return "1" in po and "0" in po


THEOREMS = [
    "C08.rect_branches_agree",
    "C08.bbox_contains_rotated_rect",
    "C08.ellipse_branches_agree",
    "C08.ellipse_branches_agree_full",
    "C08.ellipse_bounds_contain",
    "C08.circle_spec",
    "C08.annulus_spec",
    "C08.range_spec",
    "C08.polygon_bbox_never_drops",
    "C08.polygon_impl_eq_evenodd",
    "C08.categorical_spec",
    "C08.move_equivariant",
    "C08.center_moveTo",
    "C08.range_center_moveTo",
    "C08.polygon_translate",
    "C08.polygon_centroid_translate",
    "C08.rotate_equivariant_rect",
    "C08.rotate_equivariant_rect_spec",
    "C08.rotate_equivariant_ellipse_spec",
    "C08.rotate_equivariant_ellipse",
    "C08.evenodd_direction_independent",
    "C08.rotate_equivariant_polygon_spec",
    "C08.rotate_equivariant_polygon",
    "C08.rotateTo_polygon",
    "C08.polygon_centroid_rotate",
    "C08.center_rotateTo",
    "C08.polygon_band_contains_boundary",
    "C08.ops_equivariant_spec",
    "C08.ops_equivariant",
    "C08.ops_base_region",
    "C08.redefine_conventions",
    "C08.stale_theta_witness",
    "C08.copy_shares_vertices_witness",
    "C08.copy_independent",
    "C08.copy_same",
    "C08.params_roundtrip",
    "C08.restore_same",
    "C08.shape_independent",
    "C08.projected_chunking",
    "C08.contains_scale_equivariant",
    "C08.contains_translate_equivariant",
]

PROP = Property(
    id="C08",
    title="Region containment is geometrically exact and equivariant under move/rotate/copy",
    theorems=THEOREMS,
    families=[L0Poly(), Cat(), Contains(), Ops(), Proj(), Disc()],
    trusted_base=["IEEE double arithmetic of numpy is assumed to stay within the recorded band eps = 1e-6*scale of exact arithmetic "
                  "(and to be exact on the small dyadic inputs flagged exact)",
                  "matplotlib Path.contains_points (validated against the even-odd crossing model by the l0poly family, boundary points included)"],
    assumptions=["np.isclose thresholds are modelled on the exact angle; no angle within 7 % of the 1e-9 threshold is generated",
                 "the discretisation clause (to_polygon of circle/ellipse/annulus) has no theorem; it is checked numerically by the disc family"],
    rule="per family: parameter sweeps (all rotations of a table of exact quarter turns, Pythagorean rotations and tilts of 2^-k around every quarter turn; "
         "degenerate/thin shapes; open/closed/concave/self-intersecting polygons) x point sets (dyadic grids, boundary band, far, NaN/inf) x array layouts; "
         "non-trivial = the answer has both inside and outside points",
)
